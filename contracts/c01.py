"""C01 - every assembly coolant energy balance closes at every axial step.

Right-hand sides come from the property statement: the enthalpy-flow increase
(sum over cells of  mdot_i * cp * dT_i, mdot_i from the region's sc_mfr) equals
dz * (pin power + direct coolant heating) + the heat received through the duct
wall, where "heat received through the wall" is the SAME expression C11 proves to
be the wall's boundary flux (film coefficient x (T_surface - T_coolant) x face
length, face length = q_area / thickness).  The code's own ebal tallies are then
separately proved equal to those terms.
"""
from __future__ import annotations
import numpy as np
from . import common
from .common import make_rodded, set_int_params, set_temps, make_unrodded

MODULES = common.RR_MODULES + common.UR_MODULES + ['dassh.assembly']
PROPERTY = 'C01'
LEAN_LEMMAS = ['sweep_balance']        # /verif/lean/Ghost.lean, checked in the thorough tier
FUNCTIONS = [
    'dassh.region_rodded:RoddedRegion._calc_coolant_int_temp', 'dassh.region_rodded:RoddedRegion._calc_int_sc_power',
    'dassh.region_rodded:RoddedRegion._calc_coolant_byp_temp', 'dassh.region_rodded:RoddedRegion.sc_mfr',
    'dassh.region_rodded:RoddedRegion.avg_coolant_int_temp', 'dassh.region_rodded:RoddedRegion.avg_coolant_temp',
    'dassh.region_rodded:RoddedRegion._setup_flowrate', 'dassh.region_rodded:RoddedRegion._setup_ht_constants',
    'dassh.region_rodded:calculate_ht_constants', 'dassh.region_rodded:_setup_conduction_constants',
    'dassh.region_rodded:_setup_convection_constants', 'dassh.region_rodded:RoddedRegion.__init__',
    'dassh.region:DASSH_Region._activate_base', 'dassh.region:DASSH_Region.update_ebal',
    'dassh.region:DASSH_Region.update_ebal_byp',
    'dassh.region_unrodded:SingleNodeHomogeneous._calc_coolant_temp',
    'dassh.region_unrodded:MultiNodeHomogeneous._calc_coolant_temp',
    'dassh.region_unrodded:MultiNodeHomogeneous._setup_ht_consts',
    'dassh.region_rodded:RoddedRegion.clone', 'dassh.region_unrodded:SingleNodeHomogeneous.clone',
    'dassh.region_unrodded:MultiNodeHomogeneous.clone',
]
ASSUMPTIONS = [
    'calculate_geometry enters through its contract (atoms + relations proved in C08); topology arrays (type, sc_adj, '
    'rev_pin_adj) come from the real Subchannel built at nominal dimensions (dimension-independence and well-formedness: '
    'C08 bounded run-time contracts)',
    'material properties are evaluated by the code at the previous level (explicit step): the identity is proved with the '
    'properties the code used, i.e. the only residual for temperature-dependent coolants is the property lag',
]
NOT_DECIDED = ['"residual shrinks linearly with the step size" for temperature-dependent properties (a convergence-order '
               'statement, not a post-condition of one call)',
               'ring counts other than the enumerated ones (the kernels are vectorised with no size-dependent control '
               'flow; the enumerated sizes are listed in the evidence)']
BOUNDED = []


def _face(rr, i, ty):
    """wall face length of a duct cell of duct i (shared with C11)"""
    return rr.duct_params['q_area'][i, ty] / rr.duct_params['thickness'][i]


def interior(S, cfg):
    rr = make_rodded(S, n_ring=cfg['n_ring'], n_duct=cfg.get('n_duct', 1), tdep=cfg.get('tdep', False),
                     wwdir=cfg.get('wwdir', 'clockwise'))
    if cfg.get('cloned'):
        # the region the sweep uses is a clone of a template with its own flow rate
        rr = rr.clone(new_flowrate=S.pos('flow_clone', 5.0, 30.0))
    set_int_params(S, rr, conv_approx=cfg.get('conv_approx', False))
    set_temps(S, rr)
    nsc = rr.subchannel.n_sc['coolant']['total']
    n_int = rr.subchannel.n_sc['coolant']['interior']
    nd = rr.subchannel.n_sc['duct']['total']
    dz = S.pos('dz', 0.001, 0.02)
    power = cfg.get('power', 'both')
    q_pins = S.vec('qpin', rr.n_pin, 'real', 0.0, 3e4) if power in ('both', 'pins') else None
    q_cool = S.vec('qcool', nsc, 'real', 0.0, 500.0) if power in ('both', 'cool') else None
    T0 = rr.temp['coolant_int'].copy()
    Ts = rr.temp['duct_surf'].copy()
    Tmw = rr.temp['duct_mw'].copy()
    rr.ebal['power'] = 0
    rr.ebal['duct'] = rr.ebal['duct'] * 0
    block = (S.names('Tc', nsc) + S.names('Ts', (rr.n_duct, 2, nd)) + S.names('Tmw', (rr.n_duct, nd))
             + S.names('qpin', rr.n_pin) + S.names('qcool', nsc))
    if cfg.get('tdep'):
        block = None

    dT = rr._calc_coolant_int_temp(dz, q_pins, q_cool, ebal=True)

    cp = rr.coolant.heat_capacity
    mfr = rr.sc_mfr
    lhs = sum(mfr[i] * cp * dT[i] for i in range(nsc))
    q_tot = 0
    if q_pins is not None:
        q_tot = q_tot + sum(q_pins)
    if q_cool is not None:
        q_tot = q_tot + sum(q_cool)
    wall = []
    for w in range(nd):
        i = n_int + w
        ty = rr.subchannel.type[i]                     # 1 edge, 2 corner
        h = rr.coolant_int_params['htc'][ty]
        face = _face(rr, 0, ty - 1)
        if cfg.get('conv_approx'):
            k = rr.duct._data['thermal_conductivity'](rr.avg_duct_mw_temp[0])
            t = rr.duct_params['thickness'][0]
            flux = (Tmw[0, w] - T0[i]) / (1 / h + t / (2 * k))
        else:
            flux = h * (Ts[0, 0, w] - T0[i])
        wall.append(dz * flux * face)
    S.eq('int.energy', lhs, dz * q_tot + sum(wall), block=block)
    S.eq('int.ebal_power', rr.ebal['power'], dz * q_tot, block=block)
    S.eq('int.ebal_duct', rr.ebal['duct'], wall, block=block)
    q_sc = rr._calc_int_sc_power(q_pins, q_cool)
    S.eq('int.pin_power_partition', sum(q_sc), q_tot, block=block)
    # mass-flow weights: sum of subchannel flows = interior flow, GIVEN flow-split mass conservation (C12)
    n_sc = [n_int, rr.subchannel.n_sc['coolant']['edge'], 6]
    fs = rr.coolant_int_params['fs']
    cons = sum(n_sc[t] * rr.params['area'][t] * fs[t] for t in range(3))
    S.eq('avg.weights_sum (x bundle area)', sum(mfr) * rr.bundle_params['area'], rr.int_flow_rate * cons)
    # mixed mean = sum mdot_i T_i / flow
    S.eq('avg.mixed_mean', rr.avg_coolant_int_temp * rr.int_flow_rate,
         sum(mfr[i] * rr.temp['coolant_int'][i] for i in range(nsc)))
    S.eq('canary.energy_wall_doubled', lhs, dz * q_tot + sum(wall) + wall[0], block=block, canary=True)
interior.cname = 'RoddedRegion._calc_coolant_int_temp'


def bypass(S, cfg):
    rr = make_rodded(S, n_ring=cfg['n_ring'], n_duct=cfg['n_duct'], tdep=cfg.get('tdep', False))
    if cfg.get('cloned'):
        rr = rr.clone(new_flowrate=S.pos('flow_clone', 5.0, 30.0))
    set_int_params(S, rr, conv_approx=cfg.get('conv_approx', False))
    set_temps(S, rr)
    nd = rr.subchannel.n_sc['duct']['total']
    nb = rr.n_bypass
    dz = S.pos('dz', 0.001, 0.02)
    Tb = rr.temp['coolant_byp'].copy()
    Ts = rr.temp['duct_surf'].copy()
    Tmw = rr.temp['duct_mw'].copy()
    rr.ebal['duct_byp_in'] = rr.ebal['duct_byp_in'] * 0
    rr.ebal['duct_byp_out'] = rr.ebal['duct_byp_out'] * 0
    block = S.names('Tb', (nb, nd)) + S.names('Ts', (rr.n_duct, 2, nd)) + S.names('Tmw', (rr.n_duct, nd))
    if cfg.get('tdep'):
        block = None
    avg_mw = rr.avg_duct_mw_temp
    avg_b = rr.avg_coolant_byp_temp

    dT = rr._calc_coolant_byp_temp(dz, ebal=True)

    for i in range(nb):
        cp = rr.coolant._data['heat_capacity'](avg_b[i])
        # bypass flow is split over the cells in proportion to their area
        start = rr.subchannel.n_sc['coolant']['total'] + nd + i * 2 * nd
        typ = rr.subchannel.type[start:start + nd] - 5            # 0 edge, 1 corner
        mfr = [rr.byp_flow_rate[i] * rr.bypass_params['area'][i, typ[c]] / rr.bypass_params['total area'][i]
               for c in range(nd)]
        lhs = sum(mfr[c] * cp * dT[i, c] for c in range(nd))
        w_in, w_out = [], []
        for c in range(nd):
            h = rr.coolant_byp_params['htc'][i, typ[c]]
            # faces: outer face of duct i (inner wall of the gap), inner face of duct i+1
            face_in = _face(rr, i, typ[c])
            face_out = rr.pin_pitch if typ[c] == 0 else 2 * rr.d['wcorner'][i + 1, 1]
            if cfg.get('conv_approx'):
                k_in = rr.duct._data['thermal_conductivity'](avg_mw[i])
                k_out = rr.duct._data['thermal_conductivity'](avg_mw[i + 1])
                f_in = (Tmw[i, c] - Tb[i, c]) / (1 / h + rr.d['wall'][i] / (2 * k_in))
                f_out = (Tmw[i + 1, c] - Tb[i, c]) / (1 / h + rr.d['wall'][i + 1] / (2 * k_out))
            else:
                f_in = h * (Ts[i, 1, c] - Tb[i, c])
                f_out = h * (Ts[i + 1, 0, c] - Tb[i, c])
            w_in.append(dz * f_in * face_in)
            w_out.append(dz * f_out * face_out)
        S.eq(f'byp.energy[{i}]', lhs, sum(w_in) + sum(w_out), block=block)
        S.eq(f'byp.ebal_in[{i}]', rr.ebal['duct_byp_in'][i], w_in, block=block)
        S.eq(f'byp.ebal_out[{i}]', rr.ebal['duct_byp_out'][i], w_out, block=block)
        S.eq(f'byp.flow_sum[{i}] (x total area)', sum(mfr) * rr.bypass_params['total area'][i],
             rr.byp_flow_rate[i] * sum(rr.bypass_params['area'][i, typ[c]] for c in range(nd)))
    S.eq('canary.byp_energy_no_outer_wall', sum(
        (rr.byp_flow_rate[0] * rr.bypass_params['area'][0, (rr.subchannel.type[
            rr.subchannel.n_sc['coolant']['total'] + nd + c] - 5)] / rr.bypass_params['total area'][0])
        * rr.coolant._data['heat_capacity'](avg_b[0]) * dT[0, c] for c in range(nd)),
        sum(dz * rr.coolant_byp_params['htc'][0, rr.subchannel.type[
            rr.subchannel.n_sc['coolant']['total'] + nd + c] - 5] * (Ts[0, 1, c] - Tb[0, c]) * rr.pin_pitch
            for c in range(nd)), canary=True)
bypass.cname = 'RoddedRegion._calc_coolant_byp_temp'


def unrodded(S, cfg):
    model = cfg['model']
    ur = make_unrodded(S, model=model, tdep=cfg.get('tdep', False), lowflow=cfg.get('lowflow', False),
                       mratio=cfg.get('mratio', 'atom'))
    nn = 1 if model == 'simple' else 6
    if cfg.get('cloned'):
        ur = ur.clone(new_flowrate=S.pos('flow_clone', 5.0, 30.0))
    ur.temp['coolant_int'] = S.vec('Tc', nn, 'pos', 600.0, 900.0)
    ur.temp['duct_mw'] = S.vec('Tmw', (1, 6), 'pos', 600.0, 900.0)
    ur.temp['duct_surf'] = S.vec('Ts', (1, 2, 6), 'pos', 600.0, 900.0)
    # film coefficient as the region reports it (coolant_params['htc'], the value the wall model uses)
    htc = S.pos('htc', 1e4, 1e5)
    ur.coolant_params['htc'] = htc
    dz = S.pos('dz', 0.001, 0.02)
    q = S.real('qrefl', 0.0, 1e4)
    T0 = ur.temp['coolant_int'].copy()
    Ts = ur.temp['duct_surf'].copy()
    Tmw = ur.temp['duct_mw'].copy()
    ur.ebal['power'] = 0
    ur.ebal['duct'] = ur.ebal['duct'] * 0
    adiabatic = cfg.get('adiabatic', False)
    block = S.names('Tc', nn) + S.names('Ts', (1, 2, 6)) + S.names('Tmw', (1, 6)) + ['qrefl']
    if cfg.get('tdep'):
        block = None
    if model == '6node':
        # the six-node kernel refreshes its parameters itself; the refreshed film coefficient is the atom
        ur._update_coolant_params = lambda T, use_mat_tracker=True: None

    dT = ur._calc_coolant_temp(dz, {'refl': q}, adiabatic, ebal=True)

    cp = ur.coolant.heat_capacity
    side = ur.duct_perim / 6
    S.eq('lf.side_length', side, ur.duct_ftf[1] / (3 ** 0.5 if S.mode != 'sym' else common.Sym(common.core.C(common.core.Q3(0, 1)))))
    wall = []
    for c in range(6):
        Tc = T0[c] if nn == 6 else T0[0]
        if adiabatic:
            wall.append(0 * dz)
        elif cfg.get('lowflow'):
            k = ur.duct.thermal_conductivity
            wall.append(dz * side * (Tmw[0, c] - Tc) / (1 / htc + ur.duct_thickness / (2 * k)))
        else:
            # the wall-side boundary flux of C11 (bc.inner): h (T_surface,in - T_coolant) per unit face
            wall.append(dz * side * htc * (Ts[0, 0, c] - Tc))
    if nn == 1:
        lhs = ur.flow_rate * cp * dT[0] if hasattr(dT, '__len__') else ur.flow_rate * cp * dT
    else:
        lhs = sum((ur.flow_rate / 6) * cp * dT[c] for c in range(6))
    S.eq('lf.energy', lhs, dz * q + sum(wall), block=block)
    S.eq('lf.ebal_power', ur.ebal['power'], dz * q, block=block)
    S.eq('lf.ebal_duct', ur.ebal['duct'], wall, block=block)
    S.eq('canary.lf_energy_double_power', lhs, 2 * dz * q + sum(wall), block=block, canary=True)
unrodded.cname = 'Homogeneous._calc_coolant_temp'


def weights_frozen(S, cfg):
    """the mass-flow weights of the step balance are constants of the sweep: the per-step parameter update
    (_update_coolant_int_params / _update_coolant_byp_params, called at the end of every step with the new average
    temperature) changes velocity, Reynolds numbers, film coefficients and mixing parameters but NOT the flow split,
    the subchannel mass flows or the bypass flows - otherwise the enthalpy flow sum m_i cp T_i would jump between two
    steps with no heat behind it. The flow-split correlation is given as one that WOULD return a different split."""
    n_duct = cfg.get('n_duct', 1)
    rr = make_rodded(S, n_ring=cfg.get('n_ring', 2), n_duct=n_duct, tdep=True)
    set_int_params(S, rr)
    set_temps(S, rr)
    rr.coolant_int_params['Re'] = S.pos('Re0', 1e3, 1e5)
    rr.coolant_int_params['vel'] = S.pos('vel0', 1.0, 8.0)
    rr.coolant_int_params['Re_sc'] = np.array([1.0, 1.0, 1.0], dtype=object if S.mode == 'sym' else float)
    rr.coolant_int_params['ff'] = S.pos('ff0', 0.01, 0.05)
    other_split = S.vec('fs_other', 3, 'pos', 0.8, 1.2)
    calls = []

    def fs_corr(region, grid=False):
        calls.append('fs')
        return other_split
    rr.corr['fs'] = fs_corr
    rr.corr['ff'] = lambda region: S.pos('ff_other', 0.01, 0.05)
    rr.corr['nu'] = lambda cool, re_sc, par: np.array([7.0, 7.0, 7.0], dtype=object if S.mode == 'sym' else float)
    rr.corr['mix'] = lambda region: (S.nonneg('mix_eddy', 0.0, 0.1), S.nonneg('mix_swirl', 0.0, 0.5))
    rr.htc_params = {'duct': [0.023, 0.8, 0.8, 7.0]}
    if hasattr(rr, '_coolant_tracker'):
        del rr._coolant_tracker
    fs0 = list(rr.coolant_int_params['fs'])
    mfr0 = list(rr.sc_mfr)
    tot0 = rr.int_flow_rate
    byp0 = list(np.ravel(rr.byp_flow_rate)) if rr.n_bypass else []
    T_new = S.pos('T_new', 620.0, 900.0)
    rr._update_coolant_int_params(T_new)
    if rr.n_bypass:
        rr.corr['byp_nu'] = rr.corr['nu']
        try:
            rr._update_coolant_byp_params([T_new] * rr.n_bypass)
        except Exception as e:                      # correlations of the bypass not stubbed completely: frame only
            S.note(f'bypass update raised {type(e).__name__} after the frame was observed')
    for t in range(3):
        S.eq(f'weights.flow_split_frozen[{t}]', rr.coolant_int_params['fs'][t], fs0[t])
    for i, m in enumerate(mfr0):
        S.eq(f'weights.subchannel_mass_flow_frozen[{i}]', rr.sc_mfr[i], m)
    S.eq('weights.bundle_flow_frozen', rr.int_flow_rate, tot0)
    for i, m in enumerate(byp0):
        S.eq(f'weights.bypass_flow_frozen[{i}]', np.ravel(rr.byp_flow_rate)[i], m)
    S.eq('canary.weights_follow_the_correlation', rr.coolant_int_params['fs'][0], other_split[0], canary=True)


weights_frozen.cname = 'RoddedRegion._update_coolant_int_params/frame'
weights_frozen.run_kw = dict(check_div=False)


def property_state(S, cfg):
    """the real RoddedRegion.calculate with recording kernels: whatever state the previous step's bypass update left the
    coolant object in, the interior energy equation is evaluated with the properties at the interior average
    temperature of the previous level, and each bypass gap with the properties at that gap's own average - the residual
    of the balance is then the one-step property lag only (which shrinks with the step), not a difference between two
    coolant streams (which does not). (Single-duct bundles have no other stream: there the state at entry IS the interior
    average, set by the previous step's _update_coolant_int_params.)"""
    n_duct = cfg['n_duct']
    rr = make_rodded(S, n_ring=2, n_duct=n_duct, tdep=True)
    set_int_params(S, rr)
    set_temps(S, rr)
    cp = rr.coolant._data['heat_capacity']
    T_stale = S.pos('T_left_by_bypass_update', 600.0, 700.0)
    rr._update_coolant(T_stale)
    T_int = rr.avg_coolant_int_temp
    seen = {}
    nsc = rr.subchannel.n_sc['coolant']['total']
    nd = rr.subchannel.n_sc['duct']['total']
    zeros_int = np.array([0] * nsc, dtype=object if S.mode == 'sym' else float)

    def int_kernel(dz, qp, qc, ebal=False):
        seen['int'] = rr.coolant.heat_capacity
        return zeros_int

    def byp_kernel(dz, ebal=False):
        seen['byp_called'] = True
        return np.zeros((rr.n_bypass, nd)) if S.mode != 'sym' else np.array(np.zeros((rr.n_bypass, nd)), dtype=object)
    with common.patched((rr, '_calc_duct_temp', lambda *a, **k: None), (rr, '_calc_coolant_int_temp', int_kernel),
                        (rr, '_update_coolant_int_params', lambda *a, **k: None),
                        (rr, '_calc_coolant_byp_temp', byp_kernel), (rr, '_update_coolant_byp_params', lambda *a, **k: None)):
        rr.calculate(S.pos('dz', 0.001, 0.01), {'pins': None, 'cool': None, 'duct': None}, None, None, True, False)
    S.eq('props.interior_equation_at_interior_temperature', seen['int'], cp(T_int))
    S.eq('canary.props_interior_equation_at_stale_temperature', seen['int'], cp(T_stale), canary=True)


property_state.cname = 'RoddedRegion.calculate/property-state'
property_state.run_kw = dict(check_div=False)


def carry_over(S, cfg):
    """region change: every coolant node of the new region gets the mixed-mean
    temperature of the old one, hence the new mixed mean equals the old one"""
    kind = cfg['kind']
    block = None
    if kind == 'rr->ur':
        old = make_rodded(S, n_ring=2, n_duct=cfg.get('n_duct', 1))
        set_int_params(S, old)
        set_temps(S, old)
        new = make_unrodded(S, model=cfg.get('model', 'simple'))
        nsc = old.subchannel.n_sc['coolant']['total']
        nd = old.subchannel.n_sc['duct']['total']
        block = S.names('Tc', nsc) + (S.names('Tb', (old.n_bypass, nd)) if old.n_bypass else [])
    else:
        old = make_unrodded(S, model=cfg.get('model', 'simple'))
        nn = old.temp['coolant_int'].shape[0]
        old.temp['coolant_int'] = S.vec('Tu', nn, 'pos', 600.0, 900.0)
        old.temp['duct_mw'] = S.vec('Tumw', (1, 6), 'pos', 600.0, 900.0)
        new = make_rodded(S, n_ring=2, n_duct=cfg.get('n_duct', 1))
        set_int_params(S, new)
        block = S.names('Tu', nn)
    mean_old = old.avg_coolant_temp
    if kind == 'rr->ur':
        # the property's mixed mean: mass-flow weighted over interior and bypass cells
        num = sum(old.sc_mfr[i] * old.temp['coolant_int'][i] for i in range(nsc))
        if old.n_bypass > 0:
            for b in range(old.n_bypass):
                start = nsc + nd + b * 2 * nd
                typ = old.subchannel.type[start:start + nd] - 5
                for c in range(nd):
                    num = num + (old.byp_flow_rate[b] * old.bypass_params['area'][b, typ[c]]
                                 / old.bypass_params['total area'][b]) * old.temp['coolant_byp'][b, c]
        S.eq('carry.mixed_mean_definition (x total flow)', mean_old * old.total_flow_rate, num, block=block)
    else:
        if nn == 6:
            S.eq('carry.mixed_mean_definition (x6)', mean_old * 6, sum(old.temp['coolant_int']), block=block)
        else:
            S.eq('carry.mixed_mean_definition', mean_old, old.temp['coolant_int'][0], block=block)
    new._activate_base(old)
    S.eq('carry.int_nodes', new.temp['coolant_int'], mean_old, block=block)
    if 'coolant_byp' in new.temp:
        S.eq('carry.byp_nodes', new.temp['coolant_byp'], mean_old, block=block)
    S.eq('canary.carry_scaled', new.temp['coolant_int'][0], 2 * mean_old, block=block, canary=True)
carry_over.cname = 'DASSH_Region._activate_base'


def _fresh_unrodded(S, model):
    ur = make_unrodded(S, model=model)
    return ur


def configs(tier):
    out = []
    for n in ((2, 3) if tier == 'quick' else (2, 3, 4, 5)):
        out.append((interior, dict(n_ring=n)))
        out.append((interior, dict(n_ring=n, conv_approx=True)))
    out.append((interior, dict(n_ring=2, wwdir='counterclockwise')))
    out.append((interior, dict(n_ring=2, power='pins')))
    out.append((interior, dict(n_ring=2, power='cool')))
    out.append((interior, dict(n_ring=2, power='none')))
    out.append((interior, dict(n_ring=2, n_duct=2)))
    out.append((interior, dict(n_ring=2, tdep=True)))
    out.append((interior, dict(n_ring=2, cloned=True)))
    out.append((bypass, dict(n_ring=2, n_duct=2, cloned=True)))
    out.append((unrodded, dict(model='simple', cloned=True)))
    out.append((unrodded, dict(model='6node', cloned=True)))
    out.append((bypass, dict(n_ring=2, n_duct=2)))
    out.append((bypass, dict(n_ring=2, n_duct=2, conv_approx=True)))
    out.append((bypass, dict(n_ring=3, n_duct=2)))
    out.append((bypass, dict(n_ring=2, n_duct=3)))
    for model in ('simple', '6node'):
        out.append((unrodded, dict(model=model)))
        out.append((unrodded, dict(model=model, lowflow=True)))
        out.append((unrodded, dict(model=model, adiabatic=True)))
        out.append((unrodded, dict(model=model, mratio=1.0)))
    out.append((property_state, dict(n_duct=2)))
    out.append((property_state, dict(n_duct=3)))
    out.append((weights_frozen, dict(n_ring=2)))
    out.append((weights_frozen, dict(n_ring=2, n_duct=2)))
    out.append((carry_over, dict(kind='rr->ur')))
    out.append((carry_over, dict(kind='rr->ur', n_duct=2)))
    out.append((carry_over, dict(kind='rr->ur', n_duct=3)))
    out.append((carry_over, dict(kind='ur->rr')))
    out.append((carry_over, dict(kind='ur->rr', n_duct=2, model='6node')))
    # temperature-dependent properties (uninterpreted functions of temperature): a value cached from another
    # temperature is a different atom
    out.append((bypass, dict(n_ring=2, n_duct=2, tdep=True)))
    out.append((unrodded, dict(model='6node', tdep=True)))
    out.append((unrodded, dict(model='simple', tdep=True)))
    if tier == 'thorough':
        out.append((interior, dict(n_ring=6)))
        out.append((interior, dict(n_ring=3, n_duct=3, conv_approx=True, wwdir='counterclockwise')))
        out.append((bypass, dict(n_ring=4, n_duct=3)))
        out.append((bypass, dict(n_ring=2, n_duct=3, tdep=True)))
    return out
