"""C02 - inter-assembly heat exchange is conservative; the core balance closes.

Chain of contracts on the real code (flowing gap model):
  region_step     RoddedRegion.calculate / SingleNode- and MultiNodeHomogeneous.calculate, one axial step from
                  any state: enthalpy rise of all coolant of the region (interior + bypass gaps)
                      = step x (pin + coolant + duct heating)  -  Q_out,
                  Q_out = sum over outer duct cells of  step x face width x h_gap x (T_outer_surface_new - T_gap)
                  (the heat that leaves the assembly through its outer duct; 0 with the adiabatic option).
                  For six-node regions with the one-level lag the model builds in (coolant advanced before its wall).
  glue            Reactor._calculate_asm_temperatures hands the region  h_d = map(h),  T_d = map(h T) / map(h)
                  (gap -> duct map) and Reactor.axial_step hands the gap model  map(T_outer_surface)  (duct -> gap
                  map), both of the ACTIVE region; with the adiabatic option / no gap model nothing is handed over.
  exchange        with the real maps of _map_asm2gap (C10) and any positive h, any temperatures:
                      sum_duct w_i h_d,i (Ts_i - T_d,i)  =  sum_gap u_j h_j ((map Ts)_j - T_j)
                  i.e. Q_out computed on the duct mesh is what the gap cells are credited on the gap mesh, also for
                  unequal meshes and unequal corner halves.
  gap_step        Core.calculate_gap_temperatures on loaded layouts (C09), all real dimensions / temperatures:
                  ebal['asm'] grows by  h_j x (cell width seen from the assembly) x step x (T_duct - T_j);
                  enthalpy rise of the gap coolant = sum of those credits (conduction between gap cells cancels).
Summing region_step over assemblies and steps and gap_step over steps gives the core balance (with C03 for
the power); bounded run-time contracts check that closure on generated cores.
"""
from __future__ import annotations
import math
import numpy as np
from . import common, c09
from .common import make_rodded, set_int_params, set_temps, make_unrodded, patched, make_material
from pvc import core
from pvc.core import Sym

MODULES = common.RR_MODULES + common.UR_MODULES + ['dassh.core', 'dassh.reactor', 'dassh.mesh_functions', 'dassh.assembly', 'dassh.material']
PROPERTY = 'C02'
LEAN_LEMMAS = ['sweep_balance', 'core_balance', 'exchange']        # /verif/lean/Ghost.lean, checked in the thorough tier
FUNCTIONS = ['dassh.region_rodded:RoddedRegion.calculate', 'dassh.region_unrodded:SingleNodeHomogeneous.calculate',
             'dassh.region_unrodded:MultiNodeHomogeneous.calculate', 'dassh.reactor:Reactor._calculate_asm_temperatures',
             'dassh.reactor:Reactor.axial_step', 'dassh.assembly:Assembly.update_region / check_region_update',
             'dassh.core:Core.calculate_gap_temperatures',
             'dassh.core:Core._update_energy_balance', 'dassh.core:Core._flow_model',
             'dassh.mesh_functions:_map_asm2gap + map_across_gap (exchange lemma on the real maps)']
ASSUMPTIONS = ['constant coolant / duct properties within a step (properties are atoms): with temperature-dependent gap '
               'coolant the gap side re-evaluates its film coefficient before crediting the heat (a lag of one step, as the '
               'property allows: "round-off for constant properties")',
               'correlation outputs (film coefficients, flow split, mixing) are positive atoms; '
               '_update_coolant_*_params (refresh for the NEXT step) are stubbed',
               'induction over steps and summation over assemblies is the meta-argument']
NOT_DECIDED = ['no-flow and duct-average gap models (not discretely conservative; the property excludes them)',
               'Assembly.update_region / activate at a region change re-solves the wall on the new mesh (no coolant '
               'energy involved: walls hold no energy); only the coolant carry-over is under contract (C01)']
BOUNDED = ['runtime.* : closure of the core balance and per-assembly agreement (assembly side vs gap side) on generated '
           '7-position cores: equal / unequal meshes, unrodded and six-node regions, double ducts, empty positions, periphery']


def _sum(xs):
    t = 0
    for x in xs:
        t = t + x
    return t


def region_step(S, cfg):
    n_duct, adiabatic = cfg.get('n_duct', 1), cfg.get('adiabatic', False)
    rr = make_rodded(S, n_ring=cfg.get('n_ring', 2), n_duct=n_duct, byp_stagnant=cfg.get('stagnant', False))
    set_int_params(S, rr)
    set_temps(S, rr)
    nsc = rr.subchannel.n_sc['coolant']['total']
    nd = rr.subchannel.n_sc['duct']['total']
    dz = S.pos('dz', 0.001, 0.02)
    q = {'pins': S.vec('qpin', rr.n_pin, 'real', 0.0, 3e4), 'cool': S.vec('qcool', nsc, 'real', 0.0, 500.0),
         'duct': S.vec('qduct', n_duct * nd, 'real', 0.0, 5e3)}
    t_gap = S.vec('Tgap', nd, 'pos', 600.0, 900.0)
    h_gap = S.vec('hgap', nd, 'pos', 1e4, 1e5)
    Tc0 = rr.temp['coolant_int'].copy()
    Tb0 = rr.temp['coolant_byp'].copy() if rr.n_bypass else None
    cp = rr.coolant.heat_capacity
    mfr = rr.sc_mfr.copy()
    with patched((type(rr), '_update_coolant_int_params', lambda self, *a, **k: None),
                 (type(rr), '_update_coolant_byp_params', lambda self, *a, **k: None)):
        rr.calculate(dz, q, t_gap, h_gap, adiabatic, True)
    rise = _sum(mfr[i] * cp * (rr.temp['coolant_int'][i] - Tc0[i]) for i in range(nsc))
    for b in range(rr.n_bypass or 0):
        start = nsc + nd + b * 2 * nd
        typ = rr.subchannel.type[start:start + nd] - 5
        for c in range(nd):
            m = rr.byp_flow_rate[b] * rr.bypass_params['area'][b, typ[c]] / rr.bypass_params['total area'][b]
            rise = rise + m * cp * (rr.temp['coolant_byp'][b, c] - Tb0[b, c])
    heat = dz * (_sum(q['pins']) + _sum(q['cool']) + _sum(q['duct']))
    q_out = 0
    if not adiabatic:
        for c in range(nd):
            ty = rr._duct_idx[c]
            face = rr.duct_params['q_area'][n_duct - 1, ty] / rr.duct_params['thickness'][n_duct - 1]
            q_out = q_out + dz * face * h_gap[c] * (rr.temp['duct_surf'][n_duct - 1, 1, c] - t_gap[c])
    block = (S.names('Tc', nsc) + S.names('Ts', (n_duct, 2, nd)) + S.names('Tmw', (n_duct, nd))
             + S.names('qpin', rr.n_pin) + S.names('qcool', nsc) + S.names('qduct', n_duct * nd) + S.names('Tgap', nd)
             + (S.names('Tb', (rr.n_bypass, nd)) if rr.n_bypass else []))
    if cfg.get('stagnant'):
        # no flow in the bypass: its temperature is not an enthalpy flow; the identity is stated for the interior only
        S.note('stagnant bypass: see C04 (not an energy-carrying stream)')
        return
    S.eq('step.coolant_rise_is_heating_minus_heat_through_outer_duct', rise, heat - q_out, block=block)
    # the outer faces are the duct cells of calculate_xbnds (what the gap <-> duct maps are built on)
    xb = rr.calculate_xbnds()
    for c in range(nd):
        ty = rr._duct_idx[c]
        face = rr.duct_params['q_area'][n_duct - 1, ty] / rr.duct_params['thickness'][n_duct - 1]
        width = (xb[c + 2] - xb[c + 1]) if c < nd - 1 else (xb[-1] - xb[-2]) + xb[1]
        S.eq(f'step.outer_face_is_mesh_cell[{c}]', face, width)
    S.eq('canary.step_no_heat_through_duct', rise, heat, block=block, canary=not adiabatic)


region_step.cname = 'RoddedRegion.calculate'
region_step.run_kw = dict(check_div=False, budget_ms=8000)


def unrodded_step(S, cfg):
    model = cfg['model']
    adiabatic = cfg.get('adiabatic', False)
    ur = make_unrodded(S, model=model)
    dz = S.pos('dz', 0.001, 0.02)
    n = 6
    nn = 1 if model == 'simple' else 6
    ur.temp['coolant_int'] = S.vec('Tc', nn, 'pos', 600.0, 900.0)
    ur.temp['duct_mw'] = S.vec('Tmw', (1, 6), 'pos', 600.0, 900.0)
    ur.temp['duct_surf'] = S.vec('Ts', (1, 2, 6), 'pos', 600.0, 900.0)
    htc = S.pos('htc', 1e4, 1e5)
    ur.coolant_params['htc'] = htc
    q = {'refl': S.real('qrefl', 0.0, 1e4)}
    t_gap = S.vec('Tgap', n, 'pos', 600.0, 900.0)
    h_gap = S.vec('hgap', n, 'pos', 1e4, 1e5)
    Tc0 = ur.temp['coolant_int'].copy()
    Ts0 = ur.temp['duct_surf'].copy()
    cp = ur.coolant.heat_capacity
    ur._update_coolant_params = lambda *a, **k: None      # refresh for the next step (properties are atoms)
    ur.calculate(dz, q, t_gap, h_gap, adiabatic, True)
    xb = ur.calculate_xbnds()
    width = [xb[c + 2] - xb[c + 1] for c in range(5)] + [(xb[-1] - xb[-2]) + xb[1]]
    side = ur.duct_perim / 6
    for c in range(6):
        S.eq(f'step.outer_face_is_mesh_cell[{c}]', width[c], side)
    if nn == 1:
        rise = ur.flow_rate * cp * (ur.temp['coolant_int'][0] - Tc0[0])
    else:
        rise = _sum((ur.flow_rate / 6) * cp * (ur.temp['coolant_int'][i] - Tc0[i]) for i in range(6))
    heat = dz * q['refl']
    Ts1 = ur.temp['duct_surf']
    q_out_new = _sum(dz * side * h_gap[c] * (Ts1[0, 1, c] - t_gap[c]) for c in range(n))
    block = (S.names('Tc', nn) + S.names('Ts', (1, 2, 6)) + S.names('Tmw', (1, 6)) + ['qrefl'] + S.names('Tgap', n))
    if adiabatic:
        S.eq('step.adiabatic_coolant_rise_is_heating', rise, heat, block=block)
    elif model == 'simple':
        S.eq('step.coolant_rise_is_heating_minus_heat_through_duct', rise, heat - q_out_new, block=block)
    else:
        # six-node model: the coolant is advanced with the wall of the PREVIOUS level, then the wall is re-solved
        # (one-level lag): the coolant gives up the inner-face flux of the wall it saw ...
        q_wall_old = _sum(dz * side * htc * (Ts0[0, 0, c] - Tc0[c]) for c in range(6))
        S.eq('step.coolant_rise_is_heating_plus_wall_heat_of_previous_level', rise, heat + q_wall_old, block=block)
        # ... and the re-solved wall passes on to the gap exactly what it takes from the new coolant
        q_wall_new = _sum(dz * side * htc * (ur.temp['coolant_int'][c] - Ts1[0, 0, c]) for c in range(6))
        S.eq('step.new_wall_passes_on_what_it_takes', q_out_new, q_wall_new, block=block)
    S.eq('canary.unrodded_step_nothing_lost', rise, heat + 1, block=block, canary=True)


unrodded_step.cname = 'Homogeneous.calculate'
unrodded_step.run_kw = dict(check_div=False)


# ---------------------------------------------------------------------------------------
class _Reg:
    def __init__(self, maps):
        self._map = maps


class _AsmRec:
    def __init__(self, surf, maps):
        self._surf = surf
        self.active_region = _Reg(maps)
        self.calls = []
        self.updated = False

    @property
    def duct_outer_surf_temp(self):
        return self._surf

    def calculate(self, dz, t_gap, h_gap, adiabatic=False, ebal=False):
        self.calls.append(dict(dz=dz, t_gap=t_gap, h_gap=h_gap, adiabatic=adiabatic, ebal=ebal))

    def check_region_update(self, z):
        self.asked = z
        return self.will_change

    will_change = False

    def update_region(self, z, t_gap, h_gap, adiabatic=False):
        self.updated = dict(z=z, t_gap=t_gap, h_gap=h_gap, adiabatic=adiabatic)


class _CoreRec:
    def __init__(self, model, h, T):
        self.model = model
        self._h, self._T = h, T
        self.calls = []

    def adjacent_coolant_gap_htc(self, i):
        return self._h[i]

    def adjacent_coolant_gap_temp(self, i):
        return self._T[i]

    def calculate_gap_temperatures(self, dz, t_duct):
        self.calls.append((dz, t_duct))


def glue(S, cfg):
    """what Reactor hands to the assemblies and to the gap model in one axial step"""
    from dassh import reactor, mesh_functions
    sym = S.mode == 'sym'
    n_d, n_g = cfg.get('n_duct_cells', 2), cfg.get('n_gap_cells', 3)
    model = cfg.get('model', 'flow')
    r = reactor.Reactor.__new__(reactor.Reactor)
    import dassh
    dassh.logged_class.LoggedClass.__init__(r, 0, 'dassh.Reactor')
    r._options = {'dump': {'any': False}, 'ebal': True}
    r._is_adiabatic = model is None
    r.z = np.array([0.0, 0.1, 0.2])
    asms, hs, Ts_g = [], [], []
    for a in range(2):
        # weights of the gap -> duct map: non-negative, every duct cell overlaps at least one gap cell (C10: rows sum to 1)
        F = S.vec(f'F{a}', (n_d, n_g), 'nonneg', 0.0, 1.0)
        for i in range(n_d):
            F[i, i] = S.pos(f'F{a}_overlap[{i}]', 0.1, 1.0)
        G = S.vec(f'G{a}', (n_g, n_d), 'nonneg', 0.0, 1.0)
        asms.append(_AsmRec(S.vec(f'Tsurf{a}', n_d, 'pos', 600.0, 900.0), {'gap2duct': F, 'duct2gap': G}))
        hs.append(S.vec(f'h{a}', n_g, 'pos', 1e4, 1e5))
        Ts_g.append(S.vec(f'Tg{a}', n_g, 'pos', 600.0, 900.0))
    r.assemblies = asms
    r.core = _CoreRec(model, hs, Ts_g)
    dz = S.pos('dz', 0.001, 0.02)
    if cfg.get('region_change'):
        asms[1].will_change = True
    r.axial_step(0.1, dz, 0)
    for a in range(2):
        S.holds(f'glue.region_update_asked_for_next_plane[{a}]', asms[a].asked == r.z[1])
    if cfg.get('region_change'):
        S.holds('glue.only_changing_assembly_updated', asms[0].updated is False and asms[1].updated is not False)
        up = asms[1].updated
        S.holds('glue.update_at_next_plane', up['z'] == r.z[1])
        S.holds('glue.update_adiabatic_flag', up['adiabatic'] == (model is None))
        S.eq('glue.update_gets_gap_temperature_of_its_assembly', up['t_gap'], Ts_g[1])
        S.eq('glue.update_gets_gap_htc_of_its_assembly', up['h_gap'], hs[1])
    for a in range(2):
        S.holds(f'glue.assembly_called_once[{a}]', len(asms[a].calls) == 1)
        call = asms[a].calls[0]
        S.holds(f'glue.adiabatic_flag[{a}]', call['adiabatic'] == (model is None))
        S.eq(f'glue.step_passed[{a}]', call['dz'], dz)
        if model is None:
            continue
        F = asms[a].active_region._map['gap2duct']
        for i in range(n_d):
            hd = _sum(F[i, j] * hs[a][j] for j in range(n_g))
            S.eq(f'glue.h_on_duct_mesh[{a},{i}]', call['h_gap'][i], hd)
            S.eq(f'glue.T_on_duct_mesh_is_h_weighted[{a},{i}]', call['t_gap'][i] * hd,
                 _sum(F[i, j] * hs[a][j] * Ts_g[a][j] for j in range(n_g)))
    if model is None:
        S.holds('glue.no_gap_model_no_gap_update', len(r.core.calls) == 0)
    else:
        S.holds('glue.gap_called_once', len(r.core.calls) == 1)
        dzc, t_duct = r.core.calls[0]
        S.eq('glue.gap_step', dzc, dz)
        for a in range(2):
            G = asms[a].active_region._map['duct2gap']
            for j in range(n_g):
                S.eq(f'glue.duct_surface_on_gap_mesh[{a},{j}]', t_duct[a][j],
                     _sum(G[j, i] * asms[a]._surf[i] for i in range(n_d)))
    S.eq('canary.glue_gap_temperature_unweighted', asms[0].calls[0]['t_gap'][0] if model else dz,
         _sum(asms[0].active_region._map['gap2duct'][0, j] * Ts_g[0][j] for j in range(n_g)) if model else 2 * dz,
         canary=True)


glue.cname = 'Reactor.axial_step/_calculate_asm_temperatures'


class _RegU:
    def __init__(self, S, tag, n_d, n_g, dp):
        self._map = {'gap2duct': S.vec(f'F_{tag}', (n_d, n_g), 'nonneg', 0.0, 1.0), 'duct2gap': None}
        for i in range(n_d):
            self._map['gap2duct'][i, i % n_g] = S.pos(f'F_{tag}_overlap[{i}]', 0.1, 1.0)
        self.pressure_drop = dp
        self.temp = {'duct_surf': np.zeros((1, 2, n_d))}
        self.activated = []

    def activate(self, previous, t_gap, h_gap, adiabatic):
        self.activated.append(dict(previous=previous, t_gap=t_gap, h_gap=h_gap, adiabatic=adiabatic))


def region_change(S, cfg):
    """Assembly.update_region at a region boundary: the new region is activated from the old one with the gap boundary
    values mapped onto ITS OWN duct mesh (h-weighted temperature), nothing with the adiabatic option; the finished
    region's pressure drop is added once"""
    from dassh import assembly as A
    adiabatic = cfg.get('adiabatic', False)
    n_g = 3
    asm = A.Assembly.__new__(A.Assembly)
    old = _RegU(S, 'old', 2, n_g, S.nonneg('dp_old', 0.0, 1e4))
    new = _RegU(S, 'new', 3, n_g, S.nonneg('dp_new', 0.0, 1e4))
    asm.region = [old, new]
    asm._active_region_idx = 0
    # axial planes lie on the 1e-12 m raster (C05) and steps are at least one raster unit; the region bound is as read
    # (its plane plus the round-off of a unit conversion, of either sign)
    from .c14 import _units
    Kb = S.int('K_boundary', 2 * 10 ** 11, 8 * 10 ** 11)
    N = S.int('N_step', 10 ** 9, 2 * 10 ** 10)
    noise = S.real('bound_noise', -0.4, 0.4)
    S.assume(Kb >= 1, 'the boundary lies above the core inlet')
    S.assume(N >= 1, 'a step is at least one raster unit')
    S.assume(noise <= 0.4, 'conversion noise below 0.4 raster units')
    S.assume(noise >= -0.4, 'conversion noise below 0.4 raster units')
    plane_b = _units(S, Kb)
    b = plane_b + _units(S, noise)
    asm.region_bnd = [0, b]
    asm._pressure_drop = S.nonneg('dp_acc', 0.0, 1e4)
    dp0 = asm._pressure_drop
    z_next = _units(S, Kb + N)
    t_gap = S.vec('Tg', n_g, 'pos', 600.0, 900.0)
    h_gap = S.vec('hg', n_g, 'pos', 1e4, 1e5)
    S.holds('change.detected', bool(asm.check_region_update(z_next)))
    S.holds('change.not_detected_inside_region', not asm.check_region_update(plane_b))
    asm.update_region(z_next, t_gap, h_gap, adiabatic)
    S.holds('change.new_region_active', asm._active_region_idx == 1)
    S.holds('change.activated_once_from_old', len(new.activated) == 1 and new.activated[0]['previous'] is old
            and not old.activated)
    S.eq('change.pressure_drop_of_finished_region_added', asm._pressure_drop, dp0 + old.pressure_drop)
    call = new.activated[0]
    S.holds('change.adiabatic_flag', call['adiabatic'] == adiabatic)
    if not adiabatic:
        F = new._map['gap2duct']
        for i in range(3):
            hd = _sum(F[i, j] * h_gap[j] for j in range(n_g))
            S.eq(f'change.h_on_new_duct_mesh[{i}]', call['h_gap'][i], hd)
            S.eq(f'change.T_on_new_duct_mesh_is_h_weighted[{i}]', call['t_gap'][i] * hd,
                 _sum(F[i, j] * h_gap[j] * t_gap[j] for j in range(n_g)))
    S.eq('canary.change_keeps_pressure_drop', asm._pressure_drop, dp0, canary=True)


region_change.cname = 'Assembly.update_region'


def exchange(S, cfg):
    """Q_out on the duct mesh (with gap values mapped by the real gap->duct map, h-weighted) equals the heat credited
    on the gap mesh (with the duct surface mapped by the real duct->gap map)"""
    from dassh import mesh_functions
    from . import c10
    n, pad = cfg['n'], cfg.get('pad', 1)
    xb_reg, xb_core, r, c, P, m = c10._meshes(S, n, cfg.get('m', n), cfg.get('same', False), pad)
    F, G = mesh_functions._map_asm2gap(xb_reg, xb_core)
    fine = m + pad
    w = [r[i + 1] - r[i] for i in range(n - 1)] + [(P - r[-1]) + r[0]]
    u = [c[j + 1] - c[j] for j in range(m - 1)] + [(P - c[-1]) + c[0]]
    h = S.vec('h', fine, 'pos', 1e4, 1e5)
    T = S.vec('Tg', fine, 'pos', 600.0, 900.0)
    Ts = S.vec('Tsurf', n, 'pos', 600.0, 900.0)
    hd = mesh_functions.map_across_gap(h, F)
    Td_num = mesh_functions.map_across_gap(h * T, F)          # = h_d * T_d
    Ts_g = mesh_functions.map_across_gap(Ts, G)
    q_duct = _sum(w[i] * (hd[i] * Ts[i] - Td_num[i]) for i in range(n))
    q_gap = _sum(u[j] * h[j] * (Ts_g[j] - T[j]) for j in range(m))
    coincide_only_approx = (not cfg.get('same')) and n == m
    if coincide_only_approx:
        # equal cell counts: the real function may take the identity shortcut when the meshes coincide within the
        # numpy.allclose tolerance; the identity then holds to that tolerance only - stated for distinct cell counts
        S.note('exchange lemma stated for meshes with different cell counts or identical meshes')
        return
    S.eq('exchange.duct_side_equals_gap_side', q_duct, q_gap, block=S.names('Tg', fine) + S.names('Tsurf', n))
    for i in range(n):
        S.lt(f'exchange.h_on_duct_mesh_positive[{i}]', 0, hd[i])
    S.eq('canary.exchange_unweighted', _sum(w[i] * hd[i] * (Ts[i] - mesh_functions.map_across_gap(T, F)[i]) for i in range(n)),
         q_gap, block=S.names('Tg', fine) + S.names('Tsurf', n), canary=not cfg.get('same'))


exchange.cname = 'exchange lemma on _map_asm2gap'
exchange.run_kw = dict(max_paths=3000, budget_ms=6000, pool_size=8, check_div=False)


def gap_step(S, cfg):
    """Core.calculate_gap_temperatures on the topology of a really loaded core.  The geometric tables are replaced by
    atoms carrying exactly the facts C09 proves about them (modular use of Core.load's contract): assembly-side cell
    widths > 0, convection constants = those widths, conduction constants symmetric, cell flows > 0."""
    present, pattern = cfg['present'], cfg['types']
    sym = S.mode == 'sym'
    c, kinds, hs_, d_ = c09._native_core(present, pattern)
    n_sc = int(c.n_sc)
    shape = tuple(int(x) for x in c._asm_sc_adj.shape)
    adj = c._asm_sc_adj
    dt = object if sym else float
    awp = np.zeros(shape, dtype=dt)
    for a in range(shape[0]):
        for loc in range(shape[1]):
            awp[a, loc] = S.pos(f'awp[{a},{loc}]', 0.005, 0.03) if adj[a, loc] > 0 else 0
    c.gap_params['asm wp'] = awp
    const = np.zeros((n_sc, 3), dtype=dt)
    for i in range(n_sc):
        rows, cols = np.where(adj == i + 1)
        for t in range(len(rows)):
            const[i, t] = awp[rows[t], cols[t]]
    c._conv_util['const'] = const                      # C09: conv.constant_is_cell_width / no_duct_no_convection
    R = np.zeros((n_sc, 3), dtype=dt)
    for i in range(n_sc):
        for slot in range(3):
            j = c._sc_adj[i, slot] - 1
            if j < 0:
                continue
            back = [t for t in range(3) if c._sc_adj[j, t] - 1 == i][0]
            if (j, back) < (i, slot) and not isinstance(R[j, back], (int, float)):
                R[i, slot] = R[j, back]
            else:
                R[i, slot] = S.pos(f'Rcond[{i},{slot}]', 0.1, 2.0)
    for i in range(n_sc):
        for slot in range(3):
            j = c._sc_adj[i, slot] - 1
            if j >= 0:
                back = [t for t in range(3) if c._sc_adj[j, t] - 1 == i][0]
                R[j, back] = R[i, slot]
    c._Rcond = R                                        # C09: cond.constant_symmetric / no_neighbour_no_conduction
    m = S.vec('mflow', n_sc, 'pos', 0.01, 0.1)
    c._sc_mfr = m
    c._inv_sc_mfr = 1 / m
    c.gap_params['area frac'] = m / _sum(m)
    h = S.vec('hgap', n_sc, 'pos', 1e4, 1e5)
    c.coolant_gap_params['htc'] = h
    c.gap_coolant = make_material(S, 'gapcool', ['density', 'viscosity', 'heat_capacity', 'thermal_conductivity'])
    c._update_coolant_gap_params = lambda T: None       # constant properties within the step: film coefficients are atoms
    Tg = S.vec('Tgap', n_sc, 'pos', 600.0, 900.0)
    c.coolant_gap_temp = Tg.copy()
    t_duct = S.vec('Tduct', shape, 'pos', 600.0, 900.0)
    dz = S.pos('dz', 0.001, 0.02)
    c.ebal['asm'] = np.zeros(shape, dtype=dt)
    c.calculate_gap_temperatures(dz, t_duct)
    cp = c.gap_coolant.heat_capacity
    k = c.gap_coolant.thermal_conductivity
    credit_total = 0
    per_cell = [0] * n_sc
    block = S.names('Tgap', n_sc) + S.names('Tduct', shape)
    for a in range(shape[0]):
        for loc in range(shape[1]):
            sc = adj[a, loc]
            if sc > 0:
                want = h[sc - 1] * awp[a, loc] * dz * (t_duct[a, loc] - Tg[sc - 1])
                S.eq(f'gap.credit[{a},{loc}]', c.ebal['asm'][a, loc], want, block=block)
                credit_total = credit_total + want
                per_cell[sc - 1] = per_cell[sc - 1] + want
            else:
                S.eq(f'gap.no_credit_on_padding[{a},{loc}]', c.ebal['asm'][a, loc], 0, block=block)
    rise_total = 0
    for i in range(n_sc):
        cond = 0
        for slot in range(3):
            j = c._sc_adj[i, slot] - 1
            if j >= 0:
                cond = cond + k * dz * R[i, slot] * (Tg[j] - Tg[i])
        rise = m[i] * cp * (c.coolant_gap_temp[i] - Tg[i])
        S.eq(f'gap.cell_energy[{i}]', rise, per_cell[i] + cond, block=block)
        rise_total = rise_total + rise
    S.eq('gap.rise_equals_credits (conduction only moves heat)', rise_total, credit_total, block=block)
    S.eq('canary.gap_rise_zero', rise_total, 0 * dz, block=block, canary=True)


gap_step.cname = 'Core.calculate_gap_temperatures'
gap_step.run_kw = dict(max_paths=64, budget_ms=6000, check_div=False)


def configs(tier):
    full = (1,) * 7
    out = [(region_step, dict(n_ring=2)), (region_step, dict(n_ring=3)), (region_step, dict(n_ring=2, adiabatic=True)),
           (region_step, dict(n_ring=2, n_duct=2)), (region_step, dict(n_ring=2, n_duct=3)),
           (unrodded_step, dict(model='simple')), (unrodded_step, dict(model='simple', adiabatic=True)),
           (unrodded_step, dict(model='6node')), (unrodded_step, dict(model='6node', adiabatic=True)),
           (glue, dict()), (glue, dict(model=None)), (glue, dict(region_change=True)), (region_change, dict()), (region_change, dict(adiabatic=True)),
           (exchange, dict(n=2, same=True)), (exchange, dict(n=2, m=3)), (exchange, dict(n=3, m=2)),
           (exchange, dict(n=3, m=4, pad=2)),
           (gap_step, dict(present=(1,), types='c')), (gap_step, dict(present=(1, 1, 1), types='acU')),
           (gap_step, dict(present=(1, 1, 0, 1, 0, 0, 1), types='acab')), (gap_step, dict(present=full, types='abUcabU'))]
    if tier == 'thorough':
        out += [(region_step, dict(n_ring=4)), (region_step, dict(n_ring=3, n_duct=3)), (region_step, dict(n_ring=3, n_duct=2, adiabatic=True)),
                (exchange, dict(n=4, m=3)), (exchange, dict(n=3, m=5)), (glue, dict(n_duct_cells=3, n_gap_cells=5)),
                (gap_step, dict(present=full, types='ceUaceb')),
                (gap_step, dict(present=(1,) * 7 + (1, 0, 1, 1, 0, 0, 1, 1, 0, 1, 0, 1), types='aUcaUcaUcaUcaU'[:14]))]
    # the gap contract above takes the tables of Core.load as the callee's contract (areas, flows, the reciprocal of each
    # cell's own flow that the energy equation multiplies by): C09's contract on the real Core.load, shared
    from . import c09
    out.append((c09.layout, dict(present=(1, 1, 1), types='acU')))
    return out


# ---------------------------------------------------------------------------------------
# bounded: closure of the core balance on generated cores
_FX = dict(duct_mat='fuel_fixed')
RUNTIME = {
    'same_mesh': dict(asms={'a1': dict(**_FX)}, types='a1 a1 a1 a1 a1 a1 a1'),
    'mixed_rings': dict(asms={'a1': dict(**_FX), 'b': dict(n_ring=3, pitch=0.0024, dpin=0.0019, wire=0.0002, **_FX)},
                        types='a1 b a1 b a1 b a1'),
    'mixed_pitch': dict(asms={'a1': dict(**_FX), 'b': dict(pitch=0.00404, **_FX)}, types='a1 b b a1 b a1 a1'),
    'unrodded': dict(asms={'a1': dict(**_FX), 'b': dict(unrodded=[('lower', 0.0, 0.3, 'simple'), ('upper', 0.8, 1.0, 'simple')], **_FX)},
                     types='b a1 b a1 a1 b a1'),
    'double_duct': dict(asms={'a1': dict(n_duct=2, **_FX), 'b': dict(n_ring=3, pitch=0.0024, dpin=0.0019, wire=0.0002, n_duct=2, **_FX)},
                        types='a1 b a1 a1 b a1 b'),
    'holes_periphery': dict(asms={'a1': dict(**_FX), 'b': dict(n_ring=3, pitch=0.0024, dpin=0.0019, wire=0.0002, **_FX)},
                            types='a1 b - b a1 - a1'),
    'adiabatic': dict(asms={'a1': dict(**_FX), 'b': dict(n_ring=3, pitch=0.0024, dpin=0.0019, wire=0.0002, **_FX)},
                      types='a1 b a1 b a1 b a1', gap_model='none'),
    # six-node regions: the model advances the coolant before its wall (one-level lag): closure to first order only
    'sixnode_lag': dict(asms={'a1': dict(**_FX), 'b': dict(unrodded=[('lower', 0.0, 0.3, '6node')], **_FX)},
                        types='b a1 b a1 a1 b a1', lag=True),
}


def _runtime(name):
    import os
    import shutil
    import sys
    import tempfile
    sys.path.insert(0, os.environ.get('DASSH_REPO', '/repo'))
    from pvc import geninput as G
    wd = tempfile.mkdtemp(prefix='c02_')
    res = {}
    try:
        spec = RUNTIME[name]
        pos = []
        spots = [(1, 1)] + [(2, k) for k in range(1, 7)]
        for (ring, p), t in zip(spots, spec['types'].split()):
            if t != '-':
                pos.append((t, ring, p, 0.2 + 0.03 * p + (0.1 if ring == 1 else 0.0)))
        path = G.write_problem(wd, asms=spec['asms'], positions=pos, gap_model=spec.get('gap_model', 'flow'),
                               setup_extra='    axial_mesh_size = 0.005\n')
        inp, r = G.build(path, sweep=True)
        cp = 1275.0
        t_in = r.inlet_temp
        power = sum(sum(a._power_delivered.values()) for a in r.assemblies)
        rise_asm = [a.flow_rate * cp * (a.avg_coolant_temp - t_in) for a in r.assemblies]
        adiabatic = spec.get('gap_model') == 'none'
        rise_gap = 0.0 if adiabatic else float(np.sum(r.core._sc_mfr * cp * (r.core.coolant_gap_temp - t_in)))
        imb = (sum(rise_asm) + rise_gap - power) / power
        tol = 2e-3 if spec.get('lag') else 1e-10
        res['core_balance_closes'] = (abs(imb) < tol, f'relative imbalance {imb:.3e} (tolerance {tol:g})')
        if adiabatic:
            worst = max(abs(sum(a._power_delivered.values()) - x) / sum(a._power_delivered.values())
                        for a, x in zip(r.assemblies, rise_asm))
            res['adiabatic_no_heat_crosses'] = (worst < 1e-10, f'worst per-assembly |power - rise|/power = {worst:.3e}')
        elif not spec.get('lag'):
            worst = 0.0
            scale = max(abs(float(np.sum(r.core.ebal['asm'][i]))) for i in range(len(r.assemblies))) + 1e-30
            for i, a in enumerate(r.assemblies):
                out_asm = sum(a._power_delivered.values()) - rise_asm[i]
                out_gap = float(np.sum(r.core.ebal['asm'][i]))
                worst = max(worst, abs(out_asm - out_gap) / scale)
            res['assembly_side_equals_gap_side'] = (worst < 1e-9, f'worst |assembly side - gap credit| / largest = {worst:.3e}')
            e = (rise_gap - float(np.sum(r.core.ebal['asm']))) / (abs(rise_gap) + 1e-30)
            res['gap_rise_equals_credits'] = (abs(e) < 1e-10, f'relative {e:.3e}')
    except BaseException as e:
        res['runs'] = (False, f'{type(e).__name__}: {e}')
    finally:
        shutil.rmtree(wd, ignore_errors=True)
    return name, res


def extra_checks(tier, seed):
    import multiprocessing as mp
    import time
    t0 = time.time()
    with mp.get_context('fork').Pool(8) as pool:
        out = pool.map(_runtime, list(RUNTIME), chunksize=1)
    secs = time.time() - t0
    results = []
    for name, res in out:
        for k, (ok, d) in res.items():
            results.append(dict(name=f'runtime.{k}[{name}]', status='proved' if ok else 'refuted',
                                backend='bounded:run-time contract', seconds=secs / max(1, len(out)), detail=d,
                                sample=(name == 'mixed_rings'), witness=dict(values=dict(case=name)),
                                replay=dict(reproduced=not ok, point=dict(values=dict(case=name)), native=d)))
    return [dict(name='generated cores (run-time contracts)', results=results,
                 notes=['BOUNDED: runtime.* are run-time contracts on the generated 7-position cores ' + ', '.join(RUNTIME)])]


def replay(doc):
    w = (doc.get('witness') or {}).get('values') or {}
    names = [w['case']] if w.get('case') in RUNTIME else list(RUNTIME)
    bad = 0
    for nm in names:
        _, res = _runtime(nm)
        for k, (ok, d) in res.items():
            if not ok:
                bad += 1
                print(f'replay: {nm}: {k}: {d}')
    print('REPRODUCED' if bad else 'not reproduced')
    return 1 if bad else 0
