"""C03 - the power deposited over the sweep equals the power assigned.

Functions under contract (dassh.power / dassh.reactor / dassh.assembly):
  _integrate                          average linear power of a cell = integral of its polynomials
  AssemblyPower.presweep_setup + get_power_sweep (+ _calculate_pdist)
                                      sum over the axial steps of (step length x linear power returned
                                      for the step) = sum over the power cells of (cell length x average
                                      linear power), for ANY partition of the cells into steps and for
                                      pin-bundle bounds aligned or not aligned with the power cells
  Reactor._setup_scale_asm_power      every assembly total, its profiles and its average profile are scaled
                                      by the same factor; totals sum to requested power x scaling factor
  AssemblyPower.__init__ (scale)      scale multiplies every profile
Step sizes, cell sizes, polynomial coefficients are real atoms; the number of cells, steps
per cell, items and polynomial terms are enumerated (the code has no other size dependence).
Bounded: run-time contracts on generated problems (Assembly._power_delivered against an
independent integration of the CSV, several step sizes, unaligned bundle bounds, scaling).
"""
from __future__ import annotations
import math
import numpy as np
from fractions import Fraction
from . import common
from .common import patched
from pvc import core
from pvc.core import Sym

MODULES = ['dassh.power', 'dassh.reactor', 'dassh.assembly']
PROPERTY = 'C03'
LEAN_LEMMAS = ['sweep_balance']        # /verif/lean/Ghost.lean, checked in the thorough tier
FUNCTIONS = ['dassh.power:_integrate', 'dassh.power:AssemblyPower.presweep_setup', 'dassh.power:AssemblyPower.get_power_sweep',
             'dassh.power:AssemblyPower._calculate_pdist', 'dassh.power:AssemblyPower.__init__',
             'dassh.reactor:Reactor._setup_scale_asm_power', 'dassh.reactor:Reactor._setup_asm_power (user power)', 'dassh.assembly:Assembly.calculate (power tally)', 'dassh.assembly:Assembly._identify_active_region']
ASSUMPTIONS = ['axial mesh planes lie on every power-cell boundary and on the pin-bundle bounds (post-condition of the '
               'axial mesh, C05): the steps partition each power cell',
               'power-cell boundaries are on the 1e-10 cm rounding grid of AssemblyPower.__init__ and step midpoints on '
               'the 1e-12 grid of presweep_setup (np.around is the identity there)',
               'linear power is positive on the cells (input check _check_for_negative_power; the sweep clips negative '
               'values to zero): the coefficient atoms are positive Bernstein ordinates - an open set of coefficient '
               'space, on which the proved rational identities extend to all coefficients for which no clipping occurs']
NOT_DECIDED = ['binary-flux (VARPOW) power: Power.calc_power_profile and the external VARPOW executable',
               'parsing of the CSV (_from_file, string/array reshaping) - covered by the bounded run-time contracts only']
BOUNDED = ['runtime.* : generated single-assembly problems x step sizes x bundle bounds (aligned / unaligned) x '
           'normalisation on/off x scaling factors']


def _obj(shape, fill):
    a = np.empty(shape, dtype=object)
    for idx in np.ndindex(*shape):
        a[idx] = fill(idx)
    return a


def _I(j):
    """integral of zeta^j over [-1/2, 1/2]"""
    return (Fraction(1, 2) ** (j + 1) - Fraction(-1, 2) ** (j + 1)) / (j + 1)


def _bernstein(n_terms):
    """monomial coefficients (Fractions) of the Bernstein basis of degree n_terms-1 on [-1/2, 1/2]:
    B_i(z) = C(d,i) (1/2 - z)^(d-i) (1/2 + z)^i ; returns rows[i][j] = coefficient of z^j in B_i"""
    d = n_terms - 1

    def mul(p, q):
        r = [Fraction(0)] * (len(p) + len(q) - 1)
        for a, x in enumerate(p):
            for b, y in enumerate(q):
                r[a + b] += x * y
        return r
    rows = []
    for i in range(d + 1):
        poly = [Fraction(math.comb(d, i))]
        for _ in range(d - i):
            poly = mul(poly, [Fraction(1, 2), Fraction(-1)])
        for _ in range(i):
            poly = mul(poly, [Fraction(1, 2), Fraction(1)])
        rows.append(poly + [Fraction(0)] * (n_terms - len(poly)))
    return rows


def _profiles(S, n_reg, items, n_terms, which=('pins', 'duct', 'cool'), positive=False):
    """coefficient arrays (n_reg x items x n_terms).  positive=True: the coefficients are built from POSITIVE
    Bernstein ordinates, so that the linear power is visibly positive on the whole cell (an open set of
    coefficient space: the proved rational identities then hold wherever both sides are defined)."""
    sym = S.mode == 'sym'
    out = {}
    B = _bernstein(n_terms)
    for c in which:
        n = items[c]
        arr = np.empty((n_reg, n, n_terms), dtype=object if sym else float)
        for k in range(n_reg):
            for i in range(n):
                if positive:
                    ords = [S.pos(f'{c}_b{[k, i, t]}', 1.0, 5.0) for t in range(n_terms)]
                    for j in range(n_terms):
                        arr[k, i, j] = sum(ords[t] * (Sym(core.C(B[t][j])) if sym else float(B[t][j]))
                                           for t in range(n_terms))
                else:
                    for j in range(n_terms):
                        arr[k, i, j] = S.real(f'{c}{[k, i, j]}', -1.0, 1.0) if j else S.pos(f'{c}{[k, i, j]}', 2.0, 5.0)
        out[c] = arr
    return out


def integrate(S, cfg):
    from dassh import power
    n_reg, n_terms = cfg['n_reg'], cfg['n_terms']
    which = cfg.get('which', ('pins', 'duct', 'cool'))
    items = {'pins': 2, 'duct': 1, 'cool': 2}
    pp = _profiles(S, n_reg, items, n_terms, which)
    avg = power._integrate(pp.get('pins'), pp.get('duct'), pp.get('cool'), n_terms)
    for k in range(n_reg):
        want = 0
        for c in which:
            for i in range(items[c]):
                for j in range(n_terms):
                    w = _I(j)
                    want = want + pp[c][k, i, j] * (float(w) if S.mode != 'sym' else Sym(core.C(w)))
        S.eq(f'integrate.cell_average[{k}]', avg[k], want)
    S.eq('canary.integrate_ignores_quadratic', avg[0], sum(pp[c][0, i, 0] for c in which for i in range(items[c])),
         canary=(n_terms >= 3))


integrate.cname = 'power._integrate'


def _assembly_power(S, cells, n_terms, bundle, which, avg_from='integrate'):
    """real AssemblyPower.__init__ on symbolic cell sizes and coefficients.
    cells: steps per power cell; returns (ap, dz steps [cm], profiles, cell bounds)"""
    from dassh import power
    sym = S.mode == 'sym'
    steps = []
    zfm = [0]
    for k, ns in enumerate(cells):
        length = 0
        for s_ in range(ns):
            d = S.pos(f'dz[{k},{s_}]', 1.0, 4.0)          # cm
            steps.append((k, d))
            length = length + d
        zfm.append(zfm[-1] + length)
    S.assume(zfm[-1] < 99999, 'core shorter than the 99999 cm sentinel AssemblyPower uses for "bundle reaches the top"')
    items = {'pins': 2, 'duct': 1, 'cool': 1}
    pp = _profiles(S, len(cells), items, n_terms, which, positive=True)
    avg = power._integrate(pp.get('pins'), pp.get('duct'), pp.get('cool'), n_terms)
    prof = {c: (pp[c].copy() if c in pp else None) for c in ('pins', 'duct', 'cool')}
    # pin-bundle bounds: index of the plane (in the list of all planes) where the bundle starts / ends
    planes = [0]
    for k, d in steps:
        planes.append(planes[-1] + d)
    lo, hi = bundle
    rod = [planes[lo], planes[hi]]
    with patched((power.np, 'around', lambda x, n=0: x)) if sym else patched():
        ap = power.AssemblyPower({c: prof[c] for c in prof if prof[c] is not None}, avg,
                                 np.array(zfm, dtype=object if sym else float), list(rod))
    return ap, steps, pp, zfm, planes, avg


def sweep_total(S, cfg):
    """presweep_setup followed by one get_power_sweep() per step, as Reactor / Assembly.calculate do"""
    from dassh import power
    sym = S.mode == 'sym'
    cells, n_terms, bundle = cfg['cells'], cfg['n_terms'], cfg['bundle']
    which = cfg.get('which', ('pins', 'duct', 'cool'))
    ap, steps, pp, zfm, planes, avg = _assembly_power(S, cells, n_terms, bundle, which)
    n = len(steps)
    dz_m = np.array([d / 100 for k, d in steps], dtype=object if sym else float)
    z_mid = np.array([(planes[i] + planes[i + 1]) / 2 / 100 for i in range(n)], dtype=object if sym else float)
    if sym:
        from pvc import arrays
        z_mid = arrays.mask_array(list(z_mid))      # comparisons of the array with a bound give boolean masks
    with patched((power.np, 'around', lambda x, n=0: x)) if sym else patched():
        ap.presweep_setup(z_mid, dz_m)
        delivered = 0
        comps = {'pins': 0, 'duct': 0, 'cool': 0, 'refl': 0}
        for i in range(n):
            p = ap.get_power_sweep()
            for key, v in p.items():
                if v is not None:
                    comps[key] = comps[key] + dz_m[i] * np.sum(v)      # the tally of Assembly.calculate
                    delivered = delivered + dz_m[i] * np.sum(v)
    assigned = sum((zfm[k + 1] - zfm[k]) * avg[k] for k in range(len(cells)))
    S.eq('sweep.delivered_equals_assigned', delivered, assigned)
    # per power cell as well (no compensation between cells)
    S.holds('sweep.step_counter', ap._step == n)
    S.lt('canary.sweep_delivers_nothing', delivered, 0 * delivered, canary=True)


sweep_total.cname = 'AssemblyPower.presweep_setup+get_power_sweep'
sweep_total.run_kw = dict(max_paths=200, budget_ms=8000, check_div=False)


def scale_core(S, cfg):
    from dassh import reactor
    sym = S.mode == 'sym'
    n_asm, user, empty = cfg['n_asm'], cfg.get('user_total', True), cfg.get('empty', False)
    pscalar = S.pos('power_scaling_factor', 0.2, 3.0) if cfg.get('scaled', True) else 1.0
    ptot = S.pos('total_power', 1e3, 1e4) if user else None
    plist, orig = [], []
    pcalc = 0
    for i in range(n_asm):
        if empty and i == 1:
            plist.append([])
            orig.append(None)
            continue
        prof = {'pins': S.vec(f'pins{i}', (1, 2, 2), 'real', 1.0, 3.0), 'cool': S.vec(f'cool{i}', (1, 1, 2), 'real', 0.1, 0.3)}
        if i % 2 == 0:
            prof['duct'] = S.vec(f'duct{i}', (1, 1, 2), 'real', 0.1, 0.3)
        avg = S.vec(f'avg{i}', 1, 'pos', 1.0, 5.0)
        tot = S.pos(f'tot{i}', 10.0, 50.0)
        orig.append(({k: v.copy() for k, v in prof.items()}, avg.copy(), tot))
        plist.append([prof, avg, tot, None])
        pcalc = pcalc + tot
    out, total = reactor.Reactor._setup_scale_asm_power(plist, pcalc, ptot, pscalar)
    factor = (ptot / pcalc if user else 1) * pscalar
    S.eq('scale.core_total', total, (ptot if user else pcalc) * pscalar)
    acc = 0
    for i in range(n_asm):
        if orig[i] is None:
            S.holds(f'scale.empty_position_untouched[{i}]', out[i] == [])
            continue
        S.eq(f'scale.asm_total[{i}]', out[i][2], orig[i][2] * factor)
        S.eq(f'scale.avg_profile[{i}]', out[i][1], orig[i][1] * factor)
        for k in orig[i][0]:
            S.eq(f'scale.profile[{i},{k}]', out[i][0][k], orig[i][0][k] * factor)
        acc = acc + out[i][2]
    S.eq('scale.totals_sum_to_core_total', acc, total)
    S.eq('canary.scale_identity', out[0][2], orig[0][2], canary=True)


scale_core.cname = 'Reactor._setup_scale_asm_power'


def init_scale(S, cfg):
    from dassh import power
    sym = S.mode == 'sym'
    sc = S.pos('scale', 0.5, 2.0)
    pp = _profiles(S, 2, {'pins': 2, 'duct': 1, 'cool': 1}, 2)
    keep = {k: v.copy() for k, v in pp.items()}
    avg = S.vec('avg', 2, 'pos', 1.0, 5.0)
    avg0 = avg.copy()
    zfm = np.array([0, 10, 25], dtype=object if sym else float)
    ap = power.AssemblyPower(pp, avg, zfm, [0.0, 25.0], scale=sc)
    S.eq('init.pins_scaled', ap.pin_power, keep['pins'] * sc)
    S.eq('init.duct_scaled', ap.duct_power, keep['duct'] * sc)
    S.eq('init.cool_scaled', ap.coolant_power, keep['cool'] * sc)
    S.eq('init.avg_scaled', ap.avg_power, avg0 * sc)
    S.holds('init.bundle_spans_core', bool(ap.rod_zbnds[0] < 0) and bool(ap.rod_zbnds[1] > 25))
    S.eq('canary.init_unscaled', ap.avg_power[0], avg0[0], canary=True)


init_scale.cname = 'AssemblyPower.__init__'


class _Inp:
    def __init__(self, data):
        self.data = data


def asm_power_total(S, cfg):
    """Reactor._setup_asm_power, user-power branch: the total assigned to an assembly is the integral of its
    cell-average linear power over power cells of UNEQUAL widths; Reactor.total_power is their sum (x scaling)"""
    from dassh import reactor
    sym = S.mode == 'sym'
    n_cells, empty = cfg['n_cells'], cfg.get('empty', False)
    pscalar = S.pos('power_scaling_factor', 0.2, 3.0)
    ptot = S.pos('total_power', 1e3, 1e4) if cfg.get('user_total', False) else None
    r = reactor.Reactor.__new__(reactor.Reactor)
    user, by_pos, want, meshes, avgs = [], [], [], [], []
    for i, nc in enumerate(n_cells):
        if empty and i == 1:
            by_pos.append([])
            want.append(None)
            meshes.append(None)
            avgs.append(None)
            continue
        z, zs = 0, [0]
        for c in range(nc):
            z = z + S.pos(f'w{i}_{c}', 0.05, 0.6)
            zs.append(z)
        zfm = np.array(zs, dtype=object if sym else float)
        avg = S.vec(f'avg{i}', nc, 'pos', 1.0, 5.0)
        prof = {'pins': S.vec(f'pins{i}', (nc, 2, 2), 'real', 1.0, 3.0), 'cool': S.vec(f'cool{i}', (nc, 1, 2), 'real', 0.1, 0.3),
                'avg_power': avg, 'zfm': zfm}
        user.append((i + 1, prof))
        by_pos.append([f'type{i}', (0, 0, i), {}])
        tot = 0
        for c in range(nc):
            tot = tot + (zs[c + 1] - zs[c]) * avg[c]
        want.append(tot)
        meshes.append(zfm)
        avgs.append(avg.copy())
    r.power = {'user': user[::-1] if cfg.get('reversed', False) else user}
    inp = _Inp({'Assignment': {'ByPosition': by_pos}, 'Power': {'total_power': ptot, 'power_scaling_factor': pscalar}})
    out = r._setup_asm_power(inp)
    core = 0
    for w in want:
        if w is not None:
            core = core + w
    factor = (ptot / core if ptot is not None else 1) * pscalar
    S.holds('asm_power.one_entry_per_position', len(out) == len(n_cells))
    acc = 0
    for i in range(len(n_cells)):
        if want[i] is None:
            S.holds(f'asm_power.empty_position[{i}]', out[i] == [])
            continue
        S.eq(f'asm_power.total_is_integral_of_cell_averages[{i}]', out[i][2], want[i] * factor)
        S.eq(f'asm_power.avg_profile[{i}]', out[i][1], avgs[i] * factor)
        S.holds(f'asm_power.mesh_is_its_own[{i}]', out[i][3] is meshes[i])
        acc = acc + out[i][2]
    S.eq('asm_power.core_total_is_sum', r.total_power, acc)
    S.eq('asm_power.core_total', r.total_power, (ptot if ptot is not None else core) * pscalar)
    S.eq('canary.asm_power_mean_times_length', out[0][2],
         sum(avgs[0][c] for c in range(n_cells[0])) / n_cells[0] * (meshes[0][-1] - meshes[0][0]) * factor, canary=True)


asm_power_total.cname = 'Reactor._setup_asm_power'


class _RegionRec:
    def __init__(self):
        self.calls = []
        self.dp_calls = []

    def calculate(self, dz, q, t_gap, h_gap, adiabatic, ebal):
        self.calls.append(dict(dz=dz, q=q, t_gap=t_gap, h_gap=h_gap, adiabatic=adiabatic, ebal=ebal))

    def calculate_pressure_drop(self, z, dz):
        self.dp_calls.append((z, dz))


class _PowerRec:
    def __init__(self, table):
        self.table = table
        self.asked = []

    def get_power_sweep(self, step=None, z=None):
        self.asked.append(z)
        return self.table


def assembly_tally(S, cfg):
    """Assembly.calculate: the power the assembly books as delivered in a step is step x the sum of what the power
    object returns for that step, per component; exactly that dictionary is what the active region is given"""
    from dassh import assembly as A
    sym = S.mode == 'sym'
    asm = A.Assembly.__new__(A.Assembly)
    reg = _RegionRec()
    asm.region = [reg]
    asm._active_region_idx = 0
    z0 = S.nonneg('z0', 0.0, 1.0)
    asm._z = z0
    comps = cfg['components']
    table = {'pins': None, 'cool': None, 'duct': None, 'refl': None}
    for c in comps:
        table[c] = S.vec(f'q_{c}', {'pins': 3, 'cool': 4, 'duct': 2, 'refl': 1}[c], 'real', 0.0, 100.0)
        if c == 'refl':
            table[c] = table[c][0]
    asm.power = _PowerRec(table)
    old = {k: S.nonneg(f'delivered0_{k}', 0.0, 50.0) for k in table}
    asm._power_delivered = dict(old)
    dz = S.pos('dz', 0.001, 0.02)
    t_gap = S.vec('Tgap', 2, 'pos', 600.0, 900.0)
    h_gap = S.vec('hgap', 2, 'pos', 1e4, 1e5)
    explicit = cfg.get('explicit_z', False)
    z = z0 + dz
    with patched((A.Assembly, '_update_peak_coolant_temps', lambda self: None),
                 (A.Assembly, '_update_peak_duct_temps', lambda self: None)):
        if explicit:
            asm.calculate(dz, t_gap, h_gap, z=z, adiabatic=False, ebal=True)
        else:
            asm.calculate(dz, t_gap, h_gap, adiabatic=False, ebal=True)
    for k in table:
        inc = 0
        if table[k] is not None:
            inc = dz * (sum(table[k]) if k != 'refl' else table[k])
        S.eq(f'tally.delivered[{k}]', asm._power_delivered[k], old[k] + inc)
    S.holds('tally.region_called_once', len(reg.calls) == 1)
    S.holds('tally.region_gets_the_same_power', reg.calls[0]['q'] is table)
    S.eq('tally.region_step', reg.calls[0]['dz'], dz)
    S.eq('tally.region_gap_temperature', reg.calls[0]['t_gap'], t_gap)
    S.eq('tally.region_gap_htc', reg.calls[0]['h_gap'], h_gap)
    S.eq('tally.height_advanced', asm._z, z0 + dz)
    if explicit:
        S.eq('tally.power_asked_at_midpoint', asm.power.asked[0], z - dz / 2)
    S.eq('canary.tally_counts_twice', asm._power_delivered[comps[0]], old[comps[0]], canary=True)


assembly_tally.cname = 'Assembly.calculate'


def region_matches_power(S, cfg):
    """for every axial step that does not straddle a region bound (C05), the region Assembly activates for the step
    (bisection on the upper plane) is the pin bundle exactly when AssemblyPower serves bundle power for the step
    (test on the midpoint): pins / coolant / duct power never reaches an unrodded region and vice versa"""
    from dassh import assembly as A
    from dassh import power
    sym = S.mode == 'sym'
    where = cfg['bundle']          # 'middle' | 'bottom' | 'top' | 'whole'
    L = S.pos('core_length', 1.0, 3.0)
    S.assume(L * 100 < 99999, 'core shorter than the 99999 cm sentinel of AssemblyPower')
    f1 = S.pos('f1', 0.1, 0.4)
    f2 = S.pos('f2', 0.1, 0.4)
    # regions are not microscopic: AssemblyPower snaps a bundle top within 1e-12 cm of the core top to "the top"
    S.assume(L >= 0.1, 'core at least 0.1 m long')
    for f in (f1, f2):
        S.assume(f >= 0.001, 'axial regions of comparable size')
        S.assume(f <= 1000, 'axial regions of comparable size')
    b1, b2 = L * f1 / (1 + f1 + f2), L * (1 + f1) / (1 + f1 + f2)      # 0 < b1 < b2 < L
    if where == 'middle':
        bnd, rod, rodded_idx = [0, b1, b2], (b1, b2), 1
    elif where == 'bottom':
        bnd, rod, rodded_idx = [0, b2], (0, b2), 0
    elif where == 'top':
        bnd, rod, rodded_idx = [0, b1], (b1, L), 1
    else:
        bnd, rod, rodded_idx = [0], (0, L), 0
    asm = A.Assembly.__new__(A.Assembly)
    asm.region_bnd = list(bnd)
    # one power cell over the whole core, constant profiles
    one = np.ones((1, 1, 1), dtype=object if sym else float)
    avg = np.ones(1, dtype=object if sym else float)
    with patched((power.np, 'around', lambda x, n=0: x)) if sym else patched():
        ap = power.AssemblyPower({'pins': one.copy()}, avg, np.array([0, L * 100], dtype=object if sym else float),
                                 [rod[0] * 100, rod[1] * 100])
    # axial planes lie on the 1e-12 m raster (C05), a step is at least one raster unit; region bounds are arbitrary reals
    from .c14 import _units
    Ka = S.int('K_a', 0, 10 ** 12)
    N = S.int('N_step', 10 ** 9, 10 ** 11)
    S.assume(Ka >= 0, 'planes start at the core inlet')
    S.assume(N >= 1, 'a step is at least one raster unit')
    z_a, z_b = _units(S, Ka), _units(S, Ka + N)                           # 0 <= z_a < z_b
    if cfg.get('last_step'):
        S.assume(z_b >= L, 'last step: ends on the core length')
        S.assume(z_b <= L, 'last step: ends on the core length')
    else:
        S.assume(z_b < L, 'not the last step')
    for b in list(bnd[1:]) + [rod[0], rod[1]]:
        if sym:
            S.assume((b <= z_a) | (b >= z_b), 'no region bound strictly inside the step (C05)')
        else:
            S.assume(bool(b <= z_a or b >= z_b), 'no region bound strictly inside the step (C05)')
    idx = asm._identify_active_region(z_b)
    with patched((power.np, 'around', lambda x, n=0: x)) if sym else patched():
        p = ap.get_power_sweep(z=(z_a + z_b) / 2)
    bundle_power = p['refl'] is None
    S.holds('step.region_is_bundle_iff_power_is_bundle', (idx == rodded_idx) == bundle_power)
    S.holds('step.region_index_valid', 0 <= idx < len(bnd))
    S.holds('canary.step_always_bundle', bundle_power, canary=(where != 'whole' and not cfg.get('last_step')))


region_matches_power.cname = 'Assembly._identify_active_region/AssemblyPower.get_power_sweep'
region_matches_power.run_kw = dict(max_paths=200, check_div=False)


def configs(tier):
    out = [(integrate, dict(n_reg=2, n_terms=1)), (integrate, dict(n_reg=2, n_terms=3)),
           (integrate, dict(n_reg=1, n_terms=4, which=('pins', 'cool'))),
           (integrate, dict(n_reg=1, n_terms=2, which=('duct',))),
           # bundle aligned with the power cells (planes 0 .. n): whole core, interior cells, none
           (sweep_total, dict(cells=[2, 2], n_terms=2, bundle=(0, 4))),
           (sweep_total, dict(cells=[1, 2, 1], n_terms=2, bundle=(1, 3))),
           (sweep_total, dict(cells=[2, 1], n_terms=3, bundle=(0, 2), which=('pins', 'cool'))),
           # bundle bounds inside a power cell
           (sweep_total, dict(cells=[2, 2], n_terms=2, bundle=(1, 4))),
           (sweep_total, dict(cells=[3], n_terms=2, bundle=(1, 2))),
           (sweep_total, dict(cells=[2, 2], n_terms=1, bundle=(1, 3))),
           (scale_core, dict(n_asm=2)), (scale_core, dict(n_asm=3, user_total=False)),
           (scale_core, dict(n_asm=3, empty=True)), (scale_core, dict(n_asm=2, scaled=False)),
           (init_scale, dict()),
           (asm_power_total, dict(n_cells=[2, 3])), (asm_power_total, dict(n_cells=[3, 1, 2], empty=True, reversed=True)),
           (asm_power_total, dict(n_cells=[2, 2], user_total=True)),
           (assembly_tally, dict(components=('pins', 'cool', 'duct'))), (assembly_tally, dict(components=('refl',))),
           (assembly_tally, dict(components=('pins',), explicit_z=True)),
           (region_matches_power, dict(bundle='middle')), (region_matches_power, dict(bundle='bottom')),
           (region_matches_power, dict(bundle='top')), (region_matches_power, dict(bundle='top', last_step=True)),
           (region_matches_power, dict(bundle='whole'))]
    # the sweep identity needs a plane on every power-cell and bundle bound: the mesh loop never skips a boundary,
    # also when two of them lie within one step (the contracts C05 proves on the real Reactor._setup_zpts / _check_dz)
    from . import c05
    out += [(c05.loop_body, dict(n_bounds=3, req='grid')), (c05.loop_prefix, dict())]
    if tier == 'thorough':
        out += [(integrate, dict(n_reg=3, n_terms=4)),
                (sweep_total, dict(cells=[2, 2, 1], n_terms=2, bundle=(1, 4))),
                (sweep_total, dict(cells=[1, 1, 1, 1], n_terms=2, bundle=(1, 3), which=('pins', 'duct'))),
                (sweep_total, dict(cells=[2, 2], n_terms=3, bundle=(1, 3))),
                (scale_core, dict(n_asm=4, empty=True, user_total=False))]
    return out


# ---------------------------------------------------------------------------------------
# bounded: run-time contracts on generated problems
def _csv_total(path):
    """independent integration of the user power CSV: sum over rows of the analytic integral of
    c0 + c1 zeta + c2 zeta^2 + ... over the cell (zeta in [-1/2, 1/2]) times the cell length; per assembly id"""
    tot = {}
    for line in open(path):
        f = [float(x) for x in line.strip().split(',')]
        a, lo, hi, coef = int(f[0]), f[2], f[3], f[5:]
        tot[a] = tot.get(a, 0.0) + (hi - lo) * sum(c * float(_I(j)) for j, c in enumerate(coef))
    return tot


RUNTIME = {
    'aligned': dict(asms={'a1': dict(unrodded=[('lower', 0.0, 0.5, 'simple')])}, n_cells=2),
    'unaligned': dict(asms={'a1': dict(unrodded=[('lower', 0.0, 0.3, 'simple'), ('upper', 0.8, 1.0, '6node')],
                                       duct_mat='fuel_fixed')}, n_cells=2),
    'unaligned_3cells': dict(asms={'a1': dict(unrodded=[('lower', 0.0, 0.21, 'simple'), ('upper', 0.77, 1.0, 'simple')])}, n_cells=3),
    'bundle_only': dict(asms={'a1': dict()}, n_cells=5),
    'fine_mesh': dict(asms={'a1': dict(unrodded=[('lower', 0.0, 0.3, 'simple')])}, n_cells=2,
                      setup_extra='    axial_mesh_size = 0.0007\n'),
    'coarse_planes': dict(asms={'a1': dict(unrodded=[('upper', 0.66, 1.0, 'simple')])}, n_cells=4,
                          setup_extra='    axial_plane = 0.123, 0.456\n'),
    'normalised': dict(asms={'a1': dict(unrodded=[('lower', 0.0, 0.3, 'simple')], duct_mat='fuel_fixed')}, n_cells=2,
                       total_power=54321.0),
    'normalised_scaled': dict(asms={'a1': dict(unrodded=[('lower', 0.0, 0.3, 'simple')]), 'b': dict(n_ring=3, pitch=0.0024,
                              dpin=0.0019, wire=0.0002)},
                              positions=[('a1', 1, 1, 0.3), ('b', 2, 1, 0.4), ('a1', 2, 4, 0.2)], n_cells=2,
                              total_power=54321.0, scaling=0.37),
    'missing_components': dict(asms={'a1': dict(unrodded=[('lower', 0.0, 0.3, 'simple')])}, n_cells=2, components=('pins',)),
    'double_duct': dict(asms={'a1': dict(n_duct=2, unrodded=[('upper', 0.7, 1.0, 'simple')])}, n_cells=3),
    # assemblies with DIFFERENT axial power meshes, bounds inside the unrodded regions
    'different_power_meshes': dict(asms={'a1': dict(unrodded=[('lower', 0.0, 0.3, 'simple'), ('upper', 0.7, 1.0, 'simple')])},
                                   positions=[('a1', 1, 1, 0.3), ('a1', 2, 1, 0.3), ('a1', 2, 2, 0.25)], n_cells=[2, 7, 5]),
}


def _runtime(name):
    import os
    import shutil
    import sys
    import tempfile
    sys.path.insert(0, os.environ.get('DASSH_REPO', '/repo'))
    from pvc import geninput as G
    wd = tempfile.mkdtemp(prefix='c03_')
    res = {}
    try:
        kw = dict(RUNTIME[name])
        kw.setdefault('gap_model', 'none')
        p = G.write_problem(wd, **kw)
        inp, r = G.build(p, sweep=True)
        csv = _csv_total(os.path.join(wd, 'power_0.csv'))
        raw_total = sum(csv.values())
        factor = (kw['total_power'] / raw_total if kw.get('total_power') else 1.0) * kw.get('scaling', 1.0)
        bad = []
        for a in r.assemblies:
            want = csv[a.id + 1] * factor
            dl = sum(v for v in a._power_delivered.values())
            if abs(a.total_power - want) > 1e-9 * want:
                bad.append(f'assembly {a.id}: total_power {a.total_power!r} but the CSV integrates to {want!r}')
            if abs(dl - want) > 1e-9 * want:
                bad.append(f'assembly {a.id}: delivered {dl!r} W of {want!r} W assigned (rel {dl / want - 1:.2e})')
        res['delivered_equals_assigned'] = (not bad, '; '.join(bad[:4]))
        want_core = (kw['total_power'] if kw.get('total_power') else raw_total) * kw.get('scaling', 1.0)
        ok = abs(r.total_power - want_core) <= 1e-9 * want_core and \
            abs(sum(a.total_power for a in r.assemblies) - want_core) <= 1e-9 * want_core
        res['core_total'] = (ok, '' if ok else f'core total {r.total_power!r}, sum of assemblies '
                             f'{sum(a.total_power for a in r.assemblies)!r}, requested {want_core!r}')
        # constant properties (fixed sodium, constant-conductivity duct): scaling the power by s scales every rise by s
        if name in ('unaligned', 'normalised'):
            s = 0.5
            kw2 = dict(kw, scaling=kw.get('scaling', 1.0) * s)
            p2 = G.write_problem(os.path.join(wd, 's'), **kw2)
            _, r2 = G.build(p2, sweep=True)
            t_in = r.inlet_temp
            worst = 0.0
            for a, b in zip(r.assemblies, r2.assemblies):
                for x, y in ((a.temp_coolant, b.temp_coolant), (a.temp_duct_mw, b.temp_duct_mw)):
                    d = np.abs((y - t_in) - s * (x - t_in)) / np.maximum(np.abs(x - t_in), 1e-9)
                    worst = max(worst, float(np.max(d)))
            res['temperature_rise_linear_in_power'] = (worst < 1e-9, f'worst relative deviation {worst:.2e}')
    except BaseException as e:
        res['runs'] = (False, f'{type(e).__name__}: {e}')
    finally:
        shutil.rmtree(wd, ignore_errors=True)
    return name, res


def extra_checks(tier, seed):
    import multiprocessing as mp
    import time
    t0 = time.time()
    with mp.get_context('fork').Pool(10) as pool:
        out = pool.map(_runtime, list(RUNTIME), chunksize=1)
    secs = time.time() - t0
    results = []
    for name, res in out:
        for k, (ok, d) in res.items():
            results.append(dict(name=f'runtime.{k}[{name}]', status='proved' if ok else 'refuted',
                                backend='bounded:run-time contract', seconds=secs / max(1, len(out)), detail=d,
                                sample=(name == 'unaligned'), witness=dict(values=dict(case=name)),
                                replay=dict(reproduced=not ok, point=dict(values=dict(case=name)), native=d)))
    return [dict(name='generated problems (run-time contracts)', results=results,
                 notes=['BOUNDED: runtime.* are run-time contracts on the generated problems ' + ', '.join(RUNTIME)])]


def replay(doc):
    w = (doc.get('witness') or {}).get('values') or {}
    names = [w['case']] if w.get('case') in RUNTIME else list(RUNTIME)
    bad = 0
    for nm in names:
        _, res = _runtime(nm)
        for k, (ok, d) in res.items():
            if not ok:
                bad += 1
                print(f'replay: {nm}: {k}: {d}')
    print('REPRODUCED' if bad else 'not reproduced')
    return 1 if bad else 0
