"""C04 - the selected axial step keeps the explicit march positive.

For every update kernel the new temperature of a cell is written as an affine
combination of the previous-level temperatures it is coupled to (coolant cells,
wall surface / mid-wall temperatures) plus the heating term; proved:
  op.rowsum     the weights sum to one
  op.offdiag    every off-diagonal weight is >= 0
  op.heating    the weight of every power entry is >= 0
  op.diag       the self-weight is 1 - dz * S with S == 1 / (the limit the REAL
                step-limit function computes for the cell's neighbour class)
  limit.is_min  the value the step-limit function returns is <= every class limit
hence  dz <= returned limit  =>  self-weight >= 0  (lemma `diag_nonneg`, z3).
"""
from __future__ import annotations
import builtins
import numpy as np
from . import common
from .common import make_rodded, set_int_params, set_temps, make_unrodded, patched
from pvc import core, normal
from pvc.core import Sym

MODULES = common.RR_MODULES + common.UR_MODULES + ['dassh.core', 'dassh.assembly', 'dassh.reactor']
PROPERTY = 'C04'
LEAN_LEMMAS = ['convex_lower', 'convex_upper', 'diag_nonneg']        # /verif/lean/Ghost.lean, checked in the thorough tier
FUNCTIONS = [
    'dassh.region_rodded:_calculate_int_dz', 'dassh.region_rodded:_calculate_byp_dz',
    'dassh.region_rodded:_cons1_111', 'dassh.region_rodded:_cons1_112', 'dassh.region_rodded:_cons2_122',
    'dassh.region_rodded:_cons2_123', 'dassh.region_rodded:_cons2_133', 'dassh.region_rodded:_cons3_22',
    'dassh.region_rodded:_cons6_66', 'dassh.region_rodded:_cons6_67', 'dassh.region_rodded:_cons6_77',
    'dassh.region_rodded:_cons7_66',
    'dassh.region_rodded:RoddedRegion._calc_coolant_int_temp', 'dassh.region_rodded:RoddedRegion._calc_coolant_byp_temp',
    'dassh.region_rodded:RoddedRegion._calc_coolant_byp_temp_stagnant',
    'dassh.region_unrodded:calculate_min_dz', 'dassh.region_unrodded:SingleNodeHomogeneous._calc_coolant_temp',
    'dassh.region_unrodded:MultiNodeHomogeneous._calc_coolant_temp',
    'dassh.region_rodded:calculate_min_dz (aggregation)', 'dassh.assembly:calculate_min_dz',
    'dassh.core:calculate_min_dz', 'dassh.core:Core._flow_model', 'dassh.core:Core._noflow_model',
    'dassh.core:Core._duct_average_model',
]
ASSUMPTIONS = ['min() over symbolic step limits is modelled by its defining property (result <= every argument)',
               'gap coolant: topology of really loaded cores; the geometric tables are atoms carrying the facts C09 proves '
               '(cell widths > 0, convection constants = widths, symmetric distances > 0, conduction constants = gap '
               'width / distance, cell flows > 0); film coefficients, heat capacity and conductivity are independent '
               'positive atoms at the two temperatures the limit is evaluated at']
NOT_DECIDED = ['temperature-dependent coolants over the whole inlet..outlet range: the limit is evaluated by the code at '
               'the two end temperatures only; that the extremum lies at an end needs monotone properties (assumed)']
BOUNDED = []


# ---------------------------------------------------------------------------------------
sym_min = core.sym_min


def operator_rows(S, names, atoms, apply):
    """rows[i] = (dict name -> weight, constant) of the affine map apply(atoms)[i].
    sym: exact affine decomposition of the real kernel's result (raises when the
    result is not affine); native: unit perturbations of the real kernel."""
    if S.mode == 'sym':
        out = apply(atoms)
        rows = []
        for v in out:
            parts = normal.affine_split(core.lift(v), set(names))
            rows.append(({k: Sym(c) for k, c in parts.items() if k is not None}, Sym(parts.get(None, core.C(0)))))
        return rows
    base = [float(a) for a in atoms]
    r0 = [float(x) for x in apply(list(base))]
    cols = {}
    for j, nm in enumerate(names):
        pert = list(base)
        pert[j] = base[j] + 1.0
        rj = [float(x) for x in apply(pert)]
        cols[nm] = [rj[i] - r0[i] for i in range(len(r0))]
    rows = []
    for i in range(len(r0)):
        w = {nm: cols[nm][i] for nm in names}
        const = r0[i] - sum(w[nm] * base[j] for j, nm in enumerate(names))
        rows.append((w, const))
    return rows


def _class_of(typ, nb_types):
    code = {0: '1', 1: '2', 2: '3'}[typ] + '-' + ''.join(sorted(str(t + 1) for t in nb_types))
    return code


def extra_checks(tier, seed):
    """arithmetic lemma that turns the proved facts into the property's conclusion:
       S >= 0, c > 0, S*c == 1, limit <= c, 0 < dz <= limit   =>   1 - dz*S >= 0"""
    import time
    import z3
    t0 = time.time()
    sS, c, m, dz = z3.Reals('S c m dz')
    s = z3.Solver()
    s.set('timeout', 20000)
    s.add(sS >= 0, c > 0, sS * c == 1, m <= c, dz > 0, dz <= m, 1 - dz * sS < 0)
    r = s.check()
    st = 'proved' if r == z3.unsat else ('refuted' if r == z3.sat else 'undecided')
    return [dict(name='lemma', results=[dict(name='lemma.diag_nonneg', status=st, backend='z3-' + z3.get_version_string(),
                                              seconds=time.time() - t0, detail='', sample=True)])]


def interior(S, cfg):
    from dassh import region_rodded as RR
    n_ring = cfg['n_ring']
    adiabatic = cfg.get('adiabatic', False)
    # n_duct = 2: a flowing bypass takes its share of the assembly flow, so the bundle-interior flow (which the update
    # divides by) differs from the assembly total
    rr = make_rodded(S, n_ring=n_ring, n_duct=cfg.get('n_duct', 1))
    set_int_params(S, rr, conv_approx=cfg.get('conv_approx', False))
    set_temps(S, rr)
    nsc = rr.subchannel.n_sc['coolant']['total']
    n_int = rr.subchannel.n_sc['coolant']['interior']
    nd = rr.subchannel.n_sc['duct']['total']
    dz = S.pos('dz', 1e-4, 2e-3)
    q_pins = S.vec('qpin', rr.n_pin, 'real', 0.0, 3e4)
    q_cool = S.vec('qcool', nsc, 'real', 0.0, 500.0)
    if adiabatic:
        # adiabatic outer wall: the wall temperatures are themselves the solution of the wall problem for
        # the current coolant temperatures (Assembly.calculate solves the wall first), so the operator is
        # the composite  wall solve o coolant update  acting on coolant temperatures and powers
        p_duct = S.vec('pduct', nd, 'real', 0.0, 5e4)
        T_gap = S.vec('Tgap', nd, 'pos', 600.0, 900.0)
        h_gap = S.vec('hgap', 2, 'pos', 1e4, 1e5)
        names = S.names('Tc', nsc) + S.names('pduct', nd) + S.names('qpin', rr.n_pin) + S.names('qcool', nsc)
        atoms = list(rr.temp['coolant_int']) + list(p_duct) + list(q_pins) + list(q_cool)
    else:
        names = S.names('Tc', nsc) + (S.names('Tmw', (1, nd)) if cfg.get('conv_approx') else
                                      [f'Ts[0,0,{w}]' for w in range(nd)])
        names += S.names('qpin', rr.n_pin) + S.names('qcool', nsc)
        wall_atoms = (list(rr.temp['duct_mw'][0]) if cfg.get('conv_approx') else list(rr.temp['duct_surf'][0, 0]))
        atoms = list(rr.temp['coolant_int']) + wall_atoms + list(q_pins) + list(q_cool)

    def apply(vals):
        arr = np.array(vals, dtype=object if S.mode == 'sym' else float)
        rr.temp['coolant_int'] = arr[:nsc].copy()
        if adiabatic:
            rr._calc_duct_temp(arr[nsc:nsc + nd], T_gap, h_gap, True)
        elif cfg.get('conv_approx'):
            rr.temp['duct_mw'][0] = arr[nsc:nsc + nd]
        else:
            rr.temp['duct_surf'][0, 0] = arr[nsc:nsc + nd]
        qp = arr[nsc + nd:nsc + nd + rr.n_pin]
        qc = arr[nsc + nd + rr.n_pin:]
        dT = rr._calc_coolant_int_temp(dz, qp, qc, ebal=False)
        return [rr.temp['coolant_int'][i] + dT[i] for i in range(nsc)]

    rows = operator_rows(S, names, atoms, apply)
    # ---- the limits the real step-limit function computes ----------------------------
    rec = {}

    def recorder(name):
        real = getattr(RR, name)

        def f(*a, **k):
            v = real(*a, **k)
            rec[name.replace('_cons', '').replace('_', '-')] = v
            return v
        return f
    cons = ['_cons1_111', '_cons1_112', '_cons2_122', '_cons2_123', '_cons2_133', '_cons3_22', '_cons3_33']
    with patched(*[(RR, c, recorder(c)) for c in cons], (RR, 'min', sym_min)):
        # the flag calculate_min_dz hands down: 'outer' = this bundle's own (single) duct is adiabatic; 'outer_byp' = the
        # adiabatic wall is the OUTER wall of a flowing bypass, the bundle interior still exchanges heat with its duct
        limit, code = RR._calculate_int_dz(rr, cfg.get('flag', 'outer' if adiabatic else None))
    typ = rr.subchannel.type
    tnames = S.names('Tc', nsc)
    pnames = set(S.names('qpin', rr.n_pin) + S.names('qcool', nsc) + S.names('pduct', nd))
    seen_classes = set()
    for i in range(nsc):
        w, const = rows[i]
        nb = [int(j) for j in rr.subchannel.sc_adj[i, :5] if j >= 0]
        cls = _class_of(int(typ[i]), [int(typ[j]) for j in nb])
        seen_classes.add(cls)
        temps = [k for k in w if k not in pnames]
        S.eq(f'op.rowsum[{i}]', sum(w[k] for k in temps), 1)
        S.eq(f'op.no_constant[{i}]', const, 0, scale=1e3)
        for k in w:
            if k == tnames[i]:
                continue
            S.le(f'op.{"heating" if k in pnames else "offdiag"}[{i},{k}]', 0, w[k], scale=1.0)
        if cls not in rec:
            S.holds(f'limit.covers_class[{i}:{cls}]', False)
            continue
        s_i = (1 - w[tnames[i]]) / dz
        # S <= 1/limit_class: the class limit covers this cell (a conservative limit is allowed)
        S.le(f'op.diag[{i}:{cls}]', s_i * rec[cls], 1, scale=1e3)
        S.le(f'op.S_nonneg[{i}]', 0, s_i, scale=1e3)
    for cls, v in rec.items():
        S.le(f'limit.is_min[{cls}]', limit, v)
        if cls not in seen_classes:
            S.note(f'class {cls} limited by the code does not occur at n_ring={n_ring}')
    if adiabatic:
        S.eq('canary.rowsum_is_two', sum(rows[n_int][0].get(k, 0) for k in tnames), 2, canary=True)
    else:
        S.eq('canary.rowsum_without_wall', sum(rows[n_int][0].get(k, 0) for k in tnames), 1, canary=True)
interior.cname = '_calculate_int_dz'


def bypass(S, cfg):
    from dassh import region_rodded as RR
    n_ring, n_duct = cfg['n_ring'], cfg['n_duct']
    rr = make_rodded(S, n_ring=n_ring, n_duct=n_duct)
    set_int_params(S, rr, conv_approx=cfg.get('conv_approx', False))
    set_temps(S, rr)
    nd = rr.subchannel.n_sc['duct']['total']
    nb = rr.n_bypass
    dz = S.pos('dz', 1e-4, 2e-3)
    ca = cfg.get('conv_approx', False)
    names, atoms = [], []
    for b in range(nb):
        names += [f'Tb[{b},{c}]' for c in range(nd)]
        atoms += list(rr.temp['coolant_byp'][b])
    adiabatic = cfg.get('adiabatic', False)
    if adiabatic:
        # adiabatic outer wall (no inter-assembly gap): RoddedRegion.calculate solves the walls first, from the
        # previous-level coolant and bypass temperatures, so the operator is the composite  wall solve o bypass update
        # on interior-coolant, bypass temperatures and wall heating
        nsc_int = rr.subchannel.n_sc['coolant']['total']
        p_duct = S.vec('pduct', rr.n_duct * nd, 'real', 0.0, 5e4)
        T_gap = S.vec('Tgap', nd, 'pos', 600.0, 900.0)
        h_gap = S.vec('hgap', 2, 'pos', 1e4, 1e5)
        names += S.names('Tc', nsc_int) + S.names('pduct', rr.n_duct * nd)
        atoms += list(rr.temp['coolant_int']) + list(p_duct)
    elif ca:
        for i in range(rr.n_duct):
            names += [f'Tmw[{i},{c}]' for c in range(nd)]
            atoms += list(rr.temp['duct_mw'][i])
    else:
        for i in range(rr.n_duct):
            for f in (0, 1):
                names += [f'Ts[{i},{f},{c}]' for c in range(nd)]
                atoms += list(rr.temp['duct_surf'][i, f])

    def apply(vals):
        arr = np.array(vals, dtype=object if S.mode == 'sym' else float)
        p = 0
        tb = rr.temp['coolant_byp'].copy()
        for b in range(nb):
            tb[b] = arr[p:p + nd]
            p += nd
        rr.temp['coolant_byp'] = tb
        if adiabatic:
            rr.temp['coolant_int'] = arr[p:p + nsc_int].copy()
            p += nsc_int
            rr._calc_duct_temp(arr[p:p + rr.n_duct * nd], T_gap, h_gap, True)
        elif ca:
            for i in range(rr.n_duct):
                rr.temp['duct_mw'][i] = arr[p:p + nd]
                p += nd
        else:
            for i in range(rr.n_duct):
                for f in (0, 1):
                    rr.temp['duct_surf'][i, f] = arr[p:p + nd]
                    p += nd
        dT = rr._calc_coolant_byp_temp(dz, ebal=False)
        return [rr.temp['coolant_byp'][b, c] + dT[b, c] for b in range(nb) for c in range(nd)]

    if cfg.get('tdep_guard'):
        pass
    # the kernel evaluates material properties at averages of the temperatures: with constant
    # properties (atoms) the map is affine
    rows = operator_rows(S, names, atoms, apply)
    rec = {}

    def recorder(name):
        real = getattr(RR, name)

        def f(*a, **k):
            v = real(*a, **k)
            rec.setdefault(name.replace('_cons', '').replace('_', '-'), []).append(v)
            return v
        return f
    cons = ['_cons6_66', '_cons6_67', '_cons6_77', '_cons7_66', '_cons7_77']
    with patched(*[(RR, c, recorder(c)) for c in cons], (RR, 'min', sym_min)):
        limit, code = RR._calculate_byp_dz(rr, 'outer_byp' if adiabatic else None)
    typ = rr.subchannel.type
    nc = rr.subchannel.n_sc['coolant']['total']
    for b in range(nb):
        start = nc + nd + b * 2 * nd
        for c in range(nd):
            i = b * nd + c
            w, const = rows[i]
            me = f'Tb[{b},{c}]'
            t_me = int(typ[start + c])
            nbt = [int(typ[j]) for j in rr.subchannel.sc_adj[start + c] if j >= 0 and typ[j] >= 5]
            cls = f'{t_me + 1}-' + ''.join(sorted(str(t + 1) for t in nbt))
            S.eq(f'op.rowsum[b{b},{c}]', sum(v for k, v in w.items() if not k.startswith('pduct')), 1)
            S.eq(f'op.no_constant[b{b},{c}]', const, 0, scale=1e3)
            for k in w:
                if k != me:
                    S.le(f'op.{"heating" if k.startswith("pduct") else "offdiag"}[b{b},{c},{k}]', 0, w[k], scale=1.0)
            if cls not in rec or len(rec[cls]) <= b:
                S.holds(f'limit.covers_class[b{b},{c}:{cls}]', False)
                continue
            s_i = (1 - w[me]) / dz
            S.le(f'op.diag[b{b},{c}:{cls}]', s_i * rec[cls][b], 1, scale=1e3)
    for cls, vs in rec.items():
        for b, v in enumerate(vs):
            S.le(f'limit.is_min[{cls},b{b}]', limit, v)
    S.eq('canary.byp_rowsum_without_walls', sum(v for k, v in rows[0][0].items() if k.startswith('Tb')), 1, canary=True)
bypass.cname = '_calculate_byp_dz'


def stagnant(S, cfg):
    """stagnant bypass gap: the new temperature is T + sum w (T_wall - T): a convex
    combination of the two wall surface temperatures and the old value"""
    rr = make_rodded(S, n_ring=cfg['n_ring'], n_duct=2, byp_stagnant=True)
    set_int_params(S, rr)
    set_temps(S, rr)
    nd = rr.subchannel.n_sc['duct']['total']
    dz = S.pos('dz', 1e-4, 2e-3)
    names = [f'Tb[0,{c}]' for c in range(nd)] + [f'Ts[0,1,{c}]' for c in range(nd)] + [f'Ts[1,0,{c}]' for c in range(nd)]
    atoms = list(rr.temp['coolant_byp'][0]) + list(rr.temp['duct_surf'][0, 1]) + list(rr.temp['duct_surf'][1, 0])

    def apply(vals):
        arr = np.array(vals, dtype=object if S.mode == 'sym' else float)
        tb = rr.temp['coolant_byp'].copy()
        tb[0] = arr[:nd]
        rr.temp['coolant_byp'] = tb
        rr.temp['duct_surf'][0, 1] = arr[nd:2 * nd]
        rr.temp['duct_surf'][1, 0] = arr[2 * nd:]
        dT = rr._calc_coolant_byp_temp_stagnant(dz, ebal=False)
        return [rr.temp['coolant_byp'][0, c] + dT[0, c] for c in range(nd)]
    rows = operator_rows(S, names, atoms, apply)
    for c in range(nd):
        w, const = rows[c]
        S.eq(f'stagnant.rowsum[{c}]', sum(w.values()), 1)
        S.eq(f'stagnant.no_constant[{c}]', const, 0, scale=1e3)
        for k in w:
            S.le(f'stagnant.weight_nonneg[{c},{k}]', 0, w[k], scale=1.0)
    S.eq('canary.stagnant_keeps_old', rows[0][0][names[0]], 1, canary=True)
stagnant.cname = 'RoddedRegion._calc_coolant_byp_temp_stagnant'


def unrodded(S, cfg):
    from dassh import region_unrodded as UR
    model = cfg['model']
    ur = make_unrodded(S, model=model, lowflow=cfg.get('lowflow', False), mratio=cfg.get('mratio', 'atom'))
    nn = 1 if model == 'simple' else 6
    ur.temp['coolant_int'] = S.vec('Tc', nn, 'pos', 600.0, 900.0)
    ur.temp['duct_mw'] = S.vec('Tmw', (1, 6), 'pos', 600.0, 900.0)
    ur.temp['duct_surf'] = S.vec('Ts', (1, 2, 6), 'pos', 600.0, 900.0)
    # film coefficient as the region computes it: (k Nu / De) x convection factor; k Nu / De is an atom
    h0 = S.pos('h0', 1e4, 1e5)

    def upd(temp, use_mat_tracker=True):
        ur.coolant_params['htc'] = h0 * ur.mratio
    ur._update_coolant_params = upd
    upd(None)
    dz = S.pos('dz', 1e-4, 2e-3)
    q = S.real('qrefl', 0.0, 1e4)
    lf = cfg.get('lowflow', False)
    names = S.names('Tc', nn) + ([f'Tmw[0,{c}]' for c in range(6)] if lf else [f'Ts[0,0,{c}]' for c in range(6)]) + ['qrefl']
    atoms = list(ur.temp['coolant_int']) + (list(ur.temp['duct_mw'][0]) if lf else list(ur.temp['duct_surf'][0, 0])) + [q]

    def apply(vals):
        arr = np.array(vals, dtype=object if S.mode == 'sym' else float)
        ur.temp['coolant_int'] = arr[:nn].copy()
        if lf:
            ur.temp['duct_mw'][0] = arr[nn:nn + 6]
        else:
            ur.temp['duct_surf'][0, 0] = arr[nn:nn + 6]
        dT = ur._calc_coolant_temp(dz, {'refl': arr[nn + 6]}, False, ebal=False)
        dT = np.atleast_1d(dT)
        return [ur.temp['coolant_int'][i] + dT[i] for i in range(nn)]
    rows = operator_rows(S, names, atoms, apply)
    cands = []

    def rec_min(seq):
        seq = list(seq)
        cands.extend(seq)
        return sym_min(seq)
    with patched((UR, 'min', rec_min)):
        T_lo = S.pos('T_lo', 600.0, 650.0)
        limit, _ = UR.calculate_min_dz(ur, T_lo, T_lo + S.pos('dT_io', 50.0, 150.0), False)
    tn = S.names('Tc', nn)
    for i in range(nn):
        w, const = rows[i]
        S.eq(f'op.rowsum[{i}]', sum(v for k, v in w.items() if k != 'qrefl'), 1)
        S.eq(f'op.no_constant[{i}]', const, 0, scale=1e3)
        for k in w:
            if k != tn[i]:
                S.le(f'op.{"heating" if k == "qrefl" else "offdiag"}[{i},{k}]', 0, w[k], scale=1.0)
        s_i = (1 - w[tn[i]]) / dz
        # the self weight at every candidate limit (the limit evaluated at the inlet / outlet temperature)
        # must be >= 0:  S * candidate <= 1 ; the returned value is <= every candidate
        for kk, cnd in enumerate(cands):
            S.le(f'op.diag_at_limit[{i},cand{kk}]', s_i * cnd, 1, scale=1e3)
    for kk, cnd in enumerate(cands):
        S.le(f'limit.is_min[cand{kk}]', limit, cnd)
    S.eq('canary.unrodded_rowsum_without_wall', sum(rows[0][0].get(k, 0) for k in tn), 1, canary=True)
unrodded.cname = 'region_unrodded.calculate_min_dz'


# ---------------------------------------------------------------------------------------
# inter-assembly gap coolant (dassh.core)
def _gap_core(S, cfg):
    """topology of a really loaded core (C09); geometric tables as atoms carrying the facts C09 proves:
    cell widths > 0, convection constants = widths, centroid distances symmetric and > 0, conduction
    constants = gap width / distance, cell flows > 0"""
    from . import c09
    sym = S.mode == 'sym'
    c, kinds, hs_, d_ = c09._native_core(cfg['present'], cfg['types'])
    if cfg.get('model'):
        c.model = cfg['model']
    n_sc = int(c.n_sc)
    shape = tuple(int(x) for x in c._asm_sc_adj.shape)
    adj = c._asm_sc_adj
    dt = object if sym else float
    d = S.pos('d_gap', 0.003, 0.006)
    c.d_gap = d
    awp = np.zeros(shape, dtype=dt)
    for a in range(shape[0]):
        for loc in range(shape[1]):
            awp[a, loc] = S.pos(f'awp[{a},{loc}]', 0.005, 0.03) if adj[a, loc] > 0 else 0
    c.gap_params['asm wp'] = awp
    const = np.zeros((n_sc, 3), dtype=dt)
    for i in range(n_sc):
        rows, cols = np.where(adj == i + 1)
        for t in range(len(rows)):
            const[i, t] = awp[rows[t], cols[t]]
    if c.model == 'no_flow':
        const = const * (2 / d)                  # what _make_conv_mask stores for the no-flow model
    c._conv_util['const'] = const
    L = np.zeros((n_sc, 3), dtype=dt)
    R = np.zeros((n_sc, 3), dtype=dt)
    for i in range(n_sc):
        for slot in range(3):
            j = c._sc_adj[i, slot] - 1
            if j < 0:
                continue
            back = [t for t in range(3) if c._sc_adj[j, t] - 1 == i][0]
            if (j, back) < (i, slot):
                L[i, slot] = L[j, back]
            else:
                L[i, slot] = S.pos(f'L[{i},{slot}]', 0.005, 0.03)
            R[i, slot] = d / L[i, slot]
    c.gap_params['L'] = L
    c._Rcond = R
    m = S.vec('mflow', n_sc, 'pos', 0.01, 0.1)
    c._sc_mfr = m
    c._inv_sc_mfr = 1 / m
    c.gap_params['area frac'] = m / sum(m)
    return c, n_sc, shape, adj, awp, const, L, R, m, d


def gap_flow(S, cfg):
    """flowing gap: T_new,i = T_i + dT_i is a combination of T_i, the duct temperatures it touches and its
    neighbours with non-negative weights that sum to one, for every dz up to the limit core.calculate_min_dz
    returns, at BOTH ends of the temperature range the limit is evaluated for"""
    from dassh import core as dcore
    c, n_sc, shape, adj, awp, const, L, R, m, d = _gap_core(S, cfg)
    # coolant state at the two temperatures the limit is evaluated at
    T_lo, T_hi = 600.0, 800.0
    state = {}
    for tag, T in (('lo', T_lo), ('hi', T_hi)):
        state[T] = dict(h=S.vec(f'h_{tag}', n_sc, 'pos', 1e4, 1e5), cp=S.pos(f'cp_{tag}', 1200.0, 1300.0),
                        k=S.pos(f'k_{tag}', 50.0, 80.0))

    class _Cool:
        temperature = T_lo
        heat_capacity = state[T_lo]['cp']
        thermal_conductivity = state[T_lo]['k']
    cool = _Cool()
    c.gap_coolant = cool

    def update(T):
        st = state[T]
        cool.temperature = T
        cool.heat_capacity = st['cp']
        cool.thermal_conductivity = st['k']
        c.coolant_gap_params['htc'] = st['h']
    c._update_coolant_gap_params = update
    update(T_lo)
    # min() over the symbolic candidate limits: modelled by its defining property (result <= every argument, see
    # ASSUMPTIONS); the candidates the code hands to np.min are recorded and each is checked against its cell
    recorded = []

    def min_rec(x, *a, **k):
        arrs = [np.asarray(v, dtype=object if sym_mode else float).ravel() for v in (x if isinstance(x, list) else [x])]
        recorded.extend(arrs)
        lim = S.pos('gap_limit', 1e-4, 1e-2)
        for arr in arrs:
            for v in arr:
                S.assume(lim <= v, 'min(): result <= every argument')
        return lim
    sym_mode = S.mode == 'sym'
    if sym_mode:
        with patched((dcore.np, 'min', min_rec)):
            limit, _ = dcore.calculate_min_dz(c, T_lo, T_hi)
    else:
        limit, _ = dcore.calculate_min_dz(c, T_lo, T_hi)
    S.lt('gap.limit_positive', 0, limit)
    if sym_mode:
        S.holds('gap.limit_has_candidates', len(recorded) >= 1 and all(len(a) == n_sc for a in recorded))
    # candidate limit of each cell at each temperature: in order of evaluation when one array per temperature was
    # handed to min(); a single array has to serve both temperatures
    cand = {T_lo: recorded[0] if recorded else None, T_hi: recorded[-1] if recorded else None}
    Tg = S.vec('Tgap', n_sc, 'pos', 600.0, 900.0)
    t_duct = S.vec('Tduct', shape, 'pos', 600.0, 900.0)
    dz = S.pos('dz', 0.001, 0.02)
    block = S.names('Tgap', n_sc) + S.names('Tduct', shape)
    for tag, T in (('lo', T_lo), ('hi', T_hi)):
        update(T)
        st = state[T]
        c.coolant_gap_temp = Tg.copy()
        dT = c._flow_model(dz, t_duct)
        for i in range(n_sc):
            Si = (st['h'][i] * (const[i, 0] + const[i, 1] + const[i, 2])
                  + st['k'] * (R[i, 0] + R[i, 1] + R[i, 2])) / (m[i] * st['cp'])
            want = Tg[i] * (1 - dz * Si)
            rows, cols = np.where(adj == i + 1)
            for t in range(len(rows)):
                want = want + dz * st['h'][i] * const[i, t] / (m[i] * st['cp']) * t_duct[rows[t], cols[t]]
            for slot in range(3):
                j = c._sc_adj[i, slot] - 1
                if j >= 0:
                    want = want + dz * st['k'] * R[i, slot] / (m[i] * st['cp']) * Tg[j]
            # the update is exactly this combination (weights visibly >= 0 except the self weight 1 - dz S_i) ...
            S.eq(f'gap.op.combination[{tag},{i}]', Tg[i] + dT[i], want, block=block)
            # ... and the self weight stays >= 0 for every dz up to the limit
            S.le(f'gap.op.diag_at_limit[{tag},{i}]', Si * (cand[T][i] if sym_mode else limit), 1, scale=1e3)
    S.le('canary.gap_limit_twice_as_large', 2 * (cand[T_hi][0] if sym_mode else limit)
         * ((state[T_hi]['h'][0] * (const[0, 0] + const[0, 1] + const[0, 2])
             + state[T_hi]['k'] * (R[0, 0] + R[0, 1] + R[0, 2])) / (m[0] * state[T_hi]['cp'])), 1, canary=True)


gap_flow.cname = 'core.calculate_min_dz/_flow_model'
gap_flow.run_kw = dict(max_paths=400, budget_ms=8000, check_div=False)


def gap_static(S, cfg):
    """no-flow and duct-average gap models: the new gap temperature is a convex combination of the adjacent duct-wall
    temperatures (and, no-flow, the neighbouring gap temperatures)"""
    model = cfg['model']
    c, n_sc, shape, adj, awp, const, L, R, m, d = _gap_core(S, cfg)
    Tg = S.vec('Tgap', n_sc, 'pos', 600.0, 900.0)
    t_duct = S.vec('Tduct', shape, 'pos', 600.0, 900.0)
    c.coolant_gap_temp = Tg.copy()
    block = S.names('Tgap', n_sc) + S.names('Tduct', shape)
    if model == 'no_flow':
        new = c._noflow_model(t_duct)
    else:
        new = c._duct_average_model(t_duct)
    for i in range(n_sc):
        rows, cols = np.where(adj == i + 1)
        if model == 'no_flow':
            wsum = sum(const[i, t] for t in range(len(rows))) + sum(R[i, s_] for s_ in range(3))
            want = sum(const[i, t] * t_duct[rows[t], cols[t]] for t in range(len(rows)))
            for slot in range(3):
                j = c._sc_adj[i, slot] - 1
                if j >= 0:
                    want = want + R[i, slot] * Tg[j]
            S.eq(f'gap.static.convex_combination[{i}]', new[i] * wsum, want, block=block)
            S.lt(f'gap.static.weights_positive[{i}]', 0, wsum)
        else:
            S.eq(f'gap.static.mean_of_adjacent_ducts[{i}]', new[i] * len(rows),
                 sum(t_duct[rows[t], cols[t]] for t in range(len(rows))), block=block)
    S.eq('canary.gap_static_keeps_old', new[0], Tg[0], block=block, canary=True)


gap_static.cname = 'Core._noflow_model/_duct_average_model'
gap_static.run_kw = dict(max_paths=400, budget_ms=8000, check_div=False)


# ---------------------------------------------------------------------------------------
# aggregation of the limits: bundle (two temperatures, interior + bypass) and assembly (all regions)
class _BundleStub:
    def __init__(self, S, n_bypass, flowing):
        self.n_bypass = n_bypass
        self.byp_flow_rate = np.array([1.0 if flowing else 0.0] * n_bypass)

        class _C:
            temperature = 555.0
        self.coolant = _C()
        self.int_updates = []
        self.byp_updates = []

    def _update_coolant_int_params(self, temp, use_mat_tracker=True):
        self.int_updates.append(temp)
        self.coolant.temperature = temp

    def _update_coolant_byp_params(self, temps):
        self.byp_updates.append(list(temps))


def aggregate(S, cfg):
    """region_rodded.calculate_min_dz and assembly.calculate_min_dz return a value that is <= every limit they were
    given (interior and bypass limits at BOTH temperatures; every axial region), i.e. the minimum; the bundle's coolant
    state is restored"""
    from dassh import region_rodded as RR, region_unrodded as UR, assembly as A
    n_byp, flowing = cfg.get('n_bypass', 0), cfg.get('flowing', True)
    b = _BundleStub(S, n_byp, flowing)
    T_lo, T_hi = 600.0, 800.0
    lims = {}

    flags = {'int': [], 'byp': []}

    def int_dz(bundle, which):
        flags['int'].append(which)
        T = bundle.coolant.temperature
        lims[('int', T)] = S.pos(f'lim_int_{int(T)}', 1e-4, 1e-2)
        return lims[('int', T)], '1-111'

    def byp_dz(bundle, which):
        flags['byp'].append(which)
        T = bundle.coolant.temperature
        lims[('byp', T)] = S.pos(f'lim_byp_{int(T)}', 1e-4, 1e-2)
        return lims[('byp', T)], '6-66'
    with patched((RR, '_calculate_int_dz', int_dz), (RR, '_calculate_byp_dz', byp_dz), (RR, 'min', sym_min)):
        res, code = RR.calculate_min_dz(b, T_lo, T_hi, cfg.get('adiabatic', False))
    want = [('int', T_lo), ('int', T_hi)] + ([('byp', T_lo), ('byp', T_hi)] if n_byp and flowing else [])
    S.holds('aggregate.bundle.evaluated_at_both_temperatures', sorted(lims) == sorted(want))
    for k in want:
        if k in lims:
            S.le(f'aggregate.bundle.le[{k[0]},{int(k[1])}]', res, lims[k])
    prod = 1
    for k in lims:
        prod = prod * (res - lims[k])
    S.eq('aggregate.bundle.is_one_of_the_limits', prod, 0)
    S.holds('aggregate.bundle.coolant_state_restored', b.int_updates[-1] == 555.0)
    # which wall is adiabatic: the bundle's own duct ('outer') unless a flowing bypass lies between it and the
    # adiabatic boundary ('outer_byp': the interior limit then keeps its duct term - contract `interior[flag=outer_byp]`)
    if not cfg.get('adiabatic', False):
        want_flag = None
    else:
        want_flag = 'outer_byp' if (n_byp and flowing) else 'outer'
    S.holds('aggregate.bundle.adiabatic_wall_named_to_every_limit',
            all(f == want_flag for f in flags['int'] + flags['byp']) and len(flags['int']) == 2)
    # assembly level

    class _Reg:
        def __init__(self, rodded):
            self.is_rodded = rodded
    regs = [_Reg(False), _Reg(True), _Reg(False)]
    asm = A.Assembly.__new__(A.Assembly)
    asm.region = regs
    rl = {}

    handed = {}

    def rr_min(r, t1, t2, ad=False):
        rl[id(r)] = S.pos('lim_region_rodded', 1e-4, 1e-2)
        handed[id(r)] = (t1, t2, ad)
        return rl[id(r)], 'x'

    def ur_min(r, t1, t2, ad=False):
        rl[id(r)] = S.pos(f'lim_region_unrodded{len(rl)}', 1e-4, 1e-2)
        handed[id(r)] = (t1, t2, ad)
        return rl[id(r)], 'y'
    with patched((A.region_rodded, 'calculate_min_dz', rr_min), (A.region_unrodded, 'calculate_min_dz', ur_min),
                 (A, 'min', sym_min)):
        ares, acode = A.calculate_min_dz(asm, T_lo, T_hi, False)
    S.holds('aggregate.assembly.every_region_asked', len(rl) == 3)
    # every region's limit is evaluated at BOTH ends of the temperature range (inlet and estimated outlet) and with the
    # assembly's adiabatic flag: the region functions take the minimum over the two temperatures they are handed
    for j, k in enumerate(rl):
        t1, t2, ad = handed[k]
        S.eq(f'aggregate.assembly.region_handed_inlet_temperature[{j}]', t1, T_lo)
        S.eq(f'aggregate.assembly.region_handed_outlet_temperature[{j}]', t2, T_hi)
        S.holds(f'aggregate.assembly.region_handed_adiabatic_flag[{j}]', ad is False)
    prod = 1
    for k, v in rl.items():
        S.le(f'aggregate.assembly.le[{list(rl).index(k)}]', ares, v)
        prod = prod * (ares - v)
    S.eq('aggregate.assembly.is_one_of_the_limits', prod, 0)
    S.lt('canary.aggregate_is_first', lims[('int', T_lo)], res, canary=True)


aggregate.cname = 'region_rodded.calculate_min_dz/assembly.calculate_min_dz'
aggregate.run_kw = dict(max_paths=400, check_div=False)


def configs(tier):
    out = []
    for n in (2, 3, 4):
        out.append((interior, dict(n_ring=n)))
        out.append((interior, dict(n_ring=n, conv_approx=True)))
    out.append((interior, dict(n_ring=3, adiabatic=True)))
    out.append((interior, dict(n_ring=2, n_duct=2)))
    out.append((interior, dict(n_ring=2, n_duct=2, flag='outer_byp')))
    out.append((interior, dict(n_ring=3, n_duct=2, conv_approx=True)))
    for n in (2, 3, 4):
        out.append((bypass, dict(n_ring=n, n_duct=2)))
    out.append((bypass, dict(n_ring=3, n_duct=2, conv_approx=True)))
    out.append((bypass, dict(n_ring=2, n_duct=3)))
    out.append((bypass, dict(n_ring=2, n_duct=2, adiabatic=True)))
    out.append((bypass, dict(n_ring=3, n_duct=2, adiabatic=True)))
    out.append((stagnant, dict(n_ring=2)))
    for model in ('simple', '6node'):
        out.append((unrodded, dict(model=model)))
        out.append((unrodded, dict(model=model, lowflow=True)))
        out.append((unrodded, dict(model=model, mratio=1.0)))
    for present, types in (((1,), 'c'), ((1, 1, 1), 'acU'), ((1, 1, 0, 1, 0, 0, 1), 'acab')):
        out.append((gap_flow, dict(present=present, types=types)))
    out.append((gap_static, dict(present=(1, 1, 1), types='acU', model='no_flow')))
    out.append((gap_static, dict(present=(1, 1, 1), types='acU', model='duct_average')))
    out.append((aggregate, dict()))
    out.append((aggregate, dict(n_bypass=2, flowing=True, adiabatic=True)))
    out.append((aggregate, dict(n_bypass=1, flowing=False)))
    out.append((aggregate, dict(n_bypass=1, flowing=False, adiabatic=True)))
    out.append((aggregate, dict(adiabatic=True)))
    # the step the sweep actually takes: Reactor._setup_overall_axial_mesh_req reduces the per-assembly limits to
    # one requirement that is <= every limit (rounded DOWN to the micrometre) - the contract C05 proves, on which
    # "the selected step keeps every weight non-negative" rests as much as on the limits themselves
    from . import c05
    out.append((c05.mesh_req, dict(user='none')))
    out.append((c05.mesh_req, dict(user='given')))
    out.append((c05.loop_body, dict(n_bounds=3, req='user')))      # every step the mesh takes is <= that requirement
    if tier == 'thorough':
        out.append((gap_flow, dict(present=(1,) * 7, types='abUcabU')))
        out.append((interior, dict(n_ring=5)))
        out.append((interior, dict(n_ring=6, conv_approx=True)))
        out.append((bypass, dict(n_ring=4, n_duct=3, conv_approx=True)))
        out.append((stagnant, dict(n_ring=4)))
    return out
