"""C05 - the axial mesh is finite, strictly increasing, exact on boundaries, within limit.

Functions under contract (dassh.reactor.Reactor): _setup_axial_region_bnds,
_setup_overall_axial_mesh_req, _check_dz, _setup_zpts (its while loop is cut
mechanically from the real source: body and test are compiled verbatim).

All lengths are multiples of the 1e-12 m rounding grid after np.around(., 12); the
grid coordinates are integer atoms, np.around / np.floor are integer atoms with their
defining inequalities, and every obligation is linear mixed integer/real (z3).
"""
from __future__ import annotations
import numpy as np
from . import common
from pvc import core, loopcut
from pvc.core import Sym

MODULES = ['dassh.reactor', 'dassh.assembly']
PROPERTY = 'C05'
LEAN_LEMMAS = ['mesh_increasing']        # /verif/lean/Ghost.lean, checked in the thorough tier
FUNCTIONS = ['dassh.reactor:Reactor._setup_axial_region_bnds', 'dassh.reactor:Reactor._setup_overall_axial_mesh_req',
             'dassh.reactor:Reactor._check_dz', 'dassh.reactor:Reactor._setup_zpts (loop body + test, cut from source)']
ASSUMPTIONS = ['np.around(x, 12) is "a nearest multiple of 1e-12 (ties unspecified)", np.floor the integer floor: real '
               'arithmetic model of the rounding; genuine double-rounding of values within 1 ulp of a tie is out of reach',
               'termination: the variant is the number of grid points in (z_last, L]; each iteration advances by at least '
               'one grid unit (proved), so the loop runs at most L / 1e-12 times',
               'exact-on-boundaries follows from mesh.no_skip (a plane below a boundary is never followed by a plane '
               'above it) together with strict progress and termination at L - an induction over the iterations']
NOT_DECIDED = ['boundaries nearly coincident after unit conversion that differ by less than the rounding grid collapse '
               'into one plane by construction (np.unique after rounding); that the collapse is the intended one is not a '
               'post-condition']
BOUNDED = []
GRID = 10 ** 12


def _reactor(S):
    from dassh import reactor
    r = reactor.Reactor.__new__(reactor.Reactor)
    import dassh
    dassh.logged_class.LoggedClass.__init__(r, 0, 'dassh.Reactor')
    return r


def _grid_bounds(S, nb):
    """nb boundaries on the grid: 0 = B0 < B1 < ... (integer atoms), as lengths"""
    vals = [0]
    acc = 0
    for i in range(1, nb):
        step = S.int(f'Bstep{i}', 1, 4 * 10 ** 11)
        acc = acc + step
        vals.append(acc)
    if S.mode == 'sym':
        return [(v / GRID) if isinstance(v, Sym) else Sym(core.C(0)) for v in vals], vals
    return [v / GRID for v in vals], vals


def loop_body(S, cfg):
    """one iteration of the while loop of _setup_zpts from an arbitrary state that
    satisfies the invariant (z_last on the grid, 0 <= z_last < L)"""
    from dassh import reactor
    nb = cfg['n_bounds']
    r = _reactor(S)
    bl, bi = _grid_bounds(S, nb)
    r.axial_bnds = np.array(bl, dtype=object if S.mode == 'sym' else float)
    r.core_length = r.axial_bnds[-1]
    if cfg.get('req') == 'grid':
        # the normal case: a multiple of 1e-6 m (floor to 1e-6), at least one such unit
        k = S.int('req_k', 1, 10 ** 4)
        req = k * Sym(core.C(1)) / 10 ** 6 if S.mode == 'sym' else k / 10 ** 6
    else:
        # a user-requested step: any real >= one grid unit (the precondition the call site must establish)
        extra = S.nonneg('req_extra', 0.0, 1e-3)
        req = extra + (Sym(core.C(1)) / GRID if S.mode == 'sym' else 1 / GRID)
    r.req_dz = req
    Z = S.int('Zlast', 0, 10 ** 11)
    z_last = Z * Sym(core.C(1)) / GRID if S.mode == 'sym' else Z / GRID
    S.assume(z_last < r.core_length, 'loop guard')
    cut = loopcut.Cut(reactor.Reactor._setup_zpts, 0)
    S.note(f'loop cut from source: `{cut.source.splitlines()[0]}`; assigned in body: {cut.assigned}; '
           f'read: {cut.read}; havocked state: z[-1] (grid point below L), dz (empty)')
    env = {'self': r, 'z': [z_last], 'dz': []}
    S.holds('loop.guard_holds', bool(cut.run_test(env)) if S.mode != 'sym' else (z_last < r.core_length))
    cut.run_body(env)
    z_new, dz_ret = env['z'][-1], env['dz'][-1]
    S.holds('mesh.lists_grow_by_one', len(env['z']) == 2 and len(env['dz']) == 1)
    S.lt('mesh.progress', z_last, z_new)
    S.le('mesh.variant_decreases (>= 1 grid unit)', z_last + 1 / GRID if S.mode != 'sym' else z_last + Sym(core.C(1)) / GRID, z_new)
    for i in range(nb):
        b = r.axial_bnds[i]
        if S.mode == 'sym':
            S.holds(f'mesh.no_skip[{i}]', ~(z_last < b) | (z_new <= b))
        else:
            S.holds(f'mesh.no_skip[{i}]', (not z_last < b) or z_new <= b + 1e-18)
    S.le('mesh.step_le_req', dz_ret, req)
    S.lt('mesh.step_positive', 0, dz_ret)
    half = (Sym(core.C(1)) / (2 * GRID)) if S.mode == 'sym' else 0.5 / GRID
    S.le('mesh.plane_matches_step.hi', z_new - z_last - dz_ret, half)
    S.le('mesh.plane_matches_step.lo', -half, z_new - z_last - dz_ret)
    S.le('mesh.never_beyond_L', z_new, r.core_length)
    if S.mode == 'sym':
        # on the grid: z_new * 1e12 is the integer atom introduced by np.around
        zn = z_new * GRID
        S.holds('mesh.on_grid', _is_int_valued(zn))
    S.holds('canary.step_always_req', dz_ret == req, canary=True)
loop_body.cname = 'Reactor._setup_zpts/loop-body'
loop_body.run_kw = dict(max_paths=400, budget_ms=8000)


def _is_int_valued(x):
    return core.int_valued(x.n)


def _is_int_valued_old(x):
    """x is syntactically an integer combination of integer atoms (after normalisation)"""
    from pvc import normal
    fr = normal.convert(x.n)
    tab = core.CTX.__dict__.get('_vname', {})
    if fr.c != 1 or fr.m or fr.f:
        return False
    for m, c in fr.n.items():
        for v, e in m:
            nm = tab.get(v, '')
            if not nm.startswith('v_') or core.CTX.atoms[nm[2:]]['kind'] != 'int':
                return False
    return True


def loop_prefix(S, cfg):
    """the state before the first iteration satisfies the invariant, and the loop test is
    exactly 'last plane below the core length'"""
    from dassh import reactor
    r = _reactor(S)
    bl, bi = _grid_bounds(S, 3)
    r.axial_bnds = np.array(bl, dtype=object if S.mode == 'sym' else float)
    r.core_length = r.axial_bnds[-1]
    r.req_dz = r.core_length * 2          # one step reaches the end: the real function can be run to completion
    z, dz = reactor.Reactor._setup_zpts(r)
    S.eq('mesh.starts_at_zero', z[0], 0)
    S.eq('mesh.ends_at_L', z[-1], r.core_length)
    S.holds('mesh.boundaries_are_planes', len(z) == 3 and len(dz) == 2)
    S.eq('mesh.planes', z, r.axial_bnds)
    S.eq('canary.single_step', z[1], r.core_length, canary=True)
loop_prefix.cname = 'Reactor._setup_zpts/whole (one step per boundary)'


def mesh_req(S, cfg):
    r = _reactor(S)
    m1 = S.pos('min_dz_a', 1e-7, 5e-2)
    m2 = S.pos('min_dz_b', 1e-7, 5e-2)
    r.min_dz = {'dz': [m1, m2]}
    user = cfg['user']
    u = None
    if user == 'given':
        u = S.nonneg('user_dz', 0.0, 5e-2)
    r._options = {'axial_mesh_size': u}
    from dassh import reactor
    reactor.Reactor._setup_overall_axial_mesh_req(r)
    req = r.req_dz
    S.le('req.le_limit[a]', req, m1)
    S.le('req.le_limit[b]', req, m2)
    if u is not None:
        S.le('req.le_user', req, u)
    # exactly: L = the smallest limit rounded down to the micrometre; a request <= L is honoured as it stands (also one
    # above 1 cm: the accuracy cap applies to the unrequested step only); a larger request is ignored, i.e. the step is
    # what it would be without a request: min(L, 1 cm)
    mn = m1 if m1 <= m2 else m2
    if S.mode == 'sym':
        from pvc.npshim import NpShim
        L = NpShim().floor(mn * 1e6) / 1e6
    else:
        L = np.floor(mn * 1e6) / 1e6
    unrequested = L if L <= 0.01 else 0.01
    if u is not None:
        if u <= L:
            S.eq('req.smaller_request_honoured', req, u)
        else:
            S.eq('req.larger_request_ignored', req, unrequested)
    else:
        S.eq('req.without_request', req, unrequested)
        S.le('req.cap_1cm', req, 0.01)
    # what _setup_zpts needs from its call site: at least one grid unit
    S.le('req.positive_at_call_site', 1 / GRID if S.mode != 'sym' else Sym(core.C(1)) / GRID, req)
    S.le('canary.req_is_limit', m1, req, canary=True)
mesh_req.cname = 'Reactor._setup_overall_axial_mesh_req'
mesh_req.run_kw = dict(budget_ms=8000)


class _Inp:
    def __init__(self, data):
        self.data = data


def region_bnds(S, cfg):
    r = _reactor(S)
    L = S.pos('L', 1.0, 4.0)
    a = S.pos('b1', 0.1, 0.9)
    b = S.pos('b2', 0.1, 0.9)
    r.power = {}
    pw = []
    if cfg.get('power'):
        # user power of two assemblies with DIFFERENT axial power cells (bounds in cm, as power._from_file stores them)
        dt = object if S.mode == 'sym' else float
        p1 = S.pos('p1', 0.1, 0.9)
        p2 = S.pos('p2', 0.1, 0.9)
        S.assume(p1 < L, 'power cell bound below core top')
        S.assume(p2 < L, 'power cell bound below core top')
        pw = [('p1', p1), ('p2', p2)]
        r.power['user'] = [(1, {'zfm': np.array([0, p1 * 100, L * 100], dtype=dt)}),
                           (2, {'zfm': np.array([0, p2 * 100, L * 100], dtype=dt)})]
    r._options = {'axial_plane': [b] if cfg.get('plane') else None}
    inp = _Inp({'Assembly': {'fuel': {'AxialRegion': {'lower': {'z_lo': 0.0, 'z_hi': a},
                                                       'rods': {'z_lo': a, 'z_hi': L}}}}})
    S.assume(a < L, 'region below core top')
    S.assume(b < L, 'plane below core top')
    from dassh import reactor
    reactor.Reactor._setup_axial_region_bnds(r, inp)
    bn = r.axial_bnds
    for i in range(len(bn) - 1):
        S.lt(f'bnds.strictly_increasing[{i}]', bn[i], bn[i + 1])
    S.eq('bnds.first_is_zero', bn[0], 0)
    S.eq('bnds.core_length_is_last', r.core_length, bn[-1])
    half = 0.5 / GRID if S.mode != 'sym' else Sym(core.C(1)) / (2 * GRID)
    S.le('bnds.core_length_is_rounded_L.hi', r.core_length - L, half)
    S.le('bnds.core_length_is_rounded_L.lo', -half, r.core_length - L)
    if S.mode == 'sym':
        for i in range(len(bn)):
            S.holds(f'bnds.on_grid[{i}]', _is_int_valued(bn[i] * GRID) if isinstance(bn[i], Sym) else True)
        # every input boundary is present after rounding
        for nm, v in (('a', a),) + ((('b', b),) if cfg.get('plane') else ()) + tuple(pw):
            ok = None
            for x in bn:
                t = ((x - v) <= half) & ((v - x) <= half)
                ok = t if ok is None else (ok | t)
            S.holds(f'bnds.contains_rounded[{nm}]', ok)
    S.holds('canary.bnds_two_entries', len(bn) == 2, canary=True)
region_bnds.cname = 'Reactor._setup_axial_region_bnds'
region_bnds.run_kw = dict(max_paths=400, budget_ms=8000)


def configs(tier):
    out = [(loop_body, dict(n_bounds=2, req='grid')), (loop_body, dict(n_bounds=3, req='grid')),
           (loop_body, dict(n_bounds=3, req='user')),
           (loop_prefix, dict()),
           (mesh_req, dict(user='none')), (mesh_req, dict(user='given')),
           (region_bnds, dict(plane=False)), (region_bnds, dict(plane=True)), (region_bnds, dict(plane=False, power=True))]
    # the list of per-assembly requirements the smallest is taken from: one entry per assembly, computed from THAT
    # assembly (its own power / estimated outlet temperature) - the contract C06 proves on _setup_asm_axial_mesh_req
    from . import c06
    out += [c for c in c06.configs(tier) if c[0] is c06.mesh_req_independent]
    # ... and each assembly's requirement is the smallest of its regions' limits, every region asked at the inlet AND
    # the estimated outlet temperature (C04's contract on assembly.calculate_min_dz, shared)
    from . import c04
    out += [(c04.aggregate, dict())]
    if tier == 'thorough':
        out += [(loop_body, dict(n_bounds=4, req='user')), (loop_body, dict(n_bounds=5, req='grid'))]
    return out
