"""C06 - assemblies interact only through duct-wall heat transfer.

Ownership contract on the clone methods, decided statically over the AST of the real
sources (pvc.frames.Ownership):
  S(class) = attributes of a clone that still reference the template's objects
  M(class) = attributes whose OBJECT is modified in place by the methods the sweep calls
  obligation  clone.fresh[class]:  S ∩ M = ∅
plus the frame facts that make the adiabatic case independent of the rest of the core.
Bounded supplement: metamorphic run-time contracts on generated cores (an assembly
alone vs. in company, reordered assignment, temperature-dependent coolant).
"""
from __future__ import annotations
import ast
import os
import shutil
import sys
import tempfile
import time
import numpy as np
from .common import patched as common_patched

MODULES = ['dassh.reactor']
PROPERTY = 'C06'
FUNCTIONS = ['dassh.assembly:Assembly.clone', 'dassh.region_rodded:RoddedRegion.clone',
             'dassh.region_unrodded:SingleNodeHomogeneous.clone', 'dassh.region_unrodded:MultiNodeHomogeneous.clone',
             'dassh.region_unrodded:_RREquivalent.clone', 'dassh.material:Material.clone',
             'sweep methods of the region classes (modifies-sets)',
             'dassh.reactor:Reactor._calculate_asm_temperatures (adiabatic arguments)',
             'dassh.reactor:Reactor._setup_asm_axial_mesh_req (per-assembly decisions)']
ASSUMPTIONS = ['ownership analysis is attribute-level (first attribute below self) and syntactic: an attribute is fresh in '
               'the clone when the clone method (or a method it calls on the clone) assigns it a value that is not an alias '
               'of self.<attr>; it is mutated when a sweep method stores below it, calls a mutator on it, or calls on it a '
               'dassh method that assigns attributes of its own object',
               'objects reachable from shared attributes that are only READ by the sweep (pin lattice, subchannel maps, '
               'geometry tables, correlation functions) may be shared']
NOT_DECIDED = ['the numerical size of any cross-talk', 'bitwise identity with a stand-alone run beyond the bounded examples']
BOUNDED = ['metamorphic run-time contracts on generated adiabatic cores (alone vs. seven, reordered, six-node regions, '
           'temperature-dependent sodium) - listed problems only']

SWEEP = {
    'RoddedRegion': ['calculate', 'activate', 'calculate_pressure_drop', 'calculate_pin_temperatures', '_calc_duct_temp',
                     '_init_static_correlated_params', '_update_coolant_int_params', '_update_coolant_byp_params'],
    'SingleNodeHomogeneous': ['calculate', 'activate', 'calculate_pressure_drop', '_calc_duct_temp',
                              '_init_static_correlated_params', '_update_coolant_params'],
    'MultiNodeHomogeneous': ['calculate', 'activate', 'calculate_pressure_drop', '_calc_duct_temp',
                             '_init_static_correlated_params', '_update_coolant_params'],
    '_RREquivalent': ['_update_coolant_int_params', '_init_static_correlated_params'],
    'Assembly': ['calculate', 'update_region', 'step0', 'check_region_update'],
}


# ---------------------------------------------------------------------------------------
# Reactor set-up decisions taken per assembly must not depend on the other assemblies
class _RegFlag:
    def __init__(self):
        self._conv_approx = False


class _AsmStub:
    def __init__(self, i, rodded, n_reg=2):
        self.id = i
        self.has_rodded = rodded
        self.region = [_RegFlag() for _ in range(n_reg)]
        self._estimated_T_out = 700.0


def mesh_req_independent(S, cfg):
    """Reactor._setup_asm_axial_mesh_req: whether an assembly switches to the low-flow wall approximation, and the
    step requirement recorded for it, are functions of that assembly's own step limit and limiting cell only"""
    from dassh import reactor, assembly as A
    import dassh
    r = reactor.Reactor.__new__(reactor.Reactor)
    dassh.logged_class.LoggedClass.__init__(r, 0, 'dassh.Reactor')
    codes = cfg['codes']                # limiting subchannel code per assembly (first call)
    rodded = cfg.get('rodded', [True] * len(codes))
    n = len(codes)
    r.assemblies = [_AsmStub(i, rodded[i]) for i in range(n)]
    r.inlet_temp = 600.0
    r._is_adiabatic = False
    cutoff = S.pos('cutoff', 1e-4, 1e-2)
    r._options = {'conv_approx': cfg.get('option', True), 'conv_approx_dz_cutoff': cutoff}
    first = [S.pos(f'dz_first[{i}]', 1e-5, 1e-1) for i in range(n)]
    second = [S.pos(f'dz_approx[{i}]', 1e-5, 1e-1) for i in range(n)]
    calls = {}

    def min_dz(asm, t1, t2, adiabatic):
        k = calls.get(asm.id, 0)
        calls[asm.id] = k + 1
        approx = all(reg._conv_approx for reg in asm.region)
        return (second[asm.id] if approx else first[asm.id]), (codes[asm.id] if not approx else '1-111')
    r.log = lambda *a, **k: None
    with common_patched((A, 'calculate_min_dz', min_dz)):
        r._setup_asm_axial_mesh_req()
    sym = S.mode == 'sym'
    for i in range(n):
        eligible = cfg.get('option', True) and ((codes[i][0] in '2367') if rodded[i] else True)
        used = all(reg._conv_approx for reg in r.assemblies[i].region)
        none_used = not any(reg._conv_approx for reg in r.assemblies[i].region)
        below = first[i] < cutoff
        if not eligible:
            S.holds(f'req.approximation_only_when_eligible[{i}]', none_used)
            S.eq(f'req.recorded_limit[{i}]', r.min_dz['dz'][i], first[i])
        else:
            # used iff this assembly's own limit is below the cut-off
            if sym:
                S.holds(f'req.approximation_iff_own_limit_below_cutoff[{i}]', (below & used) | ((~below) & none_used)
                        if not isinstance(below, bool) else (used if below else none_used))
            else:
                S.holds(f'req.approximation_iff_own_limit_below_cutoff[{i}]', bool(used if below else none_used))
            S.eq(f'req.recorded_limit[{i}]', r.min_dz['dz'][i], second[i] if used else first[i])
    S.holds('req.one_entry_per_assembly', len(r.min_dz['dz']) == n and len(r.min_dz['sc']) == n)
    S.holds('canary.req_everyone_approximated', all(all(reg._conv_approx for reg in a.region) for a in r.assemblies),
            canary=True)


mesh_req_independent.cname = 'Reactor._setup_asm_axial_mesh_req'
mesh_req_independent.run_kw = dict(max_paths=200, check_div=False)


def step_per_assembly(S, cfg):
    """the real Reactor.axial_step with recording assemblies and core (adiabatic: no gap model): every assembly is
    advanced exactly once with this step's (z, dz) and ITS OWN index, and it enters its next axial region iff ITS OWN
    check_region_update says so for the next plane - whatever the other assemblies do at that plane, and with its own
    gap boundary condition."""
    from dassh import reactor
    want_update = cfg['update']                 # per assembly: does it change region at the next plane
    n = len(want_update)
    log = []

    class Asm:
        def __init__(self, i):
            self.i = i

        def check_region_update(self, z):
            log.append(('check', self.i, z))
            return want_update[self.i]

        def update_region(self, z, t_gap, h_gap, adiabatic):
            log.append(('update', self.i, z, t_gap, h_gap, adiabatic))

    class Core:
        model = None

        def adjacent_coolant_gap_temp(self, i):
            return ('gap_temp_of', i)

        def adjacent_coolant_gap_htc(self, i):
            return ('gap_htc_of', i)
    r = reactor.Reactor.__new__(reactor.Reactor)
    r.assemblies = [Asm(i) for i in range(n)]
    r.core = Core()
    r._is_adiabatic = True
    z0 = S.pos('z', 0.1, 1.0)
    dz = S.pos('dz', 0.001, 0.01)
    r.z = np.array([0 * z0, z0, z0 + dz], dtype=object if S.mode == 'sym' else float)
    r._determine_whether_to_dump_data = lambda z, dz: False
    r._calculate_asm_temperatures = lambda asm, ai, z, dz, dump: log.append(('advance', asm.i, ai, z, dz))
    r.axial_step(z0, dz, 1)
    for i in range(n):
        adv = [e for e in log if e[0] == 'advance' and e[1] == i]
        S.holds(f'step.advanced_once[{i}]', len(adv) == 1 and adv[0][2] == i)
        if len(adv) == 1:
            S.eq(f'step.advanced_with_this_step[{i}]', [adv[0][3], adv[0][4]], [z0, dz])
        upd = [e for e in log if e[0] == 'update' and e[1] == i]
        S.holds(f'step.region_change_is_the_assembly_s_own_decision[{i}]', len(upd) == (1 if want_update[i] else 0))
        if upd:
            S.eq(f'step.region_change_at_next_plane[{i}]', upd[0][2], z0 + dz)
            S.holds(f'step.region_change_with_own_gap_condition[{i}]',
                    upd[0][3] == ('gap_temp_of', i) and upd[0][4] == ('gap_htc_of', i) and upd[0][5] is True)
    S.holds('canary.step_everyone_changes_region', sum(1 for e in log if e[0] == 'update') == n, canary=True)


step_per_assembly.cname = 'Reactor.axial_step/per-assembly'
step_per_assembly.run_kw = dict(check_div=False)


def configs(tier):
    return [(mesh_req_independent, dict(codes=['3-22', '1-111', '2-122'])),
            (mesh_req_independent, dict(codes=['6-66', '1-111', '7-66', '1-112'], rodded=[True, True, False, False])),
            (mesh_req_independent, dict(codes=['3-22', '2-122'], option=False)),
            (step_per_assembly, dict(update=[False, True, False])), (step_per_assembly, dict(update=[True, False, True])),
            (step_per_assembly, dict(update=[False, False, True, True]))]


def _repo():
    return os.environ.get('DASSH_REPO', '/repo')


def _samples():
    """live objects for the analyser's run-time type probe (which `.update(T)` receivers are dassh Materials)"""
    import tempfile, shutil
    sys.path.insert(0, _repo())
    from pvc import geninput as G
    wd = tempfile.mkdtemp(prefix='c06s_')
    out = {}
    try:
        for pm in ('fuel', 'pin'):
            try:
                r = G.build(G.write_problem(os.path.join(wd, pm), asms={'a1': dict(pin_model=pm)}))[1]
                rr = r.assemblies[0].rodded
                out.setdefault('RoddedRegion', rr)
                out.setdefault('Assembly', r.assemblies[0])
                if pm == 'fuel':
                    out['PinModel'] = rr.pin_model
            except BaseException:
                pass
    finally:
        shutil.rmtree(wd, ignore_errors=True)
    return out


def static_ownership():
    from pvc import frames
    ow = frames.Ownership(_repo(), samples=_samples())
    out = []
    for cls, entry in SWEEP.items():
        S, F = ow.clone_shared(cls)
        if S is None:
            out.append((f'clone.fresh[{cls}]', 'undecided', f'{cls}.clone not found or has no copy.copy(self)'))
            continue
        M = ow.mutated_in_place(cls, entry)
        if cls == '_RREquivalent':
            keep = _attr_to_keep(ow)
            if keep:
                S = S & keep
        bad = sorted(set(S) & set(M))
        # attributes clone() copies only one level deep, with nested containers the sweep changes in place
        nested = ow.nested_stores(cls, entry)
        for attr, fresh_keys in ow.shallow.get(cls, {}).items():
            keys = nested.get(attr, set()) - fresh_keys
            if keys:
                out.append((f'clone.fresh[{cls}].{attr}', 'refuted',
                            f'{cls}.clone() copies attribute {attr!r} one level deep only; the sweep stores in place below '
                            f'its nested entries {sorted(map(str, keys))}, which stay shared with the template'))
        if bad:
            for a in bad:
                out.append((f'clone.fresh[{cls}].{a}', 'refuted',
                            f'{cls}.clone() leaves attribute {a!r} shared with the template, and the sweep modifies '
                            f'that object in place: {M[a][:3]}'))
        else:
            out.append((f'clone.fresh[{cls}]', 'proved',
                        f'shared-but-read-only attributes: {len(S)}; fresh: {sorted(F)}; mutated in place: {sorted(M)}'))
    # Material.clone: every state-carrying attribute is fresh or rebound by update()
    S, F = ow.clone_shared('Material')
    if S is None:
        out.append(('clone.fresh[Material]', 'undecided', 'Material.clone not found'))
    else:
        needed = {'_data', '_temperature'}
        ok = needed <= set(F)
        out.append(('clone.fresh[Material]', 'proved' if ok else 'refuted',
                    f'fresh: {sorted(F)} (property values are rebound by update(), never modified in place)'))
    # Assembly.clone builds its region list from region clones
    node = ow._method('Assembly', 'clone')
    src = ast.unparse(node) if node else ''
    ok = '.clone(' in src and 'clone.region = new_regs' in src.replace('  ', ' ')
    out.append(('clone.regions_are_region_clones[Assembly]', 'proved' if ok else 'refuted',
                'Assembly.clone assigns clone.region a list of self.region[i].clone(...)'))
    # no module-level mutable state written by the sweep
    from pvc.frames import Registry
    globals_written = []
    for q, (mod, cls, fn) in ow.reg.funcs.items():
        if mod.split('.')[-1] not in ('region_rodded', 'region_unrodded', 'region', 'assembly', 'material', 'pin_model'):
            continue
        for n in ast.walk(fn):
            if isinstance(n, ast.Global):
                globals_written.append(f'{q}: global {n.names}')
    out.append(('sweep.no_module_state', 'proved' if not globals_written else 'refuted', '; '.join(globals_written)))
    return out


def _attr_to_keep(ow):
    for q, (mod, cls, fn) in ow.reg.funcs.items():
        pass
    import re
    try:
        txt = open(os.path.join(_repo(), 'dassh', 'region_unrodded.py')).read()
        m = re.search(r'_attr_to_keep = \[(.*?)\]', txt, re.S)
        return set(re.findall(r"'([^']+)'", m.group(1)))
    except Exception:
        return None


# ---------------------------------------------------------------------------------------
def _run(wd, name, asms, positions, coolant='sodium', gap='none', extra=''):
    from pvc import geninput as G
    p = G.write_problem(os.path.join(wd, name), asms=asms, positions=positions, gap_model=gap,
                        setup_extra='    axial_mesh_size = 0.004\n' + extra)
    txt = open(p).read().replace('coolant_material   = sodium_fixed', 'coolant_material   = ' + coolant)
    open(p, 'w').write(txt)
    return G.build(p, sweep=True)[1]


def _state(a):
    out = [a.temp_coolant.copy(), a.temp_duct_mw.copy(), np.array([a.pressure_drop])]
    if a.temp_bypass is not None:
        out.append(a.temp_bypass.copy())
    # the assembly's own bookkeeping: peaks (value, height) and delivered power
    out.append(np.array(a._peak['cool'], dtype=float))
    out.append(np.array(a._peak['duct'], dtype=float).ravel())
    out.append(np.array([a._power_delivered[k] for k in sorted(a._power_delivered)], dtype=float))
    if a.has_rodded and getattr(a.rodded, 'pin_model', None) is not None:
        out.append(np.array(a.rodded.pin_temps, dtype=float).copy())
        for k in sorted(a._peak.get('pin', {})):
            out.append(np.array([a._peak['pin'][k][0]] + list(a._peak['pin'][k][2]), dtype=float))
    return out


def metamorphic(case):
    sys.path.insert(0, _repo())
    wd = tempfile.mkdtemp(prefix='c06_')
    try:
        # type b is slightly smaller than a1, so a1's duct is the same with and without b in the core
        asms = {'a1': dict(), 'b': dict(n_ring=3, pitch=0.0024, dpin=0.0019, wire=0.0002)}
        if case == 'sixnode':
            asms = {'a1': dict(unrodded=[('lower', 0.0, 0.3, '6node'), ('upper', 0.8, 1.0, 'simple')])}
        if case == 'double_duct':
            asms = {'a1': dict(n_duct=2)}
        if case in ('fuel_model', 'pin_model'):
            # the pin model object (and its fuel / clad materials) is shared by all assemblies of the type
            asms = {'a1': dict(pin_model=case.split('_')[0])}
        extra = '    param_update_tol = 0.01\n' if case == 'param_update_tol' else ''
        alone = _run(wd, 'alone', {'a1': asms['a1']}, [('a1', 1, 1, 0.06)], extra=extra)
        others = [('a1', 2, k, 0.2 + 0.07 * k) for k in range(1, 7)]
        if case != 'mixed':
            asms = {'a1': asms['a1']}
        if case == 'mixed':
            others = [('b' if k % 2 else 'a1', 2, k, 0.2 + 0.07 * k) for k in range(1, 7)]
        seven = _run(wd, 'seven', asms, [('a1', 1, 1, 0.06)] + others, extra=extra)
        s1, s7 = _state(alone.assemblies[0]), _state(seven.assemblies[0])
        same_planes = np.array_equal(alone.z, seven.z)
        ok = same_planes and all(np.array_equal(x, y) for x, y in zip(s1, s7))
        d = '' if ok else ('planes differ' if not same_planes else
                           'max |dT| = %.3e, dp %s vs %s' % (float(np.max(np.abs(s1[0] - s7[0]))), s1[2], s7[2]))
        res = {'alone_equals_in_company': (ok, d)}
        # reordering the assignment list of the others
        seven_r = _run(wd, 'seven_r', asms, [('a1', 1, 1, 0.06)] + others[::-1], extra=extra)
        # position k of the reversed list carries flow of position 7-k: compare the centre assembly only
        s7r = _state(seven_r.assemblies[0])
        ok2 = all(np.array_equal(x, y) for x, y in zip(s7, s7r))
        res['order_independent'] = (ok2, '' if ok2 else 'centre assembly changes when the other assemblies are reordered')
        return case, res
    except BaseException as e:
        return case, {'runs': (False, f'{type(e).__name__}: {e}')}
    finally:
        shutil.rmtree(wd, ignore_errors=True)


CASES = ['same_type', 'mixed', 'sixnode', 'double_duct', 'param_update_tol', 'fuel_model', 'pin_model']


def extra_checks(tier, seed):
    import multiprocessing as mp
    t0 = time.time()
    results = []
    for name, status, detail in static_ownership():
        results.append(dict(name=name, status=status, backend='ownership-analyser', seconds=0.0, detail=detail,
                            sample=name.endswith('[RoddedRegion]'),
                            witness=dict(values=dict(obligation=name)),
                            replay=dict(reproduced=False, point=dict(values=dict(obligation=name)), native=detail)))
    with mp.get_context('fork').Pool(4) as pool:
        dyn = pool.map(metamorphic, CASES)
    dyn_bad = []
    for case, r in dyn:
        for k, (ok, d) in r.items():
            if not ok:
                dyn_bad.append(f'{case}: {k}: {d}')
            results.append(dict(name=f'runtime.{k}[{case}]', status='proved' if ok else 'refuted',
                                backend='bounded:run-time contract', seconds=0.0, detail=d,
                                witness=dict(values=dict(case=case)), sample=(case == 'same_type'),
                                replay=dict(reproduced=not ok, point=dict(values=dict(case=case)), native=d)))
    # a static finding is replayed by the metamorphic run-time contracts
    for r in results:
        if r['backend'] == 'ownership-analyser' and r['status'] == 'refuted':
            r['replay']['reproduced'] = bool(dyn_bad)
            r['replay']['native'] = ' | '.join(dyn_bad)[:600]
            r['detail'] += '  ||  run-time contracts: ' + ' | '.join(dyn_bad)[:400]
    secs = time.time() - t0
    for r in results:
        r['seconds'] = secs / len(results)
    return [dict(name='ownership analysis + metamorphic run-time contracts', results=results,
                 notes=['BOUNDED: runtime.* obligations are metamorphic run-time contracts on generated adiabatic cores'])]


def replay(doc):
    w = (doc.get('witness') or {}).get('values') or {}
    cases = [w['case']] if w.get('case') in CASES else CASES
    bad = 0
    for c in cases:
        _, r = metamorphic(c)
        for k, (ok, d) in r.items():
            if not ok:
                bad += 1
                print(f'replay: {c}: {k}: {d}')
    print('REPRODUCED' if bad else 'not reproduced')
    return 1 if bad else 0
