"""C07 - solutions are equivariant under the hexagonal symmetries.

Deductive part (all real temperatures, powers, film coefficients, properties, dimensions; per
ring count / duct count): the real RoddedRegion.calculate is executed on a symbolic state X and,
on a second region with identical parameters, on the transformed state g.X; post-condition:
result(g.X) = g.result(X), for the generators of the symmetry group
    g = rotation by 60 degrees,      g = mirror (with the wire-wrap direction reversed).
The cell permutations are derived from the published centroid coordinates (Subchannel.xy,
PinLattice.xy), not from the adjacency tables under test.  The six-node unrodded region is
covered in the same way (rotation / mirror of its six nodes and duct cells).
Bounded part: metamorphic run-time contracts on generated problems - an assembly with a
rotated / mirrored power map, and whole 7- and 19-position cores rotated by 60 degrees
(types, flows, powers and each assembly's own power map), all gap models.
"""
from __future__ import annotations
import math
import numpy as np
from . import common
from .common import make_rodded, set_int_params, set_temps, make_unrodded, patched
from pvc import core
from pvc.core import Sym

MODULES = common.RR_MODULES + common.UR_MODULES
PROPERTY = 'C07'
LEAN_LEMMAS = ['equivariant_comp', 'equivariant_iterate']        # /verif/lean/Ghost.lean, checked in the thorough tier
FUNCTIONS = ['dassh.region_rodded:RoddedRegion.calculate (with _calc_coolant_int_temp, _calc_duct_temp, _calc_coolant_byp_temp, '
             '_calc_int_sc_power and the index tables of Subchannel / PinLattice they read)',
             'dassh.region_unrodded:MultiNodeHomogeneous.calculate',
             'dassh.subchannel:Subchannel / dassh.pin:PinLattice / dassh.core:Core index maps (run-time contracts)']
ASSUMPTIONS = ['the permutations are computed from the centroid coordinates of nominal-dimension instances of the real '
               'Subchannel / PinLattice classes (the tables do not depend on the dimensions: C08)',
               'equivariance under the two generators implies equivariance under the whole group (composition)',
               'correlation outputs are type-wise constants (positive atoms), hence invariant']
NOT_DECIDED = ['ring counts beyond the enumerated ones symbolically (bounded run-time contracts cover 2..8)',
               'whole-core equivariance symbolically (bounded run-time contracts on 7 / 19 positions)']
BOUNDED = ['runtime.* : metamorphic run-time contracts on generated problems (listed in the evidence)']


def _rot(xy, k):
    a = -k * math.pi / 3          # clockwise numbering: a clockwise turn by 60 degrees
    c, s = math.cos(a), math.sin(a)
    return np.column_stack((c * xy[:, 0] - s * xy[:, 1], s * xy[:, 0] + c * xy[:, 1]))


def _mirror(xy):
    return np.column_stack((-xy[:, 0], xy[:, 1]))


def perm_from_xy(xy, transform):
    """pi with transform(xy[i]) == xy[pi[i]] (bijection, tolerance 1e-9 of the coordinate scale)"""
    xy = np.asarray(xy, dtype=float)
    t = _mirror(xy) if transform == 'mirror' else _rot(xy, 1)
    scale = float(np.max(np.abs(xy))) or 1.0
    pi = []
    for i in range(len(xy)):
        d = np.hypot(xy[:, 0] - t[i, 0], xy[:, 1] - t[i, 1])
        j = int(np.argmin(d))
        if d[j] > 1e-7 * scale:
            raise ValueError(f'no image for cell {i} under {transform}: distance {d[j]:.3e}')
        pi.append(j)
    if sorted(pi) != list(range(len(xy))):
        raise ValueError('coordinate map is not a bijection')
    return pi


def _perms(rr, transform):
    sc = rr.subchannel
    nsc = sc.n_sc['coolant']['total']
    nd = sc.n_sc['duct']['total']
    xy = np.asarray(sc.xy, dtype=float)
    p_cool = perm_from_xy(xy[:nsc], transform)
    p_duct = perm_from_xy(xy[nsc:nsc + nd], transform)
    p_pin = perm_from_xy(np.asarray(rr.pin_lattice.xy, dtype=float), transform)
    return p_cool, p_duct, p_pin


def _apply(arr, pi, axis=-1):
    """field on the transformed problem: value of cell i goes to cell pi[i]"""
    arr = np.asarray(arr, dtype=object if getattr(arr, 'dtype', None) == object else None)
    out = arr.copy()
    idx = [slice(None)] * arr.ndim
    for i, j in enumerate(pi):
        src = list(idx)
        dst = list(idx)
        src[axis] = i
        dst[axis] = j
        out[tuple(dst)] = arr[tuple(src)]
    return out


def rodded(S, cfg):
    n_ring, n_duct, transform = cfg['n_ring'], cfg.get('n_duct', 1), cfg['transform']
    wdir = cfg.get('wwdir', 'clockwise')
    other = {'clockwise': 'counterclockwise', 'counterclockwise': 'clockwise'}[wdir]
    rr1 = make_rodded(S, n_ring=n_ring, n_duct=n_duct, wwdir=wdir)
    rr2 = make_rodded(S, n_ring=n_ring, n_duct=n_duct, wwdir=other if transform == 'mirror' else wdir)
    set_int_params(S, rr1)
    set_temps(S, rr1)
    p_cool, p_duct, p_pin = _perms(rr1, transform)
    nsc = rr1.subchannel.n_sc['coolant']['total']
    nd = rr1.subchannel.n_sc['duct']['total']
    for k in ('htc', 'fs', 'eddy', 'swirl'):
        rr2.coolant_int_params[k] = rr1.coolant_int_params[k]
    rr2._conv_approx = rr1._conv_approx
    if rr1.n_bypass:
        rr2.coolant_byp_params['htc'] = rr1.coolant_byp_params['htc']
    rr2.temp['coolant_int'] = _apply(rr1.temp['coolant_int'], p_cool)
    rr2.temp['duct_mw'] = _apply(rr1.temp['duct_mw'], p_duct)
    rr2.temp['duct_surf'] = _apply(rr1.temp['duct_surf'], p_duct)
    if rr1.n_bypass:
        rr2.temp['coolant_byp'] = _apply(rr1.temp['coolant_byp'], p_duct)
    dz = S.pos('dz', 0.001, 0.02)
    q = {'pins': S.vec('qpin', rr1.n_pin, 'real', 0.0, 3e4), 'cool': S.vec('qcool', nsc, 'real', 0.0, 500.0),
         'duct': S.vec('qduct', n_duct * nd, 'real', 0.0, 5e3)}
    t_gap = S.vec('Tgap', nd, 'pos', 600.0, 900.0)
    h_gap = S.vec('hgap', nd, 'pos', 1e4, 1e5)
    qd = np.asarray(q['duct']).reshape(n_duct, nd)
    q2 = {'pins': _apply(q['pins'], p_pin), 'cool': _apply(q['cool'], p_cool),
          'duct': _apply(qd, p_duct).reshape(n_duct * nd)}
    adi = cfg.get('adiabatic', False)
    with patched((type(rr1), '_update_coolant_int_params', lambda self, *a, **k: None),
                 (type(rr1), '_update_coolant_byp_params', lambda self, *a, **k: None)):
        rr1.calculate(dz, q, t_gap, h_gap, adi, False)
        rr2.calculate(dz, q2, _apply(t_gap, p_duct), _apply(h_gap, p_duct), adi, False)
    block = (S.names('Tc', nsc) + S.names('Ts', (n_duct, 2, nd)) + S.names('Tmw', (n_duct, nd))
             + S.names('qpin', rr1.n_pin) + S.names('qcool', nsc) + S.names('qduct', n_duct * nd) + S.names('Tgap', nd)
             + (S.names('Tb', (rr1.n_bypass, nd)) if rr1.n_bypass else []))
    S.eq('equivariant.coolant', rr2.temp['coolant_int'], _apply(rr1.temp['coolant_int'], p_cool), block=block)
    S.eq('equivariant.duct_midwall', rr2.temp['duct_mw'], _apply(rr1.temp['duct_mw'], p_duct), block=block)
    S.eq('equivariant.duct_surfaces', rr2.temp['duct_surf'], _apply(rr1.temp['duct_surf'], p_duct), block=block)
    if rr1.n_bypass:
        S.eq('equivariant.bypass', rr2.temp['coolant_byp'], _apply(rr1.temp['coolant_byp'], p_duct), block=block)
    # pin power to subchannels
    S.eq('equivariant.pin_power_partition', rr2._calc_int_sc_power(q2['pins'], q2['cool']),
         _apply(rr1._calc_int_sc_power(q['pins'], q['cool']), p_cool), block=block)
    # pin temperatures: what the pin model is handed for pin g(p) of the transformed problem is what it is handed for pin p
    # of the original one (coolant temperature around the pin, film coefficient, power); the pin model itself treats
    # every pin alike (its contract: C13)
    if cfg.get('pins', True):
        class _Rec:
            htc_params = [0.023, 0.8, 0.8, 7.0]

            def calculate_temperatures(self, qp, Tc, htc, dzz):
                self.seen = (qp, Tc, htc)
                return np.zeros((len(qp), 6))
        for rr, qq in ((rr1, q['pins']), (rr2, q2['pins'])):
            rr.pin_model = _Rec()
            rr.pin_temps = np.array(np.zeros((rr.n_pin, 9)), dtype=object if S.mode == 'sym' else float)
            rr.coolant_int_params['Re'] = rr1.coolant_int_params.get('Re', 5e4)
            rr.corr['pin_nu'] = lambda cool, Re, par: 7.0
            rr.calculate_pin_temperatures(dz, qq)
        S.eq('equivariant.pin_coolant_temperature', rr2.pin_model.seen[1], _apply(rr1.pin_model.seen[1], p_pin), block=block)
        S.eq('equivariant.pin_power', rr2.pin_model.seen[0], _apply(rr1.pin_model.seen[0], p_pin), block=block)
        S.eq('equivariant.pin_ids_and_heights', rr2.pin_temps[:, :3], rr1.pin_temps[:, :3])
    # canary: without reversing the wire the mirrored problem is NOT the mirror image (and a rotation is not the identity)
    i0 = [i for i in range(nsc) if p_cool[i] != i][0]
    S.eq('canary.equivariant_is_invariant', rr2.temp['coolant_int'][i0], rr1.temp['coolant_int'][i0], block=block,
         canary=True)


rodded.cname = 'RoddedRegion.calculate'
rodded.run_kw = dict(check_div=False, budget_ms=8000)


def mirror_needs_wire_reversal(S, cfg):
    """negative control inside the contract: mirrored state with the SAME wire direction is not the mirror image
    (the swirl donor must change) - guards against a vacuous proof"""
    n_ring = cfg['n_ring']
    rr1 = make_rodded(S, n_ring=n_ring, n_duct=1, wwdir='clockwise')
    rr2 = make_rodded(S, n_ring=n_ring, n_duct=1, wwdir='clockwise')
    set_int_params(S, rr1)
    set_temps(S, rr1)
    p_cool, p_duct, p_pin = _perms(rr1, 'mirror')
    nsc = rr1.subchannel.n_sc['coolant']['total']
    nd = rr1.subchannel.n_sc['duct']['total']
    for k in ('htc', 'fs', 'eddy', 'swirl'):
        rr2.coolant_int_params[k] = rr1.coolant_int_params[k]
    rr2._conv_approx = rr1._conv_approx
    rr2.temp['coolant_int'] = _apply(rr1.temp['coolant_int'], p_cool)
    rr2.temp['duct_mw'] = _apply(rr1.temp['duct_mw'], p_duct)
    rr2.temp['duct_surf'] = _apply(rr1.temp['duct_surf'], p_duct)
    dz = S.pos('dz', 0.001, 0.02)
    d1 = rr1._calc_coolant_int_temp(dz, None, None)
    d2 = rr2._calc_coolant_int_temp(dz, None, None)
    n_int = rr1.subchannel.n_sc['coolant']['interior']
    S.eq('canary.mirror_without_wire_reversal', d2[n_int], _apply(d1, p_cool)[n_int], canary=True)
    S.eq('mirror.interior_cells_do_not_feel_the_wire_direction',
         d2[:rr1.subchannel.n_sc['coolant']['interior']],
         _apply(d1, p_cool)[:rr1.subchannel.n_sc['coolant']['interior']])


mirror_needs_wire_reversal.cname = 'RoddedRegion._calc_coolant_int_temp/mirror-control'
mirror_needs_wire_reversal.run_kw = dict(check_div=False)


def sixnode(S, cfg):
    transform = cfg['transform']
    ur1 = make_unrodded(S, model='6node')
    ur2 = make_unrodded(S, model='6node')
    # six nodes / duct cells, one per hex side; cell c sits at angle (top corner - ...): derive from calculate_xbnds order
    # (cells walk around the duct from the top corner): rotation shifts by one, mirror reverses
    if transform == 'rot60':
        pi = [(c + 1) % 6 for c in range(6)]
    else:
        pi = [(6 - c) % 6 for c in range(6)]
    ur1.temp['coolant_int'] = S.vec('Tc', 6, 'pos', 600.0, 900.0)
    ur1.temp['duct_mw'] = S.vec('Tmw', (1, 6), 'pos', 600.0, 900.0)
    ur1.temp['duct_surf'] = S.vec('Ts', (1, 2, 6), 'pos', 600.0, 900.0)
    htc = S.pos('htc', 1e4, 1e5)
    for ur in (ur1, ur2):
        ur.coolant_params['htc'] = htc
        ur._update_coolant_params = lambda *a, **k: None
    ur2.temp['coolant_int'] = _apply(ur1.temp['coolant_int'], pi)
    ur2.temp['duct_mw'] = _apply(ur1.temp['duct_mw'], pi)
    ur2.temp['duct_surf'] = _apply(ur1.temp['duct_surf'], pi)
    dz = S.pos('dz', 0.001, 0.02)
    q = {'refl': S.real('qrefl', 0.0, 1e4)}
    t_gap = S.vec('Tgap', 6, 'pos', 600.0, 900.0)
    h_gap = S.vec('hgap', 6, 'pos', 1e4, 1e5)
    ur1.calculate(dz, q, t_gap, h_gap, False, False)
    ur2.calculate(dz, q, _apply(t_gap, pi), _apply(h_gap, pi), False, False)
    block = S.names('Tc', 6) + S.names('Ts', (1, 2, 6)) + S.names('Tmw', (1, 6)) + ['qrefl'] + S.names('Tgap', 6)
    S.eq('equivariant.coolant', ur2.temp['coolant_int'], _apply(ur1.temp['coolant_int'], pi), block=block)
    S.eq('equivariant.duct_midwall', ur2.temp['duct_mw'], _apply(ur1.temp['duct_mw'], pi), block=block)
    S.eq('equivariant.duct_surfaces', ur2.temp['duct_surf'], _apply(ur1.temp['duct_surf'], pi), block=block)
    S.eq('canary.equivariant_is_invariant', ur2.temp['coolant_int'][1], ur1.temp['coolant_int'][1], block=block,
         canary=True)


sixnode.cname = 'MultiNodeHomogeneous.calculate'
sixnode.run_kw = dict(check_div=False)


def configs(tier):
    out = [(rodded, dict(n_ring=2, transform='rot60')), (rodded, dict(n_ring=2, transform='mirror')),
           (rodded, dict(n_ring=3, transform='rot60')), (rodded, dict(n_ring=3, transform='mirror')),
           (rodded, dict(n_ring=2, n_duct=2, transform='rot60')), (rodded, dict(n_ring=2, n_duct=2, transform='mirror')),
           (rodded, dict(n_ring=3, transform='mirror', wwdir='counterclockwise')),
           (mirror_needs_wire_reversal, dict(n_ring=3)),
           (sixnode, dict(transform='rot60')), (sixnode, dict(transform='mirror'))]
    if tier == 'thorough':
        out += [(rodded, dict(n_ring=4, transform='rot60')), (rodded, dict(n_ring=4, transform='mirror')),
                (rodded, dict(n_ring=3, n_duct=3, transform='rot60'))]
    return out


# ---------------------------------------------------------------------------------------
# bounded: metamorphic run-time contracts on generated problems
def _perm_sense(xy, sense, transform='rot60'):
    xy = np.asarray(xy, dtype=float)
    if transform == 'mirror':
        return perm_from_xy(xy, 'mirror')
    a = -sense * math.pi / 3
    c, s = math.cos(a), math.sin(a)
    t = np.column_stack((c * xy[:, 0] - s * xy[:, 1], s * xy[:, 0] + c * xy[:, 1]))
    scale = float(np.max(np.abs(xy))) or 1.0
    pi = []
    for i in range(len(xy)):
        d = np.hypot(xy[:, 0] - t[i, 0], xy[:, 1] - t[i, 1])
        j = int(np.argmin(d))
        if d[j] > 1e-7 * scale:
            raise ValueError('no image under the rotation')
        pi.append(j)
    return pi


def _asm_perms(asm, sense, transform):
    rr = asm.rodded
    sc = rr.subchannel
    nsc = sc.n_sc['coolant']['total']
    nd = sc.n_sc['duct']['total']
    xy = np.asarray(sc.xy, dtype=float)
    return dict(cool=_perm_sense(xy[:nsc], sense, transform), duct=_perm_sense(xy[nsc:nsc + nd], sense, transform),
                pins=_perm_sense(np.asarray(rr.pin_lattice.xy, dtype=float), sense, transform), nd=nd, n_duct=rr.n_duct)


def _transform_csv(path, asm_map, perms_by_asm):
    """rewrite the user power file: assembly a -> asm_map[a], item i of a component -> its image"""
    rows = []
    for line in open(path):
        f = line.strip().split(',')
        a, comp, item = int(f[0]), int(f[1]), int(f[4])
        p = perms_by_asm[a]
        if comp == 1:
            it = p['pins'][item - 1] + 1
        elif comp == 3:
            it = p['cool'][item - 1] + 1
        else:
            d, c = divmod(item - 1, p['nd'])
            it = d * p['nd'] + p['duct'][c] + 1
        rows.append((asm_map[a], comp, float(f[2]), it, ','.join([str(asm_map[a]), f[1], f[2], f[3], str(it)] + f[5:])))
    rows.sort(key=lambda r: (r[0], r[1], r[2], r[3]))
    with open(path, 'w') as fh:
        fh.write('\n'.join(r[4] for r in rows) + '\n')


def _fields(asm):
    out = dict(cool=np.array(asm.temp_coolant), duct=np.array(asm.temp_duct_mw))
    return out


def _ring_positions(n_pos):
    out = [(1, 1)]
    r = 2
    while len(out) < n_pos:
        out += [(r, k) for k in range(1, 6 * (r - 1) + 1)]
        r += 1
    return out[:n_pos]


CASES = {
    'single_rot_r3': dict(kind='single', asm=dict(n_ring=3, pitch=0.0024, dpin=0.0019, wire=0.0002), transform='rot60'),
    'single_rot_r2_double_duct': dict(kind='single', asm=dict(n_duct=2), transform='rot60'),
    'single_mirror_r3': dict(kind='single', asm=dict(n_ring=3, pitch=0.0024, dpin=0.0019, wire=0.0002), transform='mirror'),
    'single_mirror_r4_cw': dict(kind='single', asm=dict(n_ring=4, pitch=0.0018, dpin=0.0014, wire=0.00015, wdir='clockwise'),
                                transform='mirror'),
    'single_rot_r6': dict(kind='single', asm=dict(n_ring=6, pitch=0.0012, dpin=0.0009, wire=0.0001), transform='rot60'),
    'single_rot_r3_double_duct_flowgap': dict(kind='single', asm=dict(n_ring=3, pitch=0.0024, dpin=0.0019, wire=0.0002, n_duct=2),
                                              transform='rot60', gap='flow'),
    'single_mirror_r2_double_duct_noflowgap': dict(kind='single', asm=dict(n_duct=2), transform='mirror', gap='no_flow'),
    'core7_flow': dict(kind='core', n_pos=7, gap='flow'),
    'core7_flow_double_duct': dict(kind='core', n_pos=7, gap='flow', double_duct=True),
    'core7_noflow': dict(kind='core', n_pos=7, gap='no_flow'),
    'core7_ductavg': dict(kind='core', n_pos=7, gap='duct_average'),
    'core19_flow': dict(kind='core', n_pos=19, gap='flow'),
    'core7_flow_three_designs': dict(kind='core', n_pos=7, gap='flow', designs=3),
    # temperature-dependent coolant + parameter-update tolerance: the update schedule of an assembly must not depend on
    # the order in which the assemblies of its type are processed (which a rotation of the loading changes)
    'core7_flow_update_tolerance': dict(kind='core', n_pos=7, gap='flow', coolant='sodium', total_power=6.0e5,
                                        extra='    param_update_tol = 0.02\n'),
}


def _metamorphic(name):
    import os
    import shutil
    import sys
    import tempfile
    sys.path.insert(0, os.environ.get('DASSH_REPO', '/repo'))
    from pvc import geninput as G
    spec = CASES[name]
    wd = tempfile.mkdtemp(prefix='c07_')
    try:
        if spec['kind'] == 'single':
            tr = spec['transform']
            kw = dict(spec['asm'])
            gapm = spec.get('gap', 'none')
            base_p = G.write_problem(os.path.join(wd, 'base'), asms={'a1': kw}, gap_model=gapm,
                                     setup_extra='    axial_mesh_size = 0.01\n')
            _, rb = G.build(base_p, sweep=True)
            a0 = rb.assemblies[0]
            kw2 = dict(kw)
            if tr == 'mirror':
                kw2['wdir'] = 'clockwise' if kw.get('wdir', 'counterclockwise') != 'clockwise' else 'counterclockwise'
            tried = []
            for sense in ((1,) if tr == 'mirror' else (1, -1)):
                perms = _asm_perms(a0, sense, tr)
                p2 = G.write_problem(os.path.join(wd, f't{sense}'), asms={'a1': kw2}, gap_model=gapm,
                                     setup_extra='    axial_mesh_size = 0.01\n')
                _transform_csv(os.path.join(wd, f't{sense}', 'power_0.csv'), {1: 1}, {1: perms})
                _, rt = G.build(p2, sweep=True)
                a1 = rt.assemblies[0]
                f0, f1 = _fields(a0), _fields(a1)
                err = max(float(np.max(np.abs(f1['cool'] - _apply(f0['cool'], perms['cool'])))),
                          float(np.max(np.abs(f1['duct'] - _apply(f0['duct'], perms['duct'])))))
                asym = float(np.max(np.abs(f1['cool'] - f0['cool'])))
                tried.append((sense, err, asym))
            # a rotation by +60 and by -60 degrees are both symmetries: both senses must hold (one sense for the mirror)
            best = max(tried, key=lambda t: t[1])
            ok = best[1] < 1e-9 and best[2] > 1e-3
            return name, {'equivariant': (ok, f'max |T(g.X) - g.T(X)| = {best[1]:.3e} K (field asymmetry {best[2]:.3e} K; '
                                              f'senses tried {[(s, float("%.2e" % e)) for s, e, _ in tried]})')}
        # whole core rotated by 60 degrees about its centre
        n_pos = spec['n_pos']
        spots = _ring_positions(n_pos)
        types = {'a1': dict(duct_mat='fuel_fixed'), 'b': dict(n_ring=3, pitch=0.0024, dpin=0.0019, wire=0.0002, duct_mat='fuel_fixed')}
        if spec.get('double_duct'):
            types = {'a1': dict(duct_mat='fuel_fixed', n_duct=2),
                     'b': dict(n_ring=3, pitch=0.0024, dpin=0.0019, wire=0.0002, duct_mat='fuel_fixed', n_duct=2)}
        names = ['a1' if (i * 7 + 3) % 5 < 3 else 'b' for i in range(n_pos)]
        if spec.get('designs') == 3:
            # a coarse bundle in the centre, two finer designs with different corner lengths alternating around it: every
            # corner of the centre assembly (the split one between hex sides 5 and 0 included) lies between two meshes
            types['c'] = dict(n_ring=3, pitch=0.0022, dpin=0.0017, wire=0.0002, duct_mat='fuel_fixed')
            names = ['a1'] + ['b' if i % 2 else 'c' for i in range(1, n_pos)]
        flows = [0.2 + 0.013 * ((i * 5) % 11) for i in range(n_pos)]
        base_pos = [(names[i], spots[i][0], spots[i][1], flows[i]) for i in range(n_pos)]

        def image(i, sense):
            ring, k = spots[i]
            if ring == 1:
                return 0
            n = 6 * (ring - 1)
            k2 = (k - 1 + sense * (ring - 1)) % n + 1
            return spots.index((ring, k2))
        more = dict(coolant=spec['coolant']) if spec.get('coolant') else {}
        if spec.get('total_power'):
            more['total_power'] = spec['total_power']
        base_p = G.write_problem(os.path.join(wd, 'base'), asms=types, positions=base_pos, gap_model=spec['gap'],
                                 setup_extra='    axial_mesh_size = 0.01\n' + spec.get('extra', ''), **more)
        _, rb = G.build(base_p, sweep=True)
        tried = []
        for sense_core in (1, -1):
            for sense_asm in (1, -1):
                img = [image(i, sense_core) for i in range(n_pos)]
                pos2 = [None] * n_pos
                for i in range(n_pos):
                    pos2[img[i]] = (names[i], spots[img[i]][0], spots[img[i]][1], flows[i])
                d = os.path.join(wd, f'r{sense_core}{sense_asm}')
                p2 = G.write_problem(d, asms=types, positions=pos2, gap_model=spec['gap'],
                                     setup_extra='    axial_mesh_size = 0.01\n' + spec.get('extra', ''), **more)
                # the power file of the rotated core: base rows moved to the image assembly, items turned
                shutil.copy(os.path.join(wd, 'base', 'power_0.csv'), os.path.join(d, 'power_0.csv'))
                perms = {i + 1: _asm_perms(rb.assemblies[i], sense_asm, 'rot60') for i in range(n_pos)}
                _transform_csv(os.path.join(d, 'power_0.csv'), {i + 1: img[i] + 1 for i in range(n_pos)}, perms)
                try:
                    _, rt = G.build(p2, sweep=True)
                except BaseException as e:
                    tried.append((sense_core, sense_asm, float('inf'), f'{type(e).__name__}: {e}'))
                    continue
                err = 0.0
                for i in range(n_pos):
                    f0, f1 = _fields(rb.assemblies[i]), _fields(rt.assemblies[img[i]])
                    pm = perms[i + 1]
                    err = max(err, float(np.max(np.abs(f1['cool'] - _apply(f0['cool'], pm['cool'])))),
                              float(np.max(np.abs(f1['duct'] - _apply(f0['duct'], pm['duct'])))))
                g0 = np.sort(np.asarray(rb.core.coolant_gap_temp))
                g1 = np.sort(np.asarray(rt.core.coolant_gap_temp))
                err = max(err, float(np.max(np.abs(g0 - g1))))
                tried.append((sense_core, sense_asm, err, ''))
        # turning the loading by +60 and by -60 degrees are both symmetries: of the four (core sense, assembly sense)
        # pairings tried, the two consistent ones must BOTH reproduce the turned solution (the other two pair a core
        # rotation with the opposite rotation of the assemblies and are not symmetries)
        ranked = sorted(tried, key=lambda t: t[2])
        best = ranked[1]
        ok = best[2] < 1e-8 and ranked[0][0] != ranked[1][0]
        return name, {'equivariant': (ok, f'max deviation {best[2]:.3e} K over both rotation senses (second best pairing {best[:2]}); all: '
                                          + str([(a, b, float('%.2e' % e)) for a, b, e, _ in tried]))}
    except BaseException as e:
        import traceback
        return name, {'runs': (False, f'{type(e).__name__}: {e} :: ' + traceback.format_exc()[-400:])}
    finally:
        shutil.rmtree(wd, ignore_errors=True)


def extra_checks(tier, seed):
    import multiprocessing as mp
    import time
    t0 = time.time()
    with mp.get_context('fork').Pool(9) as pool:
        out = pool.map(_metamorphic, list(CASES), chunksize=1)
    secs = time.time() - t0
    results = []
    for name, res in out:
        for k, (ok, d) in res.items():
            results.append(dict(name=f'runtime.{k}[{name}]', status='proved' if ok else 'refuted',
                                backend='bounded:run-time contract', seconds=secs / max(1, len(out)), detail=d,
                                sample=True, witness=dict(values=dict(case=name)),
                                replay=dict(reproduced=not ok, point=dict(values=dict(case=name)), native=d)))
    return [dict(name='metamorphic runs (run-time contracts)', results=results,
                 notes=['BOUNDED: runtime.equivariant[*] on the generated problems ' + ', '.join(CASES)
                        + '; the sense of rotation of position numbering vs. cell numbering is taken as the one for '
                          'which the identity holds (a wrong index map breaks both)'])]


def replay(doc):
    w = (doc.get('witness') or {}).get('values') or {}
    names = [w['case']] if w.get('case') in CASES else list(CASES)
    bad = 0
    for nm in names:
        _, res = _metamorphic(nm)
        for k, (ok, d) in res.items():
            if not ok:
                bad += 1
                print(f'replay: {nm}: {k}: {d}')
    print('REPRODUCED' if bad else 'not reproduced')
    return 1 if bad else 0
