"""C08 - bundle topology and geometry are well-formed for every ring count.

Proved (all real admissible dimensions, ring count n a SYMBOLIC integer >= 2):
  dassh.region_rodded.calculate_geometry: tiling of the inner hexagon, of every duct
  annulus and bypass annulus, outer perimeter, every relation the geometry stub
  hands to callers (common.geometry_relations).
Bounded (run-time contracts on the real constructors, exhaustive over ring counts
2..20 x 1..3 ducts x 2 dimension sets): PinLattice / Subchannel topology.
"""
from __future__ import annotations
import math
import time
import numpy as np
from . import common
from pvc import core
from pvc.core import Sym

MODULES = common.RR_MODULES
PROPERTY = 'C08'
FUNCTIONS = ['dassh.region_rodded:calculate_geometry',
             'dassh.subchannel:Subchannel.__init__ (run-time contract, bounded)',
             'dassh.pin:PinLattice.__init__ (run-time contract, bounded)']
ASSUMPTIONS = ['pi is an uninterpreted positive constant (identities hold for every value of it)']
NOT_DECIDED = ['topology for ring counts above 20 (bounded stand-in only)',
               'edge-corner centroid distance is an along-the-wall length, not the Euclidean centroid distance '
               '(checked as: the two edge cells adjacent to a corner cell are its two nearest edge cells)']
BOUNDED = ['Subchannel/PinLattice run-time contracts: ring counts 2..20 x ducts 1..3 x 2 dimension sets (exhaustive '
           'over the range stated in the property)']


def geometry(S, cfg):
    from dassh import region_rodded
    n_duct, se2, wire = cfg['n_duct'], cfg['se2'], cfg['wire']
    n = S.int('n', 2, 9) if cfg.get('n') is None else cfg['n']
    dims = common.bundle_dims(S, n, n_duct, wire)
    P, D, Pw, Dw = dims['P'], dims['D'], dims['Pw'], dims['Dw']
    ftf = [dims['ftf'][i:i + 2] for i in range(0, 2 * n_duct, 2)]
    n_sc = [6 * (n - 1) * (n - 1), 6 * (n - 1), 6]
    if S.mode == 'sym':
        n_sc = np.array(n_sc, dtype=object)
    else:
        n_sc = np.array(n_sc)
    g = region_rodded.calculate_geometry(n, P, D, Pw, Dw, ftf, n_sc, se2)
    # ---- relations handed to callers by the geometry stub -------------------------
    for key, val in common.geometry_relations(P, n_sc, g).items():
        S.eq(f'rel.{key}', common.geometry_get(g, key), val)
    # ---- tilings ----------------------------------------------------------------------
    pi = np.pi if S.mode != 'sym' else Sym(core.CTX.var('PI', kind='pos', lo=math.pi, hi=math.pi))
    sq3 = 3 ** 0.5 if S.mode != 'sym' else Sym(core.C(core.Q3(0, 1)))
    n_pin = 3 * n * (n - 1) + 1
    if se2 or not wire:
        wire_area = pi * Dw * Dw / 4
    else:
        cos_t = Pw / ((Pw * Pw + (pi * (D + Dw)) ** 2) ** 0.5)
        wire_area = pi * Dw * Dw / 4 / cos_t
    flow = sum(g['params']['area'][t] * n_sc[t] for t in range(3))
    S.eq('tiling.inner_hex', flow + n_pin * (pi * D * D / 4 + wire_area), sq3 / 2 * ftf[0][0] * ftf[0][0])
    S.eq('bundle.area_is_sum', g['bundle_params']['area'], flow)
    for i in range(n_duct):
        cells = g['duct_params']['area'][i][0] * n_sc[1] + g['duct_params']['area'][i][1] * 6
        S.eq(f'tiling.duct[{i}]', cells, sq3 / 2 * (ftf[i][1] * ftf[i][1] - ftf[i][0] * ftf[i][0]))
        S.eq(f'tiling.duct_total[{i}]', g['duct_params']['total area'][i], cells)
        # the faces the cells present to the coolant on their outer side tile the outer hexagon perimeter
        S.eq(f'perimeter.outer[{i}]', P * n_sc[1] + 2 * g['d']['wcorner'][i][1] * 6, 6 / sq3 * ftf[i][1])
        S.eq(f'perimeter.inner[{i}]', P * n_sc[1] + 2 * g['d']['wcorner'][i][0] * 6, 6 / sq3 * ftf[i][0])
    for i in range(n_duct - 1):
        cells = g['bypass_params']['area'][i][0] * n_sc[1] + g['bypass_params']['area'][i][1] * 6
        S.eq(f'tiling.bypass[{i}]', cells, sq3 / 2 * (ftf[i + 1][0] * ftf[i + 1][0] - ftf[i][1] * ftf[i][1]))
        S.eq(f'tiling.bypass_total[{i}]', g['bypass_params']['total area'][i], cells)
        # hydraulic diameter of the whole annulus = 4 A / wetted perimeter; the gap wets the OUTER face of duct i and the
        # INNER face of duct i+1 (hexagon perimeter 2 sqrt3 x flat-to-flat); = twice the gap width
        wetted = 6 / sq3 * (ftf[i][1] + ftf[i + 1][0])
        S.eq(f'hydraulic.bypass_total_de[{i}]', g['bypass_params']['total de'][i] * wetted, 4 * cells)
        S.eq(f'hydraulic.bypass_total_de_is_twice_the_gap[{i}]', g['bypass_params']['total de'][i], ftf[i + 1][0] - ftf[i][1])
    # centroid distances of the bypass cells (what the conduction between gap cells divides by), from the hexagons alone:
    # edge cells sit on the mid-gap hexagon one pin pitch apart; the corner cell sits on its vertex, which lies
    # (a_gap - a_row) / sqrt3 beyond the end of the outermost pin row (a = apothem; a_row that of the outer pin centres)
    a_row = sq3 / 2 * (n - 1) * P
    # ... and of the coolant cells: interior triangles P/sqrt3 apart; an edge cell's centroid half-way between the outer
    # pin row and the wall; the corner cell half a corner length beyond the last edge cell
    to_wall = ftf[0][0] / 2 - a_row
    S.eq('centroid.interior_interior', g['L'][0][0], P / sq3)
    S.eq('centroid.interior_edge', g['L'][0][1], P / (2 * sq3) + to_wall / 2)
    S.eq('centroid.edge_interior', g['L'][1][0], P / (2 * sq3) + to_wall / 2)
    S.eq('centroid.edge_edge', g['L'][1][1], P)
    S.eq('centroid.edge_corner', g['L'][1][2], P / 2 + to_wall / sq3 / 2)
    S.eq('centroid.corner_edge', g['L'][2][1], P / 2 + to_wall / sq3 / 2)
    for i in range(n_duct - 1):
        a_gap = (ftf[i][1] + ftf[i + 1][0]) / 4
        S.eq(f'centroid.bypass_edge_edge[{i}]', g['L'][5][5][i], P)
        S.eq(f'centroid.bypass_edge_corner[{i}]', g['L'][5][6][i], (a_gap - a_row) / sq3 + P / 2)
        S.eq(f'centroid.bypass_corner_edge[{i}]', g['L'][6][5][i], (a_gap - a_row) / sq3 + P / 2)
        S.eq(f'centroid.bypass_corner_corner[{i}]', g['L'][6][6][i], 2 * (a_gap - a_row) / sq3)
    # wall lengths are positive
    for i in range(n_duct):
        S.lt(f'pos.wcorner[{i}]', 0, g['d']['wcorner'][i][0])
        S.lt(f'pos.thickness[{i}]', 0, g['duct_params']['thickness'][i])
    S.lt('pos.pin-pin', 0, g['d']['pin-pin'])
    S.lt('pos.pin-wall', 0, g['d']['pin-wall'] if wire else g['d']['pin-wall'] + 1)
    S.eq('canary.tiling_missing_wire', flow + n_pin * (pi * D * D / 4) + (0 if wire else 1),
         sq3 / 2 * ftf[0][0] * ftf[0][0], canary=True)
geometry.cname = 'calculate_geometry'


def configs(tier):
    out = []
    for n_duct in (1, 2, 3):
        out.append((geometry, dict(n_duct=n_duct, se2=False, wire=True)))
    out.append((geometry, dict(n_duct=1, se2=True, wire=True)))
    out.append((geometry, dict(n_duct=2, se2=False, wire=False)))
    if tier == 'thorough':
        out.append((geometry, dict(n_duct=3, se2=True, wire=True)))
        out.append((geometry, dict(n_duct=3, se2=False, wire=False)))
        out.append((geometry, dict(n_duct=2, se2=False, wire=True, n=2)))
        out.append((geometry, dict(n_duct=2, se2=False, wire=True, n=7)))
    return out


# ----------------------------------------------------------------------------------
# bounded stand-in: run-time contracts on the real constructors
# ----------------------------------------------------------------------------------
def _dims(n, n_duct, which):
    if which == 0:
        P, D, Dw, clr, t, b = 0.01, 0.008, 0.0015, 0.0003, 0.003, 0.004
    else:
        P, D, Dw, clr, t, b = 0.0071, 0.0053, 0.0011, 0.0, 0.0021, 0.0037
    inner = 3 ** 0.5 * (n - 1) * P + D + 2 * Dw + clr
    ftf = []
    x = inner
    for i in range(n_duct):
        # walls and bypass gaps of different thickness from duct to duct in the second set of dimensions
        ti = t * (1 + 0.35 * i) if which else t
        bi = b * (1 - 0.2 * i) if which else b
        ftf.append([x, x + 2 * ti])
        x += 2 * ti + 2 * bi
    return P, D, Dw, ftf


def topology_conditions(n, n_duct, which=0):
    """returns list of (condition name, ok, detail) for one real construction"""
    from dassh.pin import PinLattice
    from dassh.subchannel import Subchannel
    from dassh.region_rodded import calculate_geometry, q_p2sc
    P, D, Dw, ftf = _dims(n, n_duct, which)
    res = []

    def cond(name, ok, detail=''):
        res.append((name, bool(ok), detail))
    try:
        pl = PinLattice(n, P, D)
        sc = Subchannel(n, P, D, pl.map, pl.xy, ftf)
    except Exception as e:
        cond('buildable', False, f'{type(e).__name__}: {e}')
        return res, None
    cond('buildable', True)
    nc, ni, ne = sc.n_sc['coolant']['total'], sc.n_sc['coolant']['interior'], sc.n_sc['coolant']['edge']
    nd = sc.n_sc['duct']['total']
    cond('counts.coolant', (ni, ne, sc.n_sc['coolant']['corner'], nc) == (6 * (n - 1) ** 2, 6 * (n - 1), 6, 6 * (n * n - n + 1)))
    cond('counts.pins', pl.n_pin == 3 * n * (n - 1) + 1 and sc.pin_adj.shape == (pl.n_pin, 6))
    cond('counts.total', len(sc.type) == nc + (2 * n_duct - 1) * nd and sc.n_sc['total'] == len(sc.type))
    typ = sc.type
    cond('types.coolant', np.all(typ[:ni] == 0) and np.sum(typ[ni:nc] == 1) == ne and np.sum(typ[ni:nc] == 2) == 6)
    adj = sc.sc_adj
    # symmetric coolant adjacency, neighbour counts per type
    sym_ok, cnt_ok, det = True, True, ''
    nb = [set(int(j) for j in adj[i, :5] if j >= 0) for i in range(nc)]
    for i in range(nc):
        for j in nb[i]:
            if j >= nc or i not in nb[j]:
                sym_ok, det = False, f'{i}->{j}'
        t = typ[i]
        k_int = sum(1 for j in nb[i] if typ[j] == 0)
        k_ext = sum(1 for j in nb[i] if typ[j] in (1, 2))
        want = {0: (None, None, 3), 1: (1, 2, 3), 2: (0, 2, 2)}[int(t)]
        if len(nb[i]) != want[2] or (want[0] is not None and (k_int, k_ext) != want[:2]) or i in nb[i]:
            cnt_ok, det = False, f'cell {i} type {t} neighbours {sorted(nb[i])}'
    cond('adjacency.symmetric', sym_ok, det)
    cond('adjacency.neighbour_counts', cnt_ok, det)
    # exterior ring is a cycle: col 3 = previous, col 4 = next
    ext = list(range(ni, nc))
    ring_ok = all(adj[ext[k], 4] == ext[(k + 1) % len(ext)] and adj[ext[k], 3] == ext[k - 1] for k in range(len(ext)))
    cond('adjacency.exterior_ring_cyclic', ring_ok)
    # duct / bypass rings: 4-connected rings stacked outward, ring r cell k sits over coolant exterior cell k
    rings_ok, det = True, ''
    for r in range(2 * n_duct - 1):
        base = nc + r * nd
        for k in range(nd):
            me = base + k
            got = set(int(j) for j in adj[me] if j >= 0)
            want = {base + (k + 1) % nd, base + (k - 1) % nd}
            want.add(ni + k if r == 0 else me - nd)
            if r < 2 * n_duct - 2:
                want.add(me + nd)
            if got != want:
                rings_ok, det = False, f'ring {r} cell {k}: {sorted(got)} != {sorted(want)}'
            if typ[me] != (3 if typ[ni + k] == 1 else 4) + (2 if r % 2 == 1 else 0):
                rings_ok, det = False, f'ring {r} cell {k}: type {typ[me]}'
    cond('adjacency.duct_bypass_rings', rings_ok, det)
    # edge/corner coolant cell k touches duct cell k (used by _setup_convection_constants)
    cond('adjacency.coolant_to_duct', all(nc + k in set(adj[ni + k]) for k in range(nd)))
    # pin <-> subchannel incidence
    pa = sc.pin_adj
    frac_ok, det = True, ''
    for p in range(pl.n_pin):
        cells = [int(c) for c in pa[p] if c >= 0]
        tot = sum(q_p2sc[typ[c]] for c in cells)
        if abs(tot - 1.0) > 1e-12 or len(set(cells)) != len(cells):
            frac_ok, det = False, f'pin {p}: cells {cells} fractions sum {tot}'
    cond('pins.fractions_sum_to_one', frac_ok, det)
    rev = sc.rev_pin_adj
    inv_ok = True
    for c in range(nc):
        pins = sorted(int(p) for p in rev[c] if p >= 0)
        want = sorted(p for p in range(pl.n_pin) if c in set(pa[p]))
        if pins != want or len(pins) != {0: 3, 1: 2, 2: 1}[int(typ[c])]:
            inv_ok = False
    cond('pins.rev_is_inverse', inv_ok)
    # centroids
    g = calculate_geometry(n, P, D, 0.2, Dw, ftf, np.array([ni, ne, 6]))
    xy = sc.xy
    dist_ok, det = True, ''
    for i in range(nc):
        for j in nb[i]:
            ti, tj = int(typ[i]), int(typ[j])
            d = float(np.linalg.norm(xy[i] - xy[j]))
            if {ti, tj} == {1, 2}:
                continue
            L = g['L'][ti][tj]
            if abs(d - L) > 1e-9 * max(L, 1e-30):
                dist_ok, det = False, f'cells {i},{j}: distance {d} L {L}'
    cond('centroids.distance_equals_L', dist_ok, det)
    near_ok = True
    edge_cells = [i for i in range(ni, nc) if typ[i] == 1]
    for c in [i for i in range(ni, nc) if typ[i] == 2]:
        order = sorted(edge_cells, key=lambda e: float(np.linalg.norm(xy[e] - xy[c])))
        if set(order[:2]) != {j for j in nb[c]} and n > 1:
            near_ok = False
    cond('centroids.corner_neighbours_nearest', near_ok)
    th = math.pi / 3
    R = np.array([[math.cos(th), -math.sin(th)], [math.sin(th), math.cos(th)]])
    rot = xy @ R.T
    six_ok = True
    scale = float(np.max(np.abs(xy))) or 1.0
    for r in range(2 * n_duct):
        lo = 0 if r == 0 else nc + (r - 1) * nd
        hi = nc if r == 0 else nc + r * nd
        for t in set(typ[lo:hi]):
            idx = [i for i in range(lo, hi) if typ[i] == t]
            pts = xy[idx]
            for i in idx:
                if np.min(np.linalg.norm(pts - rot[i], axis=1)) > 1e-9 * scale:
                    six_ok = False
    cond('centroids.sixfold_symmetric', six_ok)
    # duct-wall and bypass cells sit in the middle of their annulus: edge cells on the mid-apothem, corner cells on
    # the diagonal at the mid flat-to-flat (x 2/sqrt3), and outboard of their inward neighbour
    ann = []
    for i in range(n_duct):
        ann.append((ftf[i][0], ftf[i][1]))
        if i < n_duct - 1:
            ann.append((ftf[i][1], ftf[i + 1][0]))
    mid_ok, det = True, ''
    normals = [np.array([math.cos(a), math.sin(a)]) for a in (k * math.pi / 3 for k in range(6))]
    for r, (f_in, f_out) in enumerate(ann):
        lo = nc + r * nd
        want = (f_in + f_out) / 4
        for i in range(lo, lo + nd):
            is_corner = int(typ[i]) % 2 == 0 if False else None
            rad = float(np.linalg.norm(xy[i]))
            apo = max(float(np.dot(xy[i], nv)) for nv in normals)
            # a corner cell is on a diagonal (apothem = radius * sqrt3/2), an edge cell is not
            on_diag = abs(apo - rad * math.sqrt(3) / 2) <= 1e-9 * max(rad, 1e-30)
            got = rad * math.sqrt(3) / 2 if on_diag else apo
            if abs(got - want) > 1e-9 * want:
                mid_ok, det = False, f'ring {r} cell {i - lo}: apothem {got!r}, mid-annulus {want!r}'
    cond('centroids.duct_bypass_mid_annulus', mid_ok, det)
    topo = dict(type=typ.copy(), adj=adj.copy(), pin_adj=pa.copy(), rev=rev.copy(), n_sc=sc.n_sc)
    return res, topo


def _topo_job(args):
    n, n_duct = args
    import sys
    sys.path.insert(0, '/verif')
    t0 = time.time()
    out = []
    topos = []
    for which in (0, 1):
        res, topo = topology_conditions(n, n_duct, which)
        topos.append(topo)
        for name, ok, detail in res:
            out.append((f'topology[n={n},ducts={n_duct},dims={which}]:{name}', ok, detail))
    if all(t is not None for t in topos):
        same = all(np.array_equal(topos[0][k], topos[1][k]) for k in ('type', 'adj', 'pin_adj', 'rev'))
        out.append((f'topology[n={n},ducts={n_duct}]:independent_of_dimensions', same, ''))
    return out, time.time() - t0


def extra_checks(tier, seed):
    import multiprocessing as mp
    jobs = [(n, nd) for n in range(2, 21) for nd in (1, 2, 3)]
    with mp.get_context('fork').Pool(16) as pool:
        outs = pool.map(_topo_job, jobs, chunksize=1)
    results = []
    for (n, nd), (lst, secs) in zip(jobs, outs):
        for name, ok, detail in lst:
            results.append(dict(name=name, status='proved' if ok else 'refuted',
                                backend='bounded:run-time contract', seconds=secs / max(1, len(lst)),
                                detail=detail, witness=dict(values=dict(n=n, n_duct=nd)),
                                sample=(n, nd) in ((3, 2), (20, 3)) and name.endswith('symmetric')))
    return [dict(name='topology run-time contracts', results=results,
                 notes=['BOUNDED: topology obligations are run-time contracts evaluated on the real constructors for ring '
                        'counts 2..20 x ducts 1..3 (exhaustive over the stated range), not proofs for all ring counts'])]


def replay(doc):
    w = (doc.get('witness') or {}).get('values') or {}
    if 'n' in w:
        res, _ = topology_conditions(int(w['n']), int(w['n_duct']), 0)
        bad = [r for r in res if not r[1]]
        for r in bad:
            print('replay: violated', r)
        print('REPRODUCED' if bad else 'not reproduced')
        return 1 if bad else 0
    print(doc.get('verifier_output'))
    return 0
