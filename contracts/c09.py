"""C09 - the inter-assembly gap mesh is well-formed for every core layout.

Functions under contract: dassh.core.Core.__init__ / load and what load calls
(map_asm, map_adjacent_assemblies, _collect_sc_geom_params, _which_asm_has_finer_mesh,
_map_asm_gap_adjacency, _index_gap_sc, _find_side_sc, _find_corner_sc, _need_to_count_*,
_determine_gap_sc_types, _find_adjacent_sc, _calculate_gap_xbnds, _calculate_sc_wp,
_calculate_asm_sc_wp, _calculate_sc_area, _calculate_dist_between_sc, _calculate_sc_de,
_make_conv_mask, _make_cond_mask).

(A) deductive, per enumerated layout and assignment of mesh types, for ALL real dimensions
    (outer flat-to-flat, assembly pitch, pin pitches): the real Core.load is executed on
    symbolic dimensions; post-conditions: the cells around every assembly cover its duct
    perimeter exactly once, the two assemblies of a shared side see the same pitch / corner
    length / number of cells (those of the finer mesh), the total flow area equals the
    closed form  d*hs*(#sides) + sqrt3/3 d^2 #(1-assembly corners) + sqrt3/4 d^2 #(2- and
    3-assembly corners)  computed from an INDEPENDENT hexagonal-grid model of the layout
    (hence it does not depend on the meshes), areas are positive, the flow is split in
    proportion to the area and sums to the gap flow, centroid distances and conduction
    constants are symmetric, convection constants are the assembly-side cell widths.
(B) bounded: the integer topology (cell count, 1-3 bordering assemblies per cell as in
    the independent model, count-once indexing, adjacency = geometric adjacency,
    symmetric cell adjacency with the right number of neighbours, reversed traversal
    for the neighbour) as run-time contracts on ALL 127 non-empty subsets of the
    7-position core and sampled subsets of 19 and 37 positions, several mesh-type
    assignments each.
"""
from __future__ import annotations
import itertools
import math
import random
import numpy as np
from . import common
from .common import patched, make_material
from pvc import core
from pvc.core import Sym

MODULES = ['dassh.core', 'dassh.material']
PROPERTY = 'C09'
FUNCTIONS = ['dassh.core:Core.load', 'dassh.core:Core._collect_sc_geom_params', 'dassh.core:_which_asm_has_finer_mesh',
             'dassh.core:Core._calculate_gap_xbnds', 'dassh.core:Core._calculate_sc_wp', 'dassh.core:Core._calculate_asm_sc_wp',
             'dassh.core:Core._calculate_sc_area', 'dassh.core:Core._calculate_dist_between_sc', 'dassh.core:Core._calculate_sc_de',
             'dassh.core:Core._make_conv_mask', 'dassh.core:Core._make_cond_mask',
             'dassh.core:map_asm / map_adjacent_assemblies / _map_asm_gap_adjacency / _index_gap_sc / _find_side_sc / '
             '_find_corner_sc / _need_to_count_side / _need_to_count_corner / _determine_gap_sc_types / _find_adjacent_sc '
             '(integer topology: run-time contracts)']
ASSUMPTIONS = ['every assembly has the same outer flat-to-flat distance (input check) and its own duct relation '
               'hex side = (rings - 1) x pin pitch + 2 x corner length (C10: xbnds_rodded)',
               'the independent layout model: hexagonal grid in cube coordinates, position numbering by rings, clockwise, '
               'each ring starting on the same diagonal (only adjacency matters for the checked quantities)',
               'gap heat-transfer coefficients are positive atoms (the Nusselt correlation is a dependency)']
NOT_DECIDED = ['the integer topology for layouts beyond the enumerated / sampled ones (bounded stand-in)']
BOUNDED = ['runtime.topology[*]: all 127 non-empty subsets of the 7-position core x 6 mesh-type assignments; 60 (quick) / 400 '
           '(thorough) random subsets of the 19- and 37-position cores']
_SQ3 = math.sqrt(3)


# ---------------------------------------------------------------------------------------
# independent model of a layout
_DIRS = [(1, -1, 0), (1, 0, -1), (0, 1, -1), (-1, 1, 0), (-1, 0, 1), (0, -1, 1)]


def spiral(n_pos):
    """cube coordinates of positions 0..n_pos-1: centre, then ring by ring, each ring starting on the same
    diagonal and walked in one sense"""
    out = [(0, 0, 0)]
    r = 1
    while len(out) < n_pos:
        h = tuple(r * c for c in _DIRS[4])
        for side in range(6):
            for _ in range(r):
                out.append(h)
                h = tuple(a + b for a, b in zip(h, _DIRS[side]))
        r += 1
    return out[:n_pos]


def padded(present):
    """the position list DASSH expects: complete rings (1, 7, 19, 37, ... positions)"""
    n, r = 1, 1
    while n < len(present):
        n += 6 * r
        r += 1
    return tuple(present) + (0,) * (n - len(present))


class Layout:
    def __init__(self, present):
        present = padded(present)
        self.coords = [c for c, p in zip(spiral(len(present)), present) if p]
        self.index = {c: i for i, c in enumerate(self.coords)}
        self.pairs = set()
        self.sides_shared = 0
        self.sides_alone = 0
        junctions = {}
        for i, h in enumerate(self.coords):
            for k in range(6):
                nb = tuple(a + b for a, b in zip(h, _DIRS[k]))
                if nb in self.index:
                    self.pairs.add(frozenset((i, self.index[nb])))
                else:
                    self.sides_alone += 1
                nb2 = tuple(a + b for a, b in zip(h, _DIRS[(k + 1) % 6]))
                junctions.setdefault(frozenset((h, nb, nb2)), set()).add(i)
        self.sides_shared = len(self.pairs)
        self.junctions = list(junctions.values())
        self.j = {n: sum(1 for v in self.junctions if len(v) == n) for n in (1, 2, 3)}

    def neighbours(self, i):
        return {next(iter(p - {i})) for p in self.pairs if i in p}


# ---------------------------------------------------------------------------------------
class _Rod:
    pass


class _Asm:
    """what Core.load reads of an assembly"""

    def __init__(self, kind, oftf, hs):
        self.duct_oftf = oftf
        self.has_rodded = kind is not None
        if kind is not None:
            n_ring, pp = kind
            self.rodded = _Rod()
            self.rodded.n_ring = n_ring
            self.rodded.pin_pitch = pp
            dwc = (hs - (n_ring - 1) * pp) / 2
            wc = np.empty((1, 2), dtype=object if isinstance(dwc, Sym) else float)
            wc[0, 0] = dwc * 0.9 if not isinstance(dwc, Sym) else dwc * Sym(core.C(9)) / 10
            wc[0, 1] = dwc
            self.rodded.d = {'wcorner': wc}


def _finer(a, b):
    """oracle of 'the finer of the two meshes': more cells per side; tie -> smaller pin pitch. kinds: None | (rings, pitch)"""
    if a is None and b is None:
        return None
    if a is None:
        return b
    if b is None:
        return a
    if a[0] != b[0]:
        return a if a[0] > b[0] else b
    return a if a[1] < b[1] else b


def _build(S, present, kinds, model='flow'):
    """kinds: per PRESENT assembly None (no pins) or (rings, pitch value)"""
    import dassh
    from dassh import core as dcore
    from dassh.correlations import nusselt_db
    sym = S.mode == 'sym'
    oftf = S.pos('oftf', 0.10, 0.12)
    d_gap = S.pos('d_gap', 0.003, 0.006)
    sq3 = Sym(core.C(core.Q3(0, 1))) if sym else _SQ3
    hs = oftf / sq3
    lst = np.array([1.0 if p else np.nan for p in padded(present)])
    cool = make_material(S, 'gapcool', ['density', 'viscosity', 'heat_capacity', 'thermal_conductivity'])
    flow = S.pos('gap_flow', 0.5, 2.0)
    c = dcore.Core(lst, oftf + d_gap, flow, cool, inlet_temperature=cool.temperature, model=model)
    for k in kinds:
        if k is not None:
            S.assume((k[0] - 1) * k[1] < hs, 'pins fit on the hex side')
    asms = [_Asm(k, oftf, hs) for k in kinds]
    n_sc_holder = {}

    def nu_stub(coolant, re_sc, consts):
        n = len(re_sc)
        if 'nu' not in n_sc_holder:
            n_sc_holder['nu'] = S.vec('Nu', n, 'pos', 5.0, 9.0)
        return n_sc_holder['nu']
    with patched((nusselt_db, 'calculate_sc_Nu', nu_stub)):
        c.load(asms)
    return c, asms, hs, d_gap, flow, oftf


def _kinds(S, present, pattern):
    """pattern: string per present assembly: 'U' no pins, digit = ring count with pitch atom of that type letter"""
    out = []
    pitch = {}
    sym = S.mode == 'sym'
    oftf_guess = 0.11
    for ch in pattern:
        if ch == 'U':
            out.append(None)
            continue
        rings = {'a': 2, 'b': 2, 'c': 3, 'e': 4}[ch]
        if ch not in pitch:
            hi = 0.9 * 0.10 / _SQ3 / (rings - 1)
            pitch[ch] = S.pos(f'pin_pitch_{ch}', 0.5 * hi, hi)
        out.append((rings, pitch[ch]))
    return out


def layout(S, cfg):
    present, pattern = cfg['present'], cfg['types']
    sym = S.mode == 'sym'
    kinds = _kinds(S, present, pattern)
    c, asms, hs, d, flow, oftf = _build(S, present, kinds)
    lay = Layout(present)
    n_asm = len(kinds)
    adj, awp = c._asm_sc_adj, c.gap_params['asm wp']
    # the cells around an assembly cover its duct perimeter exactly once
    for a in range(n_asm):
        S.eq(f'perimeter.covered_once[{a}]', sum(awp[a, i] for i in range(adj.shape[1]) if adj[a, i] > 0), 6 * hs)
        for i in range(adj.shape[1]):
            if adj[a, i] > 0:
                S.lt(f'perimeter.cell_width_positive[{a},{i}]', 0, awp[a, i])
    # both assemblies of a shared side use the finer mesh
    dims, scps = c._geom_params['dims'], c._geom_params['sc_per_side']
    for a in range(n_asm):
        for s_ in range(6):
            b = c.asm_adj[a][s_] - 1
            want = _finer(kinds[a], kinds[b] if b >= 0 else None) if sym is not None else None
            if want is None:
                S.holds(f'finer.cells_per_side[{a},{s_}]', int(scps[a, s_]) == 0)
                S.eq(f'finer.corner_length[{a},{s_}]', dims[a, s_, 1], hs / 2)
            else:
                S.holds(f'finer.cells_per_side[{a},{s_}]', int(scps[a, s_]) == want[0] - 1)
                S.eq(f'finer.pitch[{a},{s_}]', dims[a, s_, 0], want[1])
                S.eq(f'finer.corner_length[{a},{s_}]', dims[a, s_, 1], (hs - (want[0] - 1) * want[1]) / 2)
            if b >= 0:
                sb = [t for t in range(6) if c.asm_adj[b][t] - 1 == a][0]
                S.eq(f'shared_side.same_mesh[{a},{s_}]', [dims[a, s_, 0], dims[a, s_, 1]], [dims[b, sb, 0], dims[b, sb, 1]])
                S.holds(f'shared_side.same_cells[{a},{s_}]', int(scps[a, s_]) == int(scps[b, sb]))
    # shared cells have the same width seen from each of their assemblies (edge cells)
    for sc in range(1, c.n_sc + 1):
        where = [(a, i) for a in range(n_asm) for i in range(adj.shape[1]) if adj[a, i] == sc]
        S.holds(f'cell.borders_1_to_3[{sc}]', 1 <= len(where) <= 3)
        if c._sc_types[sc - 1] == 0 and len(where) == 2:
            S.eq(f'cell.same_width_from_both_sides[{sc}]', awp[where[0]], awp[where[1]])
    # areas
    area = c.gap_params['area']
    sq3 = Sym(core.C(core.Q3(0, 1))) if sym else _SQ3
    closed = d * hs * (lay.sides_shared + lay.sides_alone) + sq3 / 3 * d * d * lay.j[1] + sq3 / 4 * d * d * (lay.j[2] + lay.j[3])
    S.eq('area.total_is_layout_only', c.gap_params['total area'], closed)
    S.eq('area.total_is_sum', c.gap_params['total area'], sum(area))
    for i in range(c.n_sc):
        S.lt(f'area.positive[{i}]', 0, area[i])
        S.eq(f'flow.proportional_to_area[{i}]', c._sc_mfr[i] * c.gap_params['total area'], flow * area[i])
        S.eq(f'de.definition[{i}]', c.gap_params['de'][i] * c.gap_params['wp'][i], 4 * area[i])
    S.eq('flow.sums_to_gap_flow', sum(c._sc_mfr), flow)
    # what the flowing-gap energy equation divides by is the flow of the cell itself, however small (C02's gap contract
    # takes this relation as the callee's contract)
    if getattr(c, 'model', None) == 'flow' and hasattr(c, '_inv_sc_mfr'):
        for i in range(c.n_sc):
            S.eq(f'flow.inverse_is_reciprocal_of_cell_flow[{i}]', c._inv_sc_mfr[i] * c._sc_mfr[i], 1)
    elif getattr(c, 'model', None) == 'flow':
        S.holds('flow.inverse_is_reciprocal_of_cell_flow', False)
    # distances / conduction constants symmetric; convection constants = assembly-side widths
    L, R = c.gap_params['L'], c._Rcond
    for i in range(c.n_sc):
        for slot in range(3):
            j = c._sc_adj[i, slot] - 1
            if j < 0:
                S.eq(f'cond.no_neighbour_no_conduction[{i},{slot}]', R[i, slot], 0)
                continue
            back = [t for t in range(3) if c._sc_adj[j, t] - 1 == i]
            S.holds(f'adjacency.symmetric[{i},{slot}]', len(back) == 1)
            if back:
                S.eq(f'cond.distance_symmetric[{i},{slot}]', L[i, slot], L[j, back[0]])
                S.eq(f'cond.constant_symmetric[{i},{slot}]', R[i, slot], R[j, back[0]])
                S.eq(f'cond.constant_is_width_over_distance[{i},{slot}]', R[i, slot] * L[i, slot], d)
                S.lt(f'cond.distance_positive[{i},{slot}]', 0, L[i, slot])
        where = [(a, k) for a in range(n_asm) for k in range(adj.shape[1]) if adj[a, k] == i + 1]
        for t in range(3):
            if t < len(where):
                S.eq(f'conv.constant_is_cell_width[{i},{t}]', c._conv_util['const'][i, t], awp[where[t]])
            else:
                S.eq(f'conv.no_duct_no_convection[{i},{t}]', c._conv_util['const'][i, t], 0)
    S.eq('canary.area_independent_of_gap_width', c.gap_params['total area'], hs * hs, canary=True)


layout.cname = 'Core.load'
layout.run_kw = dict(max_paths=64, budget_ms=6000, check_div=False)


def configs(tier):
    full = (1,) * 7
    out = [(layout, dict(present=(1,), types='U')),
           (layout, dict(present=(1,), types='c')),
           (layout, dict(present=(1, 1), types='Ua')),
           (layout, dict(present=(1, 1, 1), types='acU')),
           (layout, dict(present=(1, 1, 0, 1, 0, 0, 1), types='acab')),
           (layout, dict(present=full, types='UUUUUUU')),
           (layout, dict(present=full, types='aaaaaaa')),
           (layout, dict(present=full, types='abUcabU')),
           (layout, dict(present=(0, 1, 1, 0, 1, 1, 0), types='cUca'))]
    # the centre and one neighbour, on each of the six hex sides, finer mesh at either end (every side / corner wrap-around)
    for k in range(1, 7):
        present = tuple(1 if i in (0, k) else 0 for i in range(7))
        out.append((layout, dict(present=present, types='ca')))
        out.append((layout, dict(present=present, types='ac')))
    if tier == 'thorough':
        out += [(layout, dict(present=full, types='ceUaceb')), (layout, dict(present=(1,) * 7 + (1, 0, 1, 1, 0, 0, 1, 1, 0, 1, 0, 1),
                                                                            types='aUcaUcaUcaUcaU'[:14]))]
    return out


# ---------------------------------------------------------------------------------------
# (B) bounded: integer topology, run-time contracts
_TYPES = {'U': None, 'a': (2, 0.030), 'b': (2, 0.031), 'c': (3, 0.017), 'e': (5, 0.009)}


def _native_core(present, pattern, oftf=0.11, pitch=0.115):
    import logging
    import dassh
    logging.getLogger('dassh').setLevel(logging.CRITICAL)
    hs = oftf / _SQ3
    lst = np.array([1.0 if p else np.nan for p in padded(present)])
    c = dassh.Core(lst, pitch, 1.0, dassh.Material('sodium'), inlet_temperature=623.15, model='flow')
    kinds = [_TYPES[ch] for ch in pattern]
    c.load([_Asm(k, oftf, hs) for k in kinds])
    return c, kinds, hs, pitch - oftf


def topology(present, pattern):
    """-> list of violated clauses (empty = contract holds)"""
    bad = []
    try:
        c, kinds, hs, d = _native_core(present, pattern)
    except BaseException as e:
        return [f'Core.load raised {type(e).__name__}: {e}']
    lay = Layout(present)
    n_asm = len(kinds)
    adj = c._asm_sc_adj
    # geometric adjacency of assemblies
    code_pairs = set()
    for sc in range(1, c.n_sc + 1):
        who = sorted({int(a) for a in np.where(adj == sc)[0]})
        for x, y in itertools.combinations(who, 2):
            code_pairs.add(frozenset((x, y)))
    if code_pairs != lay.pairs:
        bad.append(f'assemblies sharing gap cells {sorted(map(sorted, code_pairs))} != geometric neighbours '
                   f'{sorted(map(sorted, lay.pairs))}')
    for a in range(n_asm):
        nb = {int(x) - 1 for x in c.asm_adj[a] if x > 0}
        if nb != lay.neighbours(a):
            bad.append(f'asm_adj[{a}] = {sorted(nb)} but the geometric neighbours are {sorted(lay.neighbours(a))}')
    # expected number of cells: one corner cell per junction, (rings-1 of the finer mesh) edge cells per distinct side
    n_edge = 0
    for a in range(n_asm):
        for b in lay.neighbours(a):
            if a < b:
                f = _finer(kinds[a], kinds[b])
                n_edge += 0 if f is None else f[0] - 1
        own = 0 if kinds[a] is None else kinds[a][0] - 1
        n_edge += own * (6 - len(lay.neighbours(a)))
    if c.n_sc != n_edge + len(lay.junctions):
        bad.append(f'{c.n_sc} gap cells, expected {n_edge} edge + {len(lay.junctions)} corner cells')
    # every cell borders 1-3 assemblies; corner cells as many as the junction has assemblies
    corner_counts = []
    for sc in range(1, c.n_sc + 1):
        rows, cols = np.where(adj == sc)
        k = len(set(rows.tolist()))
        if len(rows) != k:
            bad.append(f'cell {sc} appears twice around one assembly')
        if not 1 <= k <= 3 or (c._sc_types[sc - 1] == 0 and k > 2):
            bad.append(f'cell {sc} (type {c._sc_types[sc - 1]}) borders {k} assemblies')
        if c._sc_types[sc - 1] == 1:
            corner_counts.append(k)
    if sorted(corner_counts) != sorted(len(v) for v in lay.junctions):
        bad.append('corner cells border ' + str(sorted(corner_counts)) + ' assemblies, junctions have '
                   + str(sorted(len(v) for v in lay.junctions)))
    # count-once indexing around each assembly; perimeter covered
    for a in range(n_asm):
        ids = [int(x) for x in adj[a] if x > 0]
        want = int(np.sum(c._geom_params['sc_per_side'][a])) + 6
        if len(ids) != len(set(ids)) or len(ids) != want:
            bad.append(f'assembly {a}: {len(ids)} cells ({len(set(ids))} distinct), expected {want}')
        if abs(float(np.sum(c.gap_params['asm wp'][a])) - 6 * hs) > 1e-12:
            bad.append(f'assembly {a}: cell widths sum to {float(np.sum(c.gap_params["asm wp"][a]))!r}, perimeter {6 * hs!r}')
        # per side: the edge cells, then the trailing corner; the neighbour walks the shared side in the opposite sense
        off = 0
        for s_ in range(6):
            n = int(c._geom_params['sc_per_side'][a, s_])
            cells = ids[off:off + n + 1]
            lead = ids[off - 1]                 # trailing corner of the previous side (cyclic)
            off += n + 1
            b = int(c.asm_adj[a][s_]) - 1
            f = _finer(kinds[a], kinds[b] if b >= 0 else None)
            if n != (0 if f is None else f[0] - 1):
                bad.append(f'assembly {a} side {s_}: {n} edge cells, finer mesh has {0 if f is None else f[0] - 1}')
            if c._sc_types[cells[-1] - 1] != 1 or any(c._sc_types[x - 1] != 0 for x in cells[:-1]):
                bad.append(f'assembly {a} side {s_}: cell types {[int(c._sc_types[x - 1]) for x in cells]}')
            if b >= 0:
                idb = [int(x) for x in adj[b] if x > 0]
                sb = [t for t in range(6) if int(c.asm_adj[b][t]) - 1 == a]
                if len(sb) != 1:
                    bad.append(f'asm_adj not symmetric between {a} and {b}')
                    continue
                ob = int(np.sum(c._geom_params['sc_per_side'][b][:sb[0]])) + sb[0]
                nb_ = int(c._geom_params['sc_per_side'][b, sb[0]])
                cells_b = idb[ob:ob + nb_ + 1]
                lead_b = idb[ob - 1]
                if cells[:-1] != cells_b[:-1][::-1] or cells[-1] != lead_b or cells_b[-1] != lead:
                    bad.append(f'shared side {a}/{s_} - {b}/{sb[0]}: [{lead}]+{cells} vs [{lead_b}]+{cells_b} '
                               'are not the same cells in opposite order')
    # symmetric cell adjacency with the right number of neighbours
    for i in range(c.n_sc):
        nbs = [int(x) - 1 for x in c._sc_adj[i] if x > 0]
        if i in nbs or len(nbs) != len(set(nbs)):
            bad.append(f'cell {i + 1}: neighbours {nbs}')
        for j in nbs:
            if i not in [int(x) - 1 for x in c._sc_adj[j] if x > 0]:
                bad.append(f'cell adjacency not symmetric: {i + 1} -> {j + 1}')
        if c._sc_types[i] == 0 and len(nbs) != 2:
            bad.append(f'edge cell {i + 1} has {len(nbs)} neighbours')
        if c._sc_types[i] == 1:
            k = len(set(np.where(adj == i + 1)[0].tolist()))
            if len(nbs) != (2 if k == 1 else 3):
                bad.append(f'corner cell {i + 1} bordering {k} assemblies has {len(nbs)} neighbours')
    # areas
    closed = d * hs * (lay.sides_shared + lay.sides_alone) + _SQ3 / 3 * d * d * lay.j[1] + _SQ3 / 4 * d * d * (lay.j[2] + lay.j[3])
    if abs(c.gap_params['total area'] - closed) > 1e-12 * closed:
        bad.append(f'total gap area {c.gap_params["total area"]!r}, layout formula {closed!r}')
    if np.any(c.gap_params['area'] <= 0) or abs(float(np.sum(c._sc_mfr)) - 1.0) > 1e-12:
        bad.append('non-positive cell area or flow split does not sum to the gap flow')
    return bad


def _topo_job(args):
    present, pattern = args
    return args, topology(present, pattern)


def _cases(tier, seed):
    rnd = random.Random(1234 + seed)
    pats = ['U', 'a', 'c', 'aUc', 'abc', 'eUa']
    cases = []
    for mask in range(1, 128):
        present = tuple((mask >> k) & 1 for k in range(7))
        n = sum(present)
        for p in pats:
            cases.append((present, ''.join(p[(i * 7 + mask) % len(p)] for i in range(n))))
    for npos, count in ((19, 30 if tier == 'quick' else 200), (37, 30 if tier == 'quick' else 200)):
        for _ in range(count):
            dens = rnd.choice([0.3, 0.6, 0.9])
            present = tuple(1 if rnd.random() < dens else 0 for _ in range(npos))
            if not any(present):
                continue
            cases.append((present, ''.join(rnd.choice('Uabce') for _ in range(sum(present)))))
    return cases


def extra_checks(tier, seed):
    import multiprocessing as mp
    import time
    t0 = time.time()
    cases = _cases(tier, seed)
    with mp.get_context('fork').Pool(16) as pool:
        out = pool.map(_topo_job, cases, chunksize=8)
    secs = time.time() - t0
    groups = {}
    for (present, pattern), bad in out:
        key = f'{len(padded(present))}pos'
        g = groups.setdefault(key, dict(n=0, bad=[]))
        g['n'] += 1
        if bad:
            g['bad'].append((present, pattern, bad))
    results = []
    for key, g in sorted(groups.items()):
        ok = not g['bad']
        det = f"{g['n']} layouts x type assignments" if ok else \
            '; '.join(f'present={p} types={t}: {b[0]}' for p, t, b in g['bad'][:3])[:700]
        w = dict(values=dict(present=list(g['bad'][0][0]), types=g['bad'][0][1])) if g['bad'] else None
        results.append(dict(name=f'runtime.topology[{key}]', status='proved' if ok else 'refuted',
                            backend='bounded:run-time contract', seconds=secs / len(groups), detail=det, sample=True,
                            witness=w, replay=dict(reproduced=not ok, point=w, native=det)))
    return [dict(name='gap topology (run-time contracts)', results=results,
                 notes=[f'BOUNDED: runtime.topology[*] on {len(cases)} (layout, type assignment) pairs: all 127 subsets of 7 '
                        'positions x 6 assignments, random subsets of 19 and 37 positions'])]


def replay(doc):
    w = (doc.get('witness') or {}).get('values') or {}
    if 'present' not in w:
        print('replay: symbolic obligation - re-run ./check C09')
        return 0
    bad = topology(tuple(w['present']), w['types'])
    for b in bad[:10]:
        print('replay:', b)
    print('REPRODUCED' if bad else 'not reproduced')
    return 1 if bad else 0
