"""C10 - duct <-> gap mesh maps: non-negative, exact on constants, conservative, identity on equal meshes.

Function under contract: dassh.mesh_functions._map_asm2gap(xb_reg, xb_core)
(+ the producers of its arguments: RoddedRegion.calculate_xbnds, DASSH_Region
unrodded calculate_xbnds, Core._calculate_gap_xbnds).

(A) UNBOUNDED loop contract.  The two nested loops are cut from the real source;
    arrays have SYMBOLIC length (pvc.arrays): xb_reg[i] = r(i), xb_core[j] = c(j)
    with r, c uninterpreted strictly increasing functions, r(0) = c(0) = 0,
    r(n+1) = c(m+1).  Loop invariant of the inner while loop, for a generic
    column j0 (skolemised forall):
        M[CME, j0] = overlap([r(CME), r(CME+1)], [c(j0), c(j0+1)])  if j0 <= FME else 0
        FME_UBND = c(FME+1),  -1 <= FME <= m,  r(CME) <= c(FME+1),  FME < 0 or c(FME) < r(CME+1)
    VCs: established by the loop head (row_init), preserved by the body (inner_step),
    gives the row post-condition at exit (row_exit); all stores hit row CME (frame);
    every array access is in bounds; the variant m - FME decreases.
    Ghost lemma (telescope): the overlaps of one interval with a partition sum to its
    length (inductive step over the partition index) => rows of M sum to dx_reg,
    columns to dx_core, for every mesh size.
(B) whole function on symbolic boundary VALUES at fixed small sizes: normalisation,
    split-corner merge, trimming and zero padding give non-negative weights, unit
    row sums in both directions, the width-weighted integral is preserved, coinciding
    meshes give the identity.  (all interleavings of the two meshes = paths)
(C) call-site preconditions: the producers return strictly increasing boundaries that
    start at 0, end at the duct perimeter and (duct side) split the top corner in two equal halves;
    the two halves of the top-corner GAP cell may differ (hex sides meshed by different neighbours).
(D) bounded: run-time contracts on the maps of generated mesh pairs (ring counts
    1..15 x 1..15, unequal pitches, unrodded, mixed sides) and of reactor-built cores.
"""
from __future__ import annotations
import math
import numpy as np
from pvc import core, loopcut, arrays
from pvc.core import Sym

from . import common
MODULES = ['dassh.mesh_functions', 'dassh.core'] + common.RR_MODULES + common.UR_MODULES
PROPERTY = 'C10'
LEAN_LEMMAS = ['telescope', 'exchange']        # /verif/lean/Ghost.lean, checked in the thorough tier
FUNCTIONS = ['dassh.mesh_functions:_map_asm2gap (nested loops cut from source; symbolic array length)',
             'dassh.region_rodded:RoddedRegion.calculate_xbnds', 'dassh.region_unrodded:SingleNodeHomogeneous.calculate_xbnds',
             'dassh.core:Core._calculate_gap_xbnds',
             'dassh.mesh_functions:_map_asm2gap (whole function, fixed sizes, symbolic values)',
             'dassh.mesh_functions:map_across_gap']
ASSUMPTIONS = ['numpy.searchsorted(a, v) on a strictly increasing array returns k with a[k-1] < v <= a[k] (assumed '
               'contract of the dependency; executed natively in the cross-check)',
               'for CME in range(rows) visits every row index exactly once (Python semantics of range)',
               'induction principle: (row_init, inner_step, row_exit) and the telescope step are inductive '
               'VCs; the induction over iterations / partition index is the meta-argument',
               'np.zeros returns an all-zero array (initial value of the tracked entry)']
NOT_DECIDED = ['floating-point ties between boundaries of the two meshes that coincide only up to round-off '
               '(np.allclose tolerance 1e-8 + 1e-5 |x| decides "same mesh")']
BOUNDED = ['runtime.* : run-time contracts on the maps built by the real Reactor for generated 7-position cores: ring counts '
           '2..15 x 2..15 (quick tier: a 6 x 6 subset), unequal pitches, unrodded axial regions, double ducts, neighbours '
           'alternating per hex side; single-pin assemblies (ring count 1) are rejected by the input reader']


def _impl_r(i):
    return 0.5 * i + 0.11 * math.sin(1.3 * i)


def _impl_c(j):
    return 0.31 * j + 0.07 * math.sin(2.1 * j)


def overlap(rl, ru, cl, cu):
    """length of [rl, ru] n [cl, cu] (0 when disjoint): the specification of one entry of mapping_f2c"""
    lo = cl if cl > rl else rl
    hi = cu if cu < ru else ru
    d = hi - lo
    if d > 0:
        return d
    return 0 * d


class Setup:
    def __init__(self, S):
        self.S = S
        self.sym = S.mode == 'sym'
        S.exact_uf = True
        n = S.int('n', 1, 6)
        m = S.int('m', 1, 8)
        self.n, self.m = n, m
        rf = S.function('r', _impl_r)
        cf = S.function('c', _impl_c)
        if self.sym:
            self.r, self.c = rf, cf
            self.xr = arrays.SymArr(S, 'xb_reg', rf, n + 2)
            self.xc = arrays.SymArr(S, 'xb_core', cf, m + 2)
            S.assume(rf(0) == 0, 'xb_reg[0] = 0')
            S.assume(cf(0) == 0, 'xb_core[0] = 0')
            S.assume(cf(m + 1) == rf(n + 1), 'xb_core[-1] = xb_reg[-1]')
        else:
            fp = getattr(S.point, 'fn_points', None) or []
            ra = _native_array('r', n + 2, fp, _impl_r)
            ca = _native_array('c', m + 2, fp, _impl_c)
            ca[-1] = ra[-1]
            ra[0] = ca[0] = 0.0
            S.assume(bool(np.all(np.diff(ra) > 0)) and bool(np.all(np.diff(ca) > 0)), 'strictly increasing')
            self.xr, self.xc = ra, ca
            self.r = lambda i: ra[int(i)]
            self.c = lambda j: ca[int(j)]
        from dassh import mesh_functions
        self.outer = loopcut.Cut(mesh_functions._map_asm2gap, 0, 'For')
        self.inner = loopcut.Cut(mesh_functions._map_asm2gap, 0, 'While')
        # roles of the locals, read off the real loop: `while <fine ub> < <coarse ub>` and `<index> += 1`
        import ast
        t = self.inner.loop.test
        if not (isinstance(t, ast.Compare) and len(t.ops) == 1 and isinstance(t.left, ast.Name)
                and isinstance(t.comparators[0], ast.Name)):
            raise core.EngineLimit('inner loop test is not a comparison of two locals')
        self.ub_f, self.ub_c = t.left.id, t.comparators[0].id
        aug = [s for s in self.inner.loop.body if isinstance(s, ast.AugAssign) and isinstance(s.target, ast.Name)]
        if len(aug) != 1:
            raise core.EngineLimit('inner loop body: expected one `index += 1`')
        self.idx = aug[0].target.id
        self.cme = self.outer.loop.target.id
        S.note(f'loops cut from source: `{self.outer.source.splitlines()[0]}` / `{self.inner.source.splitlines()[0]}`')

    def monotone(self, extra_r=(), extra_c=()):
        if not self.sym:
            return
        arrays.monotone_instances(self.S, self.r, [0, self.n + 1] + list(extra_r), 'xb_reg')
        arrays.monotone_instances(self.S, self.c, [0, self.m + 1] + list(extra_c), 'xb_core')

    def matrix(self, CME, j0, value):
        if self.sym:
            return arrays.GhostMat(self.S, 'mapping_f2c', (self.n + 1, self.m + 1), CME, j0, value)
        return None

    def spec(self, i, j):
        return overlap(self.r(i), self.r(i + 1), self.c(j), self.c(j + 1))

    def inv_value(self, CME, FME, j0):
        """value of M[CME, j0] prescribed by the loop invariant"""
        if j0 <= FME:
            return self.spec(CME, j0)
        return 0

    def check_inv(self, tag, env, CME, j0, value):
        S = self.S
        FME, UB, CU = env[self.idx], env[self.ub_f], env[self.ub_c]
        S.eq(f'{tag}.inv.fine_ub_is_next_boundary', UB, self.c(FME + 1))
        S.eq(f'{tag}.inv.coarse_ub', CU, self.r(CME + 1))
        S.le(f'{tag}.inv.index_lower', -1, FME)
        S.le(f'{tag}.inv.index_upper', FME, self.m)
        S.le(f'{tag}.inv.coarse_lb_below_next', self.r(CME), self.c(FME + 1))
        if self.sym:
            S.holds(f'{tag}.inv.current_starts_below_coarse_ub', (FME < 0) | (self.c(FME) < self.r(CME + 1)))
        else:
            S.holds(f'{tag}.inv.current_starts_below_coarse_ub', bool(FME < 0 or self.c(FME) < self.r(CME + 1)))
        S.eq(f'{tag}.inv.entry', value, self.inv_value(CME, FME, j0))
        return FME


def _native_array(name, length, fn_points, impl):
    """concrete array for a native run: the solver's function points where a witness supplies them
    (linearly interpolated in between), the default sample function otherwise"""
    length = int(length)
    known = {}
    for nm, args, val in fn_points:
        if nm == name and len(args) == 1 and val is not None and abs(args[0] - round(args[0])) < 1e-9:
            known[int(round(args[0]))] = float(val)
    if not known:
        return np.array([impl(i) for i in range(length)], dtype=float)
    ks = sorted(k for k in known if 0 <= k < length)
    out = np.zeros(length)
    for i in range(length):
        if i in known:
            out[i] = known[i]
            continue
        lo = [k for k in ks if k < i]
        hi = [k for k in ks if k > i]
        if lo and hi:
            a, b = lo[-1], hi[0]
            out[i] = known[a] + (known[b] - known[a]) * (i - a) / (b - a)
        elif lo:
            out[i] = known[lo[-1]] + (i - lo[-1])
        elif hi:
            out[i] = known[hi[0]] - (hi[0] - i)
    return out


def _env(st, CME, FME, M):
    e = {'xb_reg': st.xr, 'xb_core': st.xc, 'mapping_f2c': M, st.cme: CME, st.idx: FME,
         st.ub_f: st.c(FME + 1), st.ub_c: st.r(CME + 1)}
    # the other locals of the outer body, as the loop head leaves them
    e.setdefault('CME_LBND', st.r(CME))
    e.setdefault('CME_UBND', st.r(CME + 1))
    return e


def _rows_touched(S, M, CME, tag):
    if isinstance(M, arrays.GhostMat):
        for k, i in enumerate(M.rows):
            S.eq(f'{tag}.frame.store_row_is_current_row#{k + 1}', i, CME)
        S.holds(f'{tag}.frame.some_store', len(M.rows) > 0)


def row_init(S, cfg):
    """{M[CME, :] = 0}  head of the outer body  {Inv}"""
    st = Setup(S)
    CME = S.int('CME', 0, 6)
    j0 = S.int('j0', 0, 8)
    S.assume(CME <= st.n, 'row index in range(rows)')
    S.assume(j0 <= st.m, 'generic column')
    if st.sym:
        M = st.matrix(CME, j0, 0)
    else:
        M = np.zeros((int(st.n) + 1, int(st.m) + 1))
    env = {'xb_reg': st.xr, 'xb_core': st.xc, 'mapping_f2c': M, st.cme: CME}
    st.outer.run_body_before(st.inner, env)
    FME = env[st.idx]
    st.monotone(extra_r=[CME, CME + 1], extra_c=[FME, FME + 1, j0, j0 + 1])
    val = M.value if st.sym else M[int(CME), int(j0)]
    st.check_inv('init', env, CME, j0, val)
    _rows_touched(S, M, CME, 'init')
    S.eq('init.canary_entry_is_one', val, 1, canary=True)


row_init.cname = '_map_asm2gap/outer-body-head'
row_init.run_kw = dict(max_paths=400, budget_ms=8000, pool_size=2, check_div=False)


def inner_step(S, cfg):
    """{Inv and test}  inner body  {Inv, variant decreased}"""
    st = Setup(S)
    CME = S.int('CME', 0, 6)
    j0 = S.int('j0', 0, 8)
    FME = S.int('FME', -1, 8)
    S.assume(CME <= st.n, 'row index in range(rows)')
    S.assume(j0 <= st.m, 'generic column')
    S.assume(FME <= st.m, 'Inv: index_upper')
    st.monotone(extra_r=[CME, CME + 1], extra_c=[FME, FME + 1, FME + 2, j0, j0 + 1])
    S.assume(st.r(CME) <= st.c(FME + 1), 'Inv: coarse_lb_below_next')
    if st.sym:
        S.assume((FME < 0) | (st.c(FME) < st.r(CME + 1)), 'Inv: current_starts_below_coarse_ub')
        v0 = st.inv_value(CME, FME, j0)
        M = st.matrix(CME, j0, v0)
    else:
        S.assume(bool(FME < 0 or st.c(FME) < st.r(CME + 1)), 'Inv: current_starts_below_coarse_ub')
        M = np.zeros((int(st.n) + 1, int(st.m) + 1))
        for j in range(int(st.m) + 1):
            M[int(CME), j] = st.inv_value(CME, FME, j)
    env = _env(st, CME, FME, M)
    S.assume(st.inner.run_test(env), 'loop test')
    st.inner.run_body(env)
    val = M.value if st.sym else M[int(CME), int(j0)]
    F2 = st.check_inv('step', env, CME, j0, val)
    S.lt('step.variant_decreases', st.m - F2, st.m - FME)
    S.le('step.variant_bounded', 0, st.m - F2)
    _rows_touched(S, M, CME, 'step')
    S.eq('step.canary_index_unchanged', F2, FME, canary=True)


inner_step.cname = '_map_asm2gap/inner-body'
inner_step.run_kw = dict(max_paths=400, budget_ms=8000, pool_size=2, check_div=False)


def row_exit(S, cfg):
    """Inv and not test  =>  M[CME, j0] = overlap(CME, j0) for every column j0"""
    st = Setup(S)
    CME = S.int('CME', 0, 6)
    j0 = S.int('j0', 0, 8)
    FME = S.int('FME', -1, 8)
    S.assume(CME <= st.n, 'row index in range(rows)')
    S.assume(j0 <= st.m, 'generic column')
    S.assume(FME <= st.m, 'Inv: index_upper')
    st.monotone(extra_r=[CME, CME + 1], extra_c=[FME, FME + 1, j0, j0 + 1])
    S.assume(st.r(CME) <= st.c(FME + 1), 'Inv: coarse_lb_below_next')
    if st.sym:
        S.assume((FME < 0) | (st.c(FME) < st.r(CME + 1)), 'Inv')
    else:
        S.assume(bool(FME < 0 or st.c(FME) < st.r(CME + 1)), 'Inv')
    env = _env(st, CME, FME, None)
    t = st.inner.run_test(env)
    S.assume(~t if st.sym else (not t), 'loop exit')
    S.eq('exit.row_entry_is_overlap', st.inv_value(CME, FME, j0), st.spec(CME, j0))
    S.le('exit.entry_nonneg', 0, st.spec(CME, j0))
    S.eq('exit.canary_entry_zero', st.spec(CME, j0), 0, canary=True)


row_exit.cname = '_map_asm2gap/inner-exit'
row_exit.run_kw = dict(max_paths=400, budget_ms=8000, pool_size=2, check_div=False)


def telescope(S, cfg):
    """ghost lemma: T(k) = max(0, min(ru, c(k)) - rl) is the sum of overlap([rl, ru], cell j) over j < k:
    T(0) = 0, T(k) + overlap(k) = T(k + 1), T(m + 1) = ru - rl"""
    st = Setup(S)
    i = S.int('CME', 0, 6)
    k = S.int('k', 0, 8)
    S.assume(i <= st.n, 'row')
    S.assume(k <= st.m, 'partition index')
    st.monotone(extra_r=[i, i + 1], extra_c=[k, k + 1])
    rl, ru = st.r(i), st.r(i + 1)

    def T(x):
        hi = x if x < ru else ru
        d = hi - rl
        return d if d > 0 else 0 * d
    S.eq('telescope.base', T(st.c(0)), 0)
    S.eq('telescope.step', T(st.c(k)) + st.spec(i, k), T(st.c(k + 1)))
    S.eq('telescope.end', T(st.c(st.m + 1)), ru - rl)
    S.eq('telescope.symmetric', overlap(rl, ru, st.c(k), st.c(k + 1)), overlap(st.c(k), st.c(k + 1), rl, ru))
    S.eq('telescope.canary', T(st.c(k + 1)), T(st.c(k)), canary=True)


telescope.cname = 'lemma:overlaps-sum-to-length'
telescope.run_kw = dict(max_paths=400, budget_ms=8000, pool_size=2, check_div=False)


# ---------------------------------------------------------------------------------------
# (B) the whole real function on symbolic boundary values, fixed sizes
def _meshes(S, n, m, same, pad, equal_halves=False):
    """xb_reg = [0, r1 < ... < rn, P] with the top corner split in two equal halves (P - rn = r1);
    xb_core = [c1 < ... < cm, 0 ... 0] (gap format: positive boundaries, zero padding), cm < P"""
    sym = S.mode == 'sym'
    dr = S.pos('dr', 0.1, 0.3)
    r = [dr]
    for i in range(1, n):
        r.append(r[-1] + S.pos(f'gr{i}', 0.2, 0.6))
    P = r[-1] + dr
    if same:
        c = list(r)
        m = n
    else:
        # the two halves of the top-corner gap cell belong to different hex sides, which can be meshed by
        # different neighbours: they may differ in length
        dc = S.pos('dc', 0.1, 0.3)
        dc_last = dc if equal_halves else S.pos('dc_last', 0.1, 0.3)
        c = [dc]
        for j in range(1, m - 1):
            c.append(c[-1] + S.pos(f'gc{j}', 0.2, 0.6))
        S.assume(c[-1] < P - dc_last, 'gap boundaries increasing up to the split corner')
        c.append(P - dc_last)
    zero = 0
    xr = [zero] + r + [P]
    xc = c + [zero] * pad
    if sym:
        xb_reg = np.empty(len(xr), dtype=object)
        for i, v in enumerate(xr):
            xb_reg[i] = v if isinstance(v, Sym) else Sym(core.C(v))
        xb_core = arrays.mask_array([v if isinstance(v, Sym) else 0.0 for v in xc])
    else:
        xb_reg = np.array(xr, dtype=float)
        xb_core = np.array(xc, dtype=float)
    return xb_reg, xb_core, r, c, P, m


def whole(S, cfg):
    from dassh import mesh_functions
    n, same, pad = cfg['n'], cfg.get('same', False), cfg.get('pad', 1)
    xb_reg, xb_core, r, c, P, m = _meshes(S, n, cfg.get('m', n), same, pad, cfg.get('equal_halves', False))
    # "the meshes coincide": same number of cells and every boundary equal within numpy's allclose tolerance
    coincide = same
    if not same and n == m:
        coincide = True
        for a, b in zip(c, r):
            d = a - b
            ad = d if d >= 0 else -d
            if not (ad <= 1e-08 + 1e-05 * b):
                coincide = False
    F, G = mesh_functions._map_asm2gap(xb_reg, xb_core)
    fine = m + pad
    S.holds('shape.gap2duct', tuple(F.shape) == (n, fine))
    S.holds('shape.duct2gap', tuple(G.shape) == (fine, n))
    # cell widths with the split top corner merged into the LAST cell
    w = [r[i + 1] - r[i] for i in range(n - 1)] + [(P - r[-1]) + r[0]]
    u = [c[j + 1] - c[j] for j in range(m - 1)] + [(P - c[-1]) + c[0]]
    for i in range(n):
        for j in range(fine):
            S.le(f'gap2duct.nonneg[{i},{j}]', 0, F[i, j])
            S.le(f'duct2gap.nonneg[{j},{i}]', 0, G[j, i])
            if j >= m:
                S.eq(f'gap2duct.padding_zero[{i},{j}]', F[i, j], 0)
                S.eq(f'duct2gap.padding_zero[{j},{i}]', G[j, i], 0)
    for i in range(n):
        S.eq(f'gap2duct.constants_exact[{i}]', sum(F[i, j] for j in range(fine)), 1)
    for j in range(m):
        S.eq(f'duct2gap.constants_exact[{j}]', sum(G[j, i] for i in range(n)), 1)
    if not coincide or same:
        # conservation: sum_j u_j (G v)_j = sum_i w_i v_i and sum_i w_i (F t)_i = sum_j u_j t_j for every v, t
        # (meshes that coincide only within the tolerance are mapped by the identity: conservative to that tolerance)
        for i in range(n):
            S.eq(f'duct2gap.conservative[{i}]', sum(u[j] * G[j, i] for j in range(m)), w[i])
        for j in range(m):
            S.eq(f'gap2duct.conservative[{j}]', sum(w[i] * F[i, j] for i in range(n)), u[j])
        # reciprocity: both maps are the same overlap matrix, w_i F_ij = u_j G_ji  (what makes the heat computed on
        # the duct mesh with gap values mapped one way equal the heat computed on the gap mesh with duct values
        # mapped the other way: C02)
        for i in range(n):
            for j in range(m):
                S.eq(f'reciprocity[{i},{j}]', w[i] * F[i, j], u[j] * G[j, i])
    if coincide:
        for i in range(n):
            for j in range(n):
                S.eq(f'identity.gap2duct[{i},{j}]', F[i, j], 1 if i == j else 0)
                S.eq(f'identity.duct2gap[{i},{j}]', G[i, j], 1 if i == j else 0)
    # map_across_gap is the matrix-vector product
    v = S.vec('v', fine, 'real', -1.0, 1.0)
    out = mesh_functions.map_across_gap(v, F)
    for i in range(n):
        S.eq(f'map_across_gap.is_product[{i}]', out[i], sum(F[i, j] * v[j] for j in range(fine)))
    S.eq('canary.first_weight_is_half', F[0, 0], 0.5 + 0 * F[0, 0], canary=True)


whole.cname = '_map_asm2gap'
whole.run_kw = dict(max_paths=3000, budget_ms=6000, pool_size=8)


# ---------------------------------------------------------------------------------------
# (C) call-site preconditions: the producers of the two meshes
def xbnds_rodded(S, cfg):
    from .common import make_rodded
    n_ring = cfg['n_ring']
    rr = make_rodded(S, n_ring=n_ring, n_duct=cfg.get('n_duct', 1), abstract_geometry=False)
    x = rr.calculate_xbnds()
    nd = rr.subchannel.n_sc['duct']['total']
    sq3 = Sym(core.C(core.Q3(0, 1))) if S.mode == 'sym' else math.sqrt(3)
    P = 6 * rr.duct_ftf[-1][1] / sq3
    hs = P / 6
    S.holds('xbnds.count', len(x) == nd + 2 and nd == 6 * n_ring)
    S.eq('xbnds.starts_at_zero', x[0], 0)
    S.eq('xbnds.ends_at_perimeter', x[-1], P)
    for i in range(len(x) - 1):
        S.lt(f'xbnds.increasing[{i}]', x[i], x[i + 1])
    S.eq('xbnds.corner_split_in_equal_halves', x[1], P - x[-2])
    for side in range(6):
        for k in range(n_ring):
            S.eq(f'xbnds.side_layout[{side},{k}]', x[1 + side * n_ring + k], side * hs + x[1] + k * rr.pin_pitch)
    S.eq('canary.xbnds_uniform', x[2] - x[1], x[1] - x[0], canary=True)


xbnds_rodded.cname = 'RoddedRegion.calculate_xbnds'
xbnds_rodded.run_kw = dict(check_div=False)     # divisions inside calculate_geometry: C08


def xbnds_unrodded(S, cfg):
    from .common import make_unrodded
    ur = make_unrodded(S, model=cfg.get('model', 'simple'))
    x = ur.calculate_xbnds()
    sq3 = Sym(core.C(core.Q3(0, 1))) if S.mode == 'sym' else math.sqrt(3)
    P = 6 * ur.duct_ftf[1] / sq3
    S.holds('xbnds.count', len(x) == 8)
    S.eq('xbnds.starts_at_zero', x[0], 0)
    S.eq('xbnds.ends_at_perimeter', x[-1], P)
    for i in range(7):
        S.lt(f'xbnds.increasing[{i}]', x[i], x[i + 1])
    S.eq('xbnds.corner_split_in_equal_halves', x[1], P - x[-2])
    for side in range(6):
        S.eq(f'xbnds.side_layout[{side}]', x[1 + side], side * P / 6 + P / 12)
    S.eq('canary.xbnds_uniform', x[2] - x[1], x[1] - x[0], canary=True)


xbnds_unrodded.cname = 'unrodded.calculate_xbnds'


def xbnds_gap(S, cfg):
    """Core._calculate_gap_xbnds: each hex side carries the mesh (pitch, corner length, cells per side) of the
    finer of the two assemblies that share it; whichever assembly that is, its own duct relation
    hex side = cells * pitch + 2 * corner (xbnds_rodded.side_layout / corner_split; corner = side / 2 without pins)
    holds with the common outer flat-to-flat distance (precondition here)."""
    from dassh import core as dcore
    scps = cfg['scps']                 # cells per side, one entry per hex side
    sym = S.mode == 'sym'
    hs = S.pos('hex_side', 0.05, 0.1)
    sq3 = Sym(core.C(core.Q3(0, 1))) if sym else math.sqrt(3)
    c = dcore.Core.__new__(dcore.Core)
    c.n_asm = 1
    c.duct_oftf = hs * sq3
    dims = np.empty((1, 6, 2), dtype=object if sym else float)
    for s_ in range(6):
        if scps[s_] == 0:
            dims[0, s_, 0] = 0.0
            dims[0, s_, 1] = hs / 2
        else:
            pp = S.pos(f'pp{s_}', 0.005, 0.02)
            S.assume(scps[s_] * pp < hs, 'cells fit on the side')
            dims[0, s_, 0] = pp
            dims[0, s_, 1] = (hs - scps[s_] * pp) / 2
    c._geom_params = {'dims': dims, 'sc_per_side': np.array([scps], dtype=int)}
    width = sum(scps) + 6 + cfg.get('pad', 2)
    c._asm_sc_adj = np.zeros((1, width), dtype=int)
    x = c._calculate_gap_xbnds()
    row = x[0]
    m = sum(scps) + 6
    S.holds('gap_xbnds.shape', x.shape == (1, width))
    for j in range(m, width):
        S.eq(f'gap_xbnds.padding_zero[{j}]', row[j], 0)
    S.lt('gap_xbnds.first_positive', 0, row[0])
    for j in range(m - 1):
        S.lt(f'gap_xbnds.increasing[{j}]', row[j], row[j + 1])
    S.lt('gap_xbnds.last_below_perimeter', row[m - 1], 6 * hs)
    k = 0
    for s_ in range(6):
        for i in range(scps[s_] + 1):
            S.eq(f'gap_xbnds.side_layout[{s_},{i}]', row[k], s_ * hs + dims[0, s_, 1] + i * dims[0, s_, 0])
            k += 1
        S.eq(f'gap_xbnds.side_ends_one_corner_before_next[{s_}]', row[k - 1], (s_ + 1) * hs - dims[0, s_, 1])
    S.eq('canary.gap_xbnds_first_is_half_side', row[0], hs / 2, canary=(scps[0] != 0))


xbnds_gap.cname = 'Core._calculate_gap_xbnds'


def configs(tier):
    out = [(row_init, {}), (inner_step, {}), (row_exit, {}), (telescope, {}),
           (whole, dict(n=2, same=True)), (whole, dict(n=3, same=True, pad=2)),
           (whole, dict(n=2, m=2)), (whole, dict(n=2, m=3)), (whole, dict(n=2, m=2, equal_halves=True)), (whole, dict(n=3, m=2)), (whole, dict(n=3, m=4, pad=2))]
    out += [(xbnds_rodded, dict(n_ring=2)), (xbnds_rodded, dict(n_ring=3, n_duct=2)), (xbnds_unrodded, dict()),
            (xbnds_gap, dict(scps=[1, 1, 2, 2, 0, 1])), (xbnds_gap, dict(scps=[3, 0, 0, 3, 3, 3], pad=0))]
    if tier == 'thorough':
        out += [(xbnds_rodded, dict(n_ring=5, n_duct=3)), (xbnds_unrodded, dict(model='6node'))]
        out += [(whole, dict(n=4, m=3)), (whole, dict(n=3, m=5))]
    return out


# ---------------------------------------------------------------------------------------
# (D) bounded: run-time contracts on reactor-built maps
def _check_maps(r):
    bad = []
    n_maps = 0
    for a, asm in enumerate(r.assemblies):
        raw = np.asarray(r.core._asm_sc_xbnds[a], dtype=float)
        for ri, reg in enumerate(asm.region):
            xb = np.asarray(reg.calculate_xbnds(), dtype=float)
            F, G = reg._map['gap2duct'], reg._map['duct2gap']
            n_maps += 1
            tag = f'asm {a} region {ri}'
            P = xb[-1]
            c = raw[raw > 0]
            m, n = len(c), len(xb) - 2
            tol = 1e-9 * P
            if not (xb[0] == 0 and np.all(np.diff(xb) > 0) and abs(xb[1] - (P - xb[-2])) <= tol):
                bad.append(f'{tag}: precondition on calculate_xbnds fails: {xb[:3]} ... {xb[-3:]}')
                continue
            if not (np.all(np.diff(c) > 0) and c[-1] < P):
                bad.append(f'{tag}: precondition on gap boundaries fails: {c[:3]} ... {c[-3:]} P={P}')
                continue
            if F.shape != (n, len(raw)) or G.shape != (len(raw), n):
                bad.append(f'{tag}: shapes {F.shape} {G.shape}, expected ({n},{len(raw)})')
                continue
            w = np.append(np.diff(xb[1:-1]), (P - xb[-2]) + xb[1])
            u = np.append(np.diff(c), (P - c[-1]) + c[0])
            coincide = (m == n) and bool(np.allclose(c, xb[1:-1]))
            if F.min() < 0 or G.min() < 0:
                bad.append(f'{tag}: negative weight {min(F.min(), G.min())}')
            if np.abs(F.sum(axis=1) - 1).max() > 1e-9 or np.abs(G[:m].sum(axis=1) - 1).max() > 1e-9:
                bad.append(f'{tag}: a uniform field is not reproduced: row sums deviate by '
                           f'{max(np.abs(F.sum(axis=1) - 1).max(), np.abs(G[:m].sum(axis=1) - 1).max()):.3e}')
            if np.abs(F[:, m:]).max(initial=0) > 0 or np.abs(G[m:]).max(initial=0) > 0:
                bad.append(f'{tag}: weights on padding cells')
            ctol = 3e-5 * P if coincide else 1e-9 * P
            e1 = np.abs(w @ F[:, :m] - u).max()
            e2 = np.abs(u @ G[:m] - w).max()
            if e1 > ctol or e2 > ctol:
                bad.append(f'{tag}: perimeter-weighted integral not preserved: gap->duct {e1:.3e}, duct->gap {e2:.3e}')
            if coincide and (np.abs(F[:, :m] - np.identity(n)).max() > 0 or np.abs(G[:m] - np.identity(n)).max() > 0):
                bad.append(f'{tag}: coinciding meshes not mapped by the identity')
    return n_maps, bad


def _runtime_case(case):
    import sys
    import os
    import shutil
    import tempfile
    sys.path.insert(0, os.environ.get('DASSH_REPO', '/repo'))
    from pvc import geninput as Gn
    name, a, b, kw = case
    wd = tempfile.mkdtemp(prefix='c10_')
    try:
        asms = {'A': dict(n_ring=a, pitch=0.036 / a, dpin=0.030 / a, wire=0.004 / a, **kw.get('A', {})),
                'B': dict(n_ring=b, pitch=0.0364 / b, dpin=0.030 / b, wire=0.004 / b, **kw.get('B', {}))}
        pos = [('A', 1, 1, 5.0)] + [('B' if k % 2 else 'A', 2, k, 5.0) for k in range(1, 7)]
        if kw.get('holes'):
            pos = [p for p in pos if (p[1], p[2]) not in kw['holes']]
        p = Gn.write_problem(wd, asms=asms, positions=pos, gap_model='flow')
        inp, r = Gn.build(p)
        n_maps, bad = _check_maps(r)
        return name, n_maps, bad
    except BaseException as e:
        return name, 0, [f'{type(e).__name__}: {e}']
    finally:
        shutil.rmtree(wd, ignore_errors=True)


def _runtime_cases(tier):
    rings = [2, 3, 4, 6, 9, 15] if tier == 'quick' else list(range(2, 16))
    cases = [(f'rings[{a},{b}]', a, b, {}) for a in rings for b in rings]
    cases += [(f'unrodded[{a},{b}]', a, b, {'A': dict(unrodded=[('lower', 0.0, 0.3, 'simple'), ('upper', 0.8, 1.0, '6node')])})
              for a, b in ((2, 3), (3, 3), (5, 2), (2, 7))]
    cases += [(f'double_duct[{a},{b}]', a, b, {'A': dict(n_duct=2), 'B': dict(n_duct=2)}) for a, b in ((2, 3), (4, 4), (6, 3))]
    cases += [(f'holes[{a},{b}]', a, b, {'holes': [(2, 2), (2, 5)]}) for a, b in ((2, 3), (3, 5))]
    return cases


def extra_checks(tier, seed):
    import multiprocessing as mp
    import time
    t0 = time.time()
    cases = _runtime_cases(tier)
    with mp.get_context('fork').Pool(12) as pool:
        res = pool.map(_runtime_case, cases, chunksize=1)
    secs = time.time() - t0
    results = []
    for (name, n_maps, bad), case in zip(res, cases):
        ok = not bad and n_maps > 0
        results.append(dict(name=f'runtime.maps[{name}]', status='proved' if ok else 'refuted',
                            backend='bounded:run-time contract', seconds=secs / len(cases),
                            detail=('; '.join(bad)[:600] if bad else f'{n_maps} maps'), sample=(name == 'rings[3,9]'),
                            witness=dict(values=dict(case=name)),
                            replay=dict(reproduced=not ok, point=dict(values=dict(case=name)), native='; '.join(bad)[:600])))
    return [dict(name='reactor-built mesh maps (run-time contracts)', results=results,
                 notes=['BOUNDED: runtime.maps[*] are run-time contracts on the maps of generated cores'])]


def replay(doc):
    w = (doc.get('witness') or {}).get('values') or {}
    cases = [c for c in _runtime_cases('thorough') if c[0] == w.get('case')]
    if not cases:
        print('replay: symbolic obligation - re-run ./check C10 to reproduce; witness:', json_short(doc.get('witness')))
        return 0
    name, n_maps, bad = _runtime_case(cases[0])
    for b in bad:
        print('replay:', b)
    print('REPRODUCED' if bad else 'not reproduced')
    return 1 if bad else 0


def json_short(x):
    import json
    return json.dumps(x, default=str)[:800]
