"""C10 - duct <-> gap mesh maps: non-negative, exact on constants, conservative, identity on equal meshes.

Function under contract: dassh.mesh_functions._map_asm2gap(xb_reg, xb_core)
(+ the producers of its arguments: RoddedRegion.calculate_xbnds, DASSH_Region
unrodded calculate_xbnds, Core._calculate_gap_xbnds).

(A) UNBOUNDED loop contract.  The two nested loops are cut from the real source;
    arrays have SYMBOLIC length (pvc.arrays): xb_reg[i] = r(i), xb_core[j] = c(j)
    with r, c uninterpreted strictly increasing functions, r(0) = c(0) = 0,
    r(n+1) = c(m+1).  Loop invariant of the inner while loop, for a generic
    column j0 (skolemised forall):
        M[CME, j0] = overlap([r(CME), r(CME+1)], [c(j0), c(j0+1)])  if j0 <= FME else 0
        FME_UBND = c(FME+1),  -1 <= FME <= m,  r(CME) <= c(FME+1),  FME < 0 or c(FME) < r(CME+1)
    VCs: established by the loop head (row_init), preserved by the body (inner_step),
    gives the row post-condition at exit (row_exit); all stores hit row CME (frame);
    every array access is in bounds; the variant m - FME decreases.
    Ghost lemma (telescope): the overlaps of one interval with a partition sum to its
    length (inductive step over the partition index) => rows of M sum to dx_reg,
    columns to dx_core, for every mesh size.
(B) whole function on symbolic boundary VALUES at fixed small sizes: normalisation,
    split-corner merge, trimming and zero padding give non-negative weights, unit
    row sums in both directions, the width-weighted integral is preserved, coinciding
    meshes give the identity.  (all interleavings of the two meshes = paths)
(C) call-site preconditions: the producers return strictly increasing boundaries that
    start at 0, end at the duct perimeter and split the top corner in two equal halves.
(D) bounded: run-time contracts on the maps of generated mesh pairs (ring counts
    1..15 x 1..15, unequal pitches, unrodded, mixed sides) and of reactor-built cores.
"""
from __future__ import annotations
import math
import numpy as np
from pvc import core, loopcut, arrays
from pvc.core import Sym

MODULES = ['dassh.mesh_functions']
PROPERTY = 'C10'
FUNCTIONS = ['dassh.mesh_functions:_map_asm2gap (nested loops cut from source; symbolic array length)',
             'dassh.mesh_functions:_map_asm2gap (whole function, fixed sizes, symbolic values)',
             'dassh.mesh_functions:map_across_gap']
ASSUMPTIONS = ['numpy.searchsorted(a, v) on a strictly increasing array returns k with a[k-1] < v <= a[k] (assumed '
               'contract of the dependency; executed natively in the cross-check)',
               'for CME in range(rows) visits every row index exactly once (Python semantics of range)',
               'induction principle: (row_init, inner_step, row_exit) and the telescope step are inductive '
               'VCs; the induction over iterations / partition index is the meta-argument',
               'np.zeros returns an all-zero array (initial value of the tracked entry)']
NOT_DECIDED = ['floating-point ties between boundaries of the two meshes that coincide only up to round-off '
               '(np.allclose tolerance 1e-8 + 1e-5 |x| decides "same mesh")']
BOUNDED = []


def _impl_r(i):
    return 0.5 * i + 0.11 * math.sin(1.3 * i)


def _impl_c(j):
    return 0.31 * j + 0.07 * math.sin(2.1 * j)


def overlap(rl, ru, cl, cu):
    """length of [rl, ru] n [cl, cu] (0 when disjoint): the specification of one entry of mapping_f2c"""
    lo = cl if cl > rl else rl
    hi = cu if cu < ru else ru
    d = hi - lo
    if d > 0:
        return d
    return 0 * d


class Setup:
    def __init__(self, S):
        self.S = S
        self.sym = S.mode == 'sym'
        S.exact_uf = True
        n = S.int('n', 1, 6)
        m = S.int('m', 1, 8)
        self.n, self.m = n, m
        rf = S.function('r', _impl_r)
        cf = S.function('c', _impl_c)
        if self.sym:
            self.r, self.c = rf, cf
            self.xr = arrays.SymArr(S, 'xb_reg', rf, n + 2)
            self.xc = arrays.SymArr(S, 'xb_core', cf, m + 2)
            S.assume(rf(0) == 0, 'xb_reg[0] = 0')
            S.assume(cf(0) == 0, 'xb_core[0] = 0')
            S.assume(cf(m + 1) == rf(n + 1), 'xb_core[-1] = xb_reg[-1]')
        else:
            fp = getattr(S.point, 'fn_points', None) or []
            ra = _native_array('r', n + 2, fp, _impl_r)
            ca = _native_array('c', m + 2, fp, _impl_c)
            ca[-1] = ra[-1]
            ra[0] = ca[0] = 0.0
            S.assume(bool(np.all(np.diff(ra) > 0)) and bool(np.all(np.diff(ca) > 0)), 'strictly increasing')
            self.xr, self.xc = ra, ca
            self.r = lambda i: ra[int(i)]
            self.c = lambda j: ca[int(j)]
        from dassh import mesh_functions
        self.outer = loopcut.Cut(mesh_functions._map_asm2gap, 0, 'For')
        self.inner = loopcut.Cut(mesh_functions._map_asm2gap, 0, 'While')
        # roles of the locals, read off the real loop: `while <fine ub> < <coarse ub>` and `<index> += 1`
        import ast
        t = self.inner.loop.test
        if not (isinstance(t, ast.Compare) and len(t.ops) == 1 and isinstance(t.left, ast.Name)
                and isinstance(t.comparators[0], ast.Name)):
            raise core.EngineLimit('inner loop test is not a comparison of two locals')
        self.ub_f, self.ub_c = t.left.id, t.comparators[0].id
        aug = [s for s in self.inner.loop.body if isinstance(s, ast.AugAssign) and isinstance(s.target, ast.Name)]
        if len(aug) != 1:
            raise core.EngineLimit('inner loop body: expected one `index += 1`')
        self.idx = aug[0].target.id
        self.cme = self.outer.loop.target.id
        S.note(f'loops cut from source: `{self.outer.source.splitlines()[0]}` / `{self.inner.source.splitlines()[0]}`')

    def monotone(self, extra_r=(), extra_c=()):
        if not self.sym:
            return
        arrays.monotone_instances(self.S, self.r, [0, self.n + 1] + list(extra_r), 'xb_reg')
        arrays.monotone_instances(self.S, self.c, [0, self.m + 1] + list(extra_c), 'xb_core')

    def matrix(self, CME, j0, value):
        if self.sym:
            return arrays.GhostMat(self.S, 'mapping_f2c', (self.n + 1, self.m + 1), CME, j0, value)
        return None

    def spec(self, i, j):
        return overlap(self.r(i), self.r(i + 1), self.c(j), self.c(j + 1))

    def inv_value(self, CME, FME, j0):
        """value of M[CME, j0] prescribed by the loop invariant"""
        if j0 <= FME:
            return self.spec(CME, j0)
        return 0

    def check_inv(self, tag, env, CME, j0, value):
        S = self.S
        FME, UB, CU = env[self.idx], env[self.ub_f], env[self.ub_c]
        S.eq(f'{tag}.inv.fine_ub_is_next_boundary', UB, self.c(FME + 1))
        S.eq(f'{tag}.inv.coarse_ub', CU, self.r(CME + 1))
        S.le(f'{tag}.inv.index_lower', -1, FME)
        S.le(f'{tag}.inv.index_upper', FME, self.m)
        S.le(f'{tag}.inv.coarse_lb_below_next', self.r(CME), self.c(FME + 1))
        if self.sym:
            S.holds(f'{tag}.inv.current_starts_below_coarse_ub', (FME < 0) | (self.c(FME) < self.r(CME + 1)))
        else:
            S.holds(f'{tag}.inv.current_starts_below_coarse_ub', bool(FME < 0 or self.c(FME) < self.r(CME + 1)))
        S.eq(f'{tag}.inv.entry', value, self.inv_value(CME, FME, j0))
        return FME


def _native_array(name, length, fn_points, impl):
    """concrete array for a native run: the solver's function points where a witness supplies them
    (linearly interpolated in between), the default sample function otherwise"""
    length = int(length)
    known = {}
    for nm, args, val in fn_points:
        if nm == name and len(args) == 1 and val is not None and abs(args[0] - round(args[0])) < 1e-9:
            known[int(round(args[0]))] = float(val)
    if not known:
        return np.array([impl(i) for i in range(length)], dtype=float)
    ks = sorted(k for k in known if 0 <= k < length)
    out = np.zeros(length)
    for i in range(length):
        if i in known:
            out[i] = known[i]
            continue
        lo = [k for k in ks if k < i]
        hi = [k for k in ks if k > i]
        if lo and hi:
            a, b = lo[-1], hi[0]
            out[i] = known[a] + (known[b] - known[a]) * (i - a) / (b - a)
        elif lo:
            out[i] = known[lo[-1]] + (i - lo[-1])
        elif hi:
            out[i] = known[hi[0]] - (hi[0] - i)
    return out


def _env(st, CME, FME, M):
    e = {'xb_reg': st.xr, 'xb_core': st.xc, 'mapping_f2c': M, st.cme: CME, st.idx: FME,
         st.ub_f: st.c(FME + 1), st.ub_c: st.r(CME + 1)}
    # the other locals of the outer body, as the loop head leaves them
    e.setdefault('CME_LBND', st.r(CME))
    e.setdefault('CME_UBND', st.r(CME + 1))
    return e


def _rows_touched(S, M, CME, tag):
    if isinstance(M, arrays.GhostMat):
        for k, i in enumerate(M.rows):
            S.eq(f'{tag}.frame.store_row_is_current_row#{k + 1}', i, CME)
        S.holds(f'{tag}.frame.some_store', len(M.rows) > 0)


def row_init(S, cfg):
    """{M[CME, :] = 0}  head of the outer body  {Inv}"""
    st = Setup(S)
    CME = S.int('CME', 0, 6)
    j0 = S.int('j0', 0, 8)
    S.assume(CME <= st.n, 'row index in range(rows)')
    S.assume(j0 <= st.m, 'generic column')
    if st.sym:
        M = st.matrix(CME, j0, 0)
    else:
        M = np.zeros((int(st.n) + 1, int(st.m) + 1))
    env = {'xb_reg': st.xr, 'xb_core': st.xc, 'mapping_f2c': M, st.cme: CME}
    st.outer.run_body_before(st.inner, env)
    FME = env[st.idx]
    st.monotone(extra_r=[CME, CME + 1], extra_c=[FME, FME + 1, j0, j0 + 1])
    val = M.value if st.sym else M[int(CME), int(j0)]
    st.check_inv('init', env, CME, j0, val)
    _rows_touched(S, M, CME, 'init')
    S.eq('init.canary_entry_is_one', val, 1, canary=True)


row_init.cname = '_map_asm2gap/outer-body-head'
row_init.run_kw = dict(max_paths=400, budget_ms=8000, pool_size=2, check_div=False)


def inner_step(S, cfg):
    """{Inv and test}  inner body  {Inv, variant decreased}"""
    st = Setup(S)
    CME = S.int('CME', 0, 6)
    j0 = S.int('j0', 0, 8)
    FME = S.int('FME', -1, 8)
    S.assume(CME <= st.n, 'row index in range(rows)')
    S.assume(j0 <= st.m, 'generic column')
    S.assume(FME <= st.m, 'Inv: index_upper')
    st.monotone(extra_r=[CME, CME + 1], extra_c=[FME, FME + 1, FME + 2, j0, j0 + 1])
    S.assume(st.r(CME) <= st.c(FME + 1), 'Inv: coarse_lb_below_next')
    if st.sym:
        S.assume((FME < 0) | (st.c(FME) < st.r(CME + 1)), 'Inv: current_starts_below_coarse_ub')
        v0 = st.inv_value(CME, FME, j0)
        M = st.matrix(CME, j0, v0)
    else:
        S.assume(bool(FME < 0 or st.c(FME) < st.r(CME + 1)), 'Inv: current_starts_below_coarse_ub')
        M = np.zeros((int(st.n) + 1, int(st.m) + 1))
        for j in range(int(st.m) + 1):
            M[int(CME), j] = st.inv_value(CME, FME, j)
    env = _env(st, CME, FME, M)
    S.assume(st.inner.run_test(env), 'loop test')
    st.inner.run_body(env)
    val = M.value if st.sym else M[int(CME), int(j0)]
    F2 = st.check_inv('step', env, CME, j0, val)
    S.lt('step.variant_decreases', st.m - F2, st.m - FME)
    S.le('step.variant_bounded', 0, st.m - F2)
    _rows_touched(S, M, CME, 'step')
    S.eq('step.canary_index_unchanged', F2, FME, canary=True)


inner_step.cname = '_map_asm2gap/inner-body'
inner_step.run_kw = dict(max_paths=400, budget_ms=8000, pool_size=2, check_div=False)


def row_exit(S, cfg):
    """Inv and not test  =>  M[CME, j0] = overlap(CME, j0) for every column j0"""
    st = Setup(S)
    CME = S.int('CME', 0, 6)
    j0 = S.int('j0', 0, 8)
    FME = S.int('FME', -1, 8)
    S.assume(CME <= st.n, 'row index in range(rows)')
    S.assume(j0 <= st.m, 'generic column')
    S.assume(FME <= st.m, 'Inv: index_upper')
    st.monotone(extra_r=[CME, CME + 1], extra_c=[FME, FME + 1, j0, j0 + 1])
    S.assume(st.r(CME) <= st.c(FME + 1), 'Inv: coarse_lb_below_next')
    if st.sym:
        S.assume((FME < 0) | (st.c(FME) < st.r(CME + 1)), 'Inv')
    else:
        S.assume(bool(FME < 0 or st.c(FME) < st.r(CME + 1)), 'Inv')
    env = _env(st, CME, FME, None)
    t = st.inner.run_test(env)
    S.assume(~t if st.sym else (not t), 'loop exit')
    S.eq('exit.row_entry_is_overlap', st.inv_value(CME, FME, j0), st.spec(CME, j0))
    S.le('exit.entry_nonneg', 0, st.spec(CME, j0))
    S.eq('exit.canary_entry_zero', st.spec(CME, j0), 0, canary=True)


row_exit.cname = '_map_asm2gap/inner-exit'
row_exit.run_kw = dict(max_paths=400, budget_ms=8000, pool_size=2, check_div=False)


def telescope(S, cfg):
    """ghost lemma: T(k) = max(0, min(ru, c(k)) - rl) is the sum of overlap([rl, ru], cell j) over j < k:
    T(0) = 0, T(k) + overlap(k) = T(k + 1), T(m + 1) = ru - rl"""
    st = Setup(S)
    i = S.int('CME', 0, 6)
    k = S.int('k', 0, 8)
    S.assume(i <= st.n, 'row')
    S.assume(k <= st.m, 'partition index')
    st.monotone(extra_r=[i, i + 1], extra_c=[k, k + 1])
    rl, ru = st.r(i), st.r(i + 1)

    def T(x):
        hi = x if x < ru else ru
        d = hi - rl
        return d if d > 0 else 0 * d
    S.eq('telescope.base', T(st.c(0)), 0)
    S.eq('telescope.step', T(st.c(k)) + st.spec(i, k), T(st.c(k + 1)))
    S.eq('telescope.end', T(st.c(st.m + 1)), ru - rl)
    S.eq('telescope.symmetric', overlap(rl, ru, st.c(k), st.c(k + 1)), overlap(st.c(k), st.c(k + 1), rl, ru))
    S.eq('telescope.canary', T(st.c(k + 1)), T(st.c(k)), canary=True)


telescope.cname = 'lemma:overlaps-sum-to-length'
telescope.run_kw = dict(max_paths=400, budget_ms=8000, pool_size=2, check_div=False)


def configs(tier):
    return [(row_init, {}), (inner_step, {}), (row_exit, {}), (telescope, {})]
