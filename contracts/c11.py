"""C11 - duct-wall temperatures solve steady 1-D conduction with the stated BCs.

Functions under contract:
  dassh.region_rodded.RoddedRegion._calc_duct_temp, _calc_duct_power
  dassh.region_unrodded.SingleNodeHomogeneous._calc_duct_temp (MultiNode inherits it)
Right-hand sides are the boundary-value problem of the property statement; the
code's c1/c2 algebra is not repeated here.
"""
from __future__ import annotations
import numpy as np
from . import common
from .common import make_rodded, set_int_params, set_temps, make_unrodded

MODULES = common.RR_MODULES + common.UR_MODULES
PROPERTY = 'C11'
FUNCTIONS = ['dassh.region_rodded:RoddedRegion._calc_duct_temp', 'dassh.region_rodded:RoddedRegion._calc_duct_power',
             'dassh.region_unrodded:SingleNodeHomogeneous._calc_duct_temp',
             'dassh.region_unrodded:MultiNodeHomogeneous._calc_duct_temp (inherited)']
ASSUMPTIONS = []
NOT_DECIDED = []
BOUNDED = []


def _wall_obligations(S, tag, k, t, q3t, h_in, T_ci, h_out, T_co, Ts_in, Tmw, Ts_out, adiabatic,
                      block):
    """q3t = q''' * t (heat generated per unit wall face area)"""
    c1 = (Ts_out - Ts_in) / t                       # slope of the reported parabola at mid-wall
    flux_in = -(q3t / 2) - k * c1                   # -k T'(-t/2)
    flux_out = q3t / 2 - k * c1                     # -k T'(+t/2)
    S.eq(f'bc.inner{tag}', h_in * (T_ci - Ts_in), flux_in, block=block)
    if adiabatic:
        S.eq(f'bc.adiabatic{tag}', k * c1, q3t / 2, block=block)
        S.eq(f'balance{tag}', h_in * (Ts_in - T_ci), q3t, block=block)
    else:
        S.eq(f'bc.outer{tag}', flux_out, h_out * (Ts_out - T_co), block=block)
        S.eq(f'balance{tag}', h_in * (T_ci - Ts_in) + q3t, h_out * (Ts_out - T_co), block=block)
    S.eq(f'parabola{tag}', Tmw, (Ts_in + Ts_out) / 2 + q3t * t / (8 * k), block=block)


def duct_rodded(S, cfg):
    n_duct, adiabatic = cfg['n_duct'], cfg['adiabatic']
    rr = make_rodded(S, n_ring=cfg.get('n_ring', 2), n_duct=n_duct, tdep=cfg.get('tdep', False))
    set_int_params(S, rr)
    set_temps(S, rr)
    nd = rr.subchannel.n_sc['duct']['total']
    n_int = rr.subchannel.n_sc['coolant']['interior']
    heated = cfg.get('heated', True)
    p_duct = S.vec('pduct', n_duct * nd, 'real', 0.0, 5e4) if heated else None
    T_gap = S.vec('Tgap', nd, 'pos', 600.0, 900.0)
    if cfg.get('hgap_per_cell', False):
        h_gap = S.vec('hgap', nd, 'pos', 1e4, 1e5)
        h_gap_cell = h_gap
    else:
        h_gap = S.vec('hgap', 2, 'pos', 1e4, 1e5)
        h_gap_cell = h_gap[rr._duct_idx]
    # pre-state
    Tc = rr.temp['coolant_int'].copy()
    Tb = rr.temp['coolant_byp'].copy() if rr.n_bypass else None
    k_pre = []
    avg = rr.avg_duct_mw_temp
    for i in range(n_duct):
        k_pre.append(rr.duct._data['thermal_conductivity'](avg[i]))
    block = (S.names('pduct', n_duct * nd) + S.names('Tgap', nd) + S.names('Tc', len(Tc))
             + (S.names('Tb', (rr.n_bypass, nd)) if rr.n_bypass else []))

    rr._calc_duct_temp(p_duct, T_gap, h_gap, adiabatic)

    for i in range(n_duct):
        t = rr.duct_params['thickness'][i]
        # geometry facts used above (face length of the cell the power is spread over)
        S.eq(f'power.density[d{i},edge]', rr.duct_params['q_area'][i, 0], t * rr.pin_pitch)
        S.eq(f'power.density[d{i},corner]', rr.duct_params['q_area'][i, 1], 2 * t * rr.d['wcorner'][i, 1])
        for c in range(nd):
            ty = rr._duct_idx[c]
            # heat generated per unit wall face = linear power / face length; the
            # face length is q_area / thickness (geometry contract: power.density)
            face = rr.duct_params['q_area'][i, ty] / t
            q3t = (p_duct[i * nd + c] / face) if heated else 0
            if i == 0:
                h_in, T_ci = rr.coolant_int_params['htc'][1 + ty], Tc[n_int + c]
            else:
                h_in, T_ci = rr.coolant_byp_params['htc'][i - 1, ty], Tb[i - 1, c]
            if i == n_duct - 1:
                h_out, T_co = h_gap_cell[c], T_gap[c]
            else:
                h_out, T_co = rr.coolant_byp_params['htc'][i, ty], Tb[i, c]
            Ts_in, Tmw, Ts_out = rr.temp['duct_surf'][i, 0, c], rr.temp['duct_mw'][i, c], \
                rr.temp['duct_surf'][i, 1, c]
            adi = adiabatic and i == n_duct - 1
            tag = f'[d{i},c{c}]'
            _wall_obligations(S, tag, k_pre[i], t, q3t, h_in, T_ci, h_out, T_co, Ts_in, Tmw, Ts_out,
                              adi, block if not cfg.get('tdep') else None)
            if not heated:
                if adi:
                    S.eq(f'order.adiabatic{tag}', [Ts_in, Tmw, Ts_out], [T_ci, T_ci, T_ci])
                else:
                    d = T_co - T_ci
                    S.le(f'order.inner{tag}', 0, (Ts_in - T_ci) * d)
                    S.le(f'order.mid_in{tag}', 0, (Tmw - Ts_in) * d)
                    S.le(f'order.mid_out{tag}', 0, (Ts_out - Tmw) * d)
                    S.le(f'order.outer{tag}', 0, (T_co - Ts_out) * d)
    if heated:
        # canary: the energy balance with the wall heating doubled must be refuted
        i, c = 0, 0
        ty = rr._duct_idx[c]
        face = rr.duct_params['q_area'][i, ty] / rr.duct_params['thickness'][i]
        h_in, T_ci = rr.coolant_int_params['htc'][1 + ty], Tc[n_int + c]
        S.eq('canary.balance_doubled', h_in * (T_ci - rr.temp['duct_surf'][0, 0, 0])
             + 2 * p_duct[0] / face,
             -rr.duct_params['thickness'][0] * 0 + (h_in * (T_ci - rr.temp['duct_surf'][0, 0, 0])
                                                    + p_duct[0] / face), canary=True)
duct_rodded.cname = 'RoddedRegion._calc_duct_temp'


def duct_unrodded(S, cfg):
    ur = make_unrodded(S, model=cfg['model'], tdep=cfg.get('tdep', False))
    nn = 1 if cfg['model'] == 'simple' else 6
    ur.temp['coolant_int'] = S.vec('Tc', nn, 'pos', 600.0, 900.0)
    ur.temp['duct_mw'] = S.vec('Tmw', (1, 6), 'pos', 600.0, 900.0)
    ur.temp['duct_surf'] = S.vec('Ts', (1, 2, 6), 'pos', 600.0, 900.0)
    ur.coolant_params['htc'] = S.pos('htc', 1e4, 1e5)
    T_gap = S.vec('Tgap', 6, 'pos', 600.0, 900.0)
    h_gap = S.vec('hgap', 6, 'pos', 1e4, 1e5) if cfg.get('hgap_per_cell') else S.pos('hgap', 1e4, 1e5)
    Tc = ur.temp['coolant_int'].copy()
    k = ur.duct._data['thermal_conductivity'](ur.avg_duct_mw_temp[0])
    block = S.names('Tc', nn) + S.names('Tgap', 6)
    ur._calc_duct_temp(T_gap, h_gap, cfg['adiabatic'])
    t = ur.duct_thickness
    S.eq('thickness', t, (ur._ftf[1] - ur._ftf[0]) / 2)
    for c in range(6):
        T_ci = Tc[c] if nn == 6 else Tc[0]
        h_out = h_gap[c] if cfg.get('hgap_per_cell') else h_gap
        Ts_in, Tmw, Ts_out = ur.temp['duct_surf'][0, 0, c], ur.temp['duct_mw'][0, c], ur.temp['duct_surf'][0, 1, c]
        tag = f'[c{c}]'
        if cfg['adiabatic']:
            # no heating and no outer flux: the wall is at the coolant temperature
            S.eq(f'order.adiabatic{tag}', [Ts_in, Tmw, Ts_out], [T_ci, T_ci, T_ci])
            continue
        _wall_obligations(S, tag, k, t, 0, ur.coolant_params['htc'], T_ci, h_out, T_gap[c], Ts_in, Tmw,
                          Ts_out, False, block if not cfg.get('tdep') else None)
        d = T_gap[c] - T_ci
        S.le(f'order.inner{tag}', 0, (Ts_in - T_ci) * d)
        S.le(f'order.mid_in{tag}', 0, (Tmw - Ts_in) * d)
        S.le(f'order.mid_out{tag}', 0, (Ts_out - Tmw) * d)
        S.le(f'order.outer{tag}', 0, (T_gap[c] - Ts_out) * d)
    if not cfg['adiabatic']:
        S.eq('canary.no_inner_film', ur.temp['duct_surf'][0, 0, 0], Tc[0], canary=True)
duct_unrodded.cname = 'SingleNodeHomogeneous._calc_duct_temp'


def configs(tier):
    out = []
    for n_duct in (1, 2, 3):
        for adi in (False, True):
            out.append((duct_rodded, dict(n_duct=n_duct, adiabatic=adi, heated=True)))
    out.append((duct_rodded, dict(n_duct=1, adiabatic=False, heated=False)))
    out.append((duct_rodded, dict(n_duct=2, adiabatic=False, heated=False)))
    out.append((duct_rodded, dict(n_duct=1, adiabatic=True, heated=False)))
    out.append((duct_rodded, dict(n_duct=1, adiabatic=False, heated=True, hgap_per_cell=True)))
    for model in ('simple', '6node'):
        for adi in (False, True):
            out.append((duct_unrodded, dict(model=model, adiabatic=adi)))
    out.append((duct_unrodded, dict(model='simple', adiabatic=False, hgap_per_cell=True)))
    # temperature-dependent wall conductivity (an uninterpreted positive function of temperature): every constant of
    # the wall solve must use the conductivity at THIS duct's present mean temperature, not a value left behind by the
    # previous duct or the previous step
    out.append((duct_rodded, dict(n_duct=2, adiabatic=False, heated=True, tdep=True)))
    out.append((duct_rodded, dict(n_duct=1, adiabatic=True, heated=True, tdep=True)))
    out.append((duct_unrodded, dict(model='6node', adiabatic=False, tdep=True)))
    if tier == 'thorough':
        out.append((duct_rodded, dict(n_duct=3, adiabatic=False, heated=True, tdep=True)))
        out.append((duct_rodded, dict(n_duct=1, adiabatic=False, heated=True, n_ring=3)))
        out.append((duct_rodded, dict(n_duct=3, adiabatic=False, heated=False)))
        out.append((duct_rodded, dict(n_duct=3, adiabatic=True, heated=True, n_ring=4)))
        out.append((duct_unrodded, dict(model='simple', adiabatic=True, tdep=True)))
    return out
