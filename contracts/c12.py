"""C12 - flow split conserves mass and equalises subchannel pressure gradients.

Proved (all real geometries through the geometry contract, friction constants and
Reynolds bounds as positive atoms = assumed contract of the fitted correlations):
  CTD / UCTD constant (laminar, turbulent) splits: mass conservation, positivity,
  equal subchannel pressure gradients, and equality with the bundle gradient given
  by the REAL _calc_cfb (generalised monomials: rational exponents, exact power laws);
  NOV and MIT splits: mass conservation and positivity;
  CTD transition / spacer-grid iteration (_iterate, loop cut from the source): the
  values it returns conserve mass, are positive and equalise the gradients built from
  the friction + grid loss terms of the iteration;
  sc_mfr / _setup_flowrate: subchannel flows = area share x split, sum = bundle flow.
Bounded (run-time contracts on the real RoddedRegion with the real correlations):
  every accepted (friction, flow split, mixing) triple x laminar / transition /
  turbulent incl. the regime boundaries, with and without spacer grid: no exception,
  mass conserved to 1e-6, positive finite friction factor, non-negative finite mixing.
"""
from __future__ import annotations
import itertools
import time
from fractions import Fraction
import numpy as np
from . import common
from .common import make_rodded, set_int_params, patched
from pvc import core, loopcut
from pvc.core import Sym

MODULES = common.RR_MODULES + ['dassh.correlations.flowsplit_ctd', 'dassh.correlations.flowsplit_uctd',
                               'dassh.correlations.flowsplit_nov', 'dassh.correlations.flowsplit_mit',
                               'dassh.correlations.friction_ctd', 'dassh.correlations.corr_utils']
PROPERTY = 'C12'
FUNCTIONS = ['dassh.correlations.flowsplit_ctd:calc_constants', 'dassh.correlations.flowsplit_ctd:_calc_regime_ratio_constants',
             'dassh.correlations.flowsplit_ctd:_calc_constant_flowsplits', 'dassh.correlations.flowsplit_ctd:_iterate (loop body)',
             'dassh.correlations.flowsplit_ctd:_calc_ffb_tr', 'dassh.correlations.friction_ctd:_calc_cfb',
             'dassh.correlations.flowsplit_nov:calculate_flow_split', 'dassh.correlations.flowsplit_mit:calculate_flow_split',
             'dassh.region_rodded:RoddedRegion.sc_mfr', 'dassh.region_rodded:RoddedRegion._setup_flowrate',
             'all friction / flow split / mixing correlations (bounded run-time contract on 120 triples)']
ASSUMPTIONS = ['subchannel friction constants Cf_sc, Reynolds bounds and the MIT geometric factor are positive atoms: the '
               'fitted correlation formulas that produce them (logs and powers of P/D, H/D) are dependencies',
               'float exponents such as (1+m)/(2-m) are read as the exact ratios (59/91, 50/91, 91/50, ...)']
NOT_DECIDED = ['positivity / finiteness of the fitted constants beyond the applicability ranges',
               'SE2 flow split symbolically (covered by the bounded run-time contract only)',
               'convergence of the transition iteration (its iteration limit raises StopIteration and the caller falls '
               'back to the approximate split)']
BOUNDED = ['total.* run-time contracts: 6 x 5 x 4 correlation triples x 7 Reynolds numbers (laminar, both regime '
           'boundaries +/- and exact, transition, turbulent) x spacer grid off/on at two geometries']
M = {'laminar': Fraction(1), 'turbulent': Fraction(18, 100)}


def _bundle(S, n_ring):
    rr = make_rodded(S, n_ring=n_ring, n_duct=1)
    set_int_params(S, rr)
    return rr


def _ctd_constants(S, rr, which):
    """stub of friction_ctd/uctd.calc_constants: positive atoms (assumed contract of the fits)"""
    return {'Cf_sc': {'laminar': S.vec(f'Cf_L', 3, 'pos', 40.0, 120.0), 'turbulent': S.vec('Cf_T', 3, 'pos', 0.1, 0.4)},
            'Re_bnds': [S.pos('Re_bl', 400.0, 900.0), S.pos('Re_bl', 400.0, 900.0) + S.pos('Re_gap', 5e3, 2e4)],
            'Cf_b': None}


def ctd_constant(S, cfg):
    from dassh.correlations import flowsplit_ctd as fsc, friction_ctd as ffc
    rr = _bundle(S, cfg['n_ring'])
    const = _ctd_constants(S, rr, 'ctd')
    with patched((ffc, 'calc_constants', lambda asm: dict(const))):
        c = fsc.calc_constants(rr)
    n_sc = [rr.subchannel.n_sc['coolant'][k] for k in ('interior', 'edge', 'corner')]
    A, De = rr.params['area'], rr.params['de']
    Ab, Deb = rr.bundle_params['area'], rr.bundle_params['de']
    cfb = ffc._calc_cfb(rr, const['Cf_sc'])
    for r in ('laminar', 'turbulent'):
        x = c['fs'][r]
        m = M[r]
        Cf = const['Cf_sc'][r]
        S.eq(f'fs.mass[{r}]', sum(n_sc[t] * A[t] * x[t] for t in range(3)), Ab)
        for t in range(3):
            S.lt(f'fs.positive[{r},{t}]', 0, x[t])
        g = [Cf[t] * x[t] ** (2 - m) * De[t] ** (-(1 + m)) for t in range(3)]
        S.eq(f'fs.equal_gradient[{r},int-edge]', g[0], g[1])
        S.eq(f'fs.equal_gradient[{r},corner-edge]', g[2], g[1])
        S.eq(f'fs.bundle_gradient[{r}]', g[1], cfb[r] * Deb ** (-(1 + m)))
        S.lt(f'ff.bundle_constant_positive[{r}]', 0, cfb[r])
    S.eq('canary.equal_flow', c['fs']['turbulent'][0], c['fs']['turbulent'][1], canary=True)
ctd_constant.cname = 'flowsplit_ctd.calc_constants'


def nov_mit(S, cfg):
    from dassh.correlations import flowsplit_nov, flowsplit_mit, corr_utils
    rr = _bundle(S, cfg['n_ring'])
    n_sc = [rr.subchannel.n_sc['coolant'][k] for k in ('interior', 'edge', 'corner')]
    A = rr.params['area']
    Ab = rr.bundle_params['area']
    x = flowsplit_nov.calculate_flow_split(rr, shortcut=False)
    S.eq('fs.mass[nov]', sum(n_sc[t] * A[t] * x[t] for t in range(3)), Ab)
    for t in range(3):
        S.lt(f'fs.positive[nov,{t}]', 0, x[t])
    # MIT: the bare-rod areas / wire projections enter through corr_utils (dependency: positive atoms)
    AS = S.vec('mit_AS', 3, 'pos', 1e-5, 3e-5)
    AR = S.vec('mit_AR', 3, 'pos', 1e-6, 5e-6)
    with patched((corr_utils, 'calculate_bare_rod_sc_area', lambda *a: AS), (corr_utils, 'calculate_wproj', lambda *a: AR)):
        rr.corr_constants['fs'] = {}
        xm = flowsplit_mit.calculate_flow_split(rr)
    S.eq('fs.mass[mit]', sum(n_sc[t] * A[t] * xm[t] for t in range(3)), Ab)
    for t in range(3):
        S.lt(f'fs.positive[mit,{t}]', 0, xm[t])
    S.eq('canary.nov_uniform', x[0], x[2], canary=True)
nov_mit.cname = 'flowsplit_nov/mit.calculate_flow_split'
nov_mit.run_kw = dict(check_div=False)


def iterate_body(S, cfg):
    """one iteration of the transition / spacer-grid loop of _iterate that ends in its `return`:
    whatever the previous iterate was, the returned values conserve mass, are positive and
    equalise the gradients t_i x_i^2 of the friction + grid terms of this iteration"""
    from dassh.correlations import flowsplit_ctd as fsc
    s = S.vec('s', 3, 'pos', 0.1, 0.6)            # N_i A_i / A_b ; the caller passes shares that sum to one
    De_i = S.vec('De_i', 3, 'pos', 0.002, 0.005)
    De_b = S.pos('De_b', 0.002, 0.005)
    Re = S.pos('Re', 1e3, 1e4)
    Re_iL = S.vec('Re_iL', 3, 'pos', 300.0, 900.0)
    Re_iT = np.array([Re_iL[i] + S.pos(f'Re_gap{i}', 5e3, 2e4) for i in range(3)], dtype=object if S.mode == 'sym' else float)
    Cf_iL = S.vec('Cf_iL', 3, 'pos', 40.0, 120.0)
    Cf_iT = S.vec('Cf_iT', 3, 'pos', 0.1, 0.4)
    grid = cfg.get('grid', False)
    GLC = S.vec('GLC', 3, 'pos', 0.5, 3.0) if grid else (np.zeros(3) if S.mode != 'sym' else np.array([0, 0, 0], dtype=object))
    L = S.pos('L', 0.5, 2.0)
    ff = S.vec('ff_tr', 3, 'pos', 0.02, 0.08)     # transition friction factors of this iteration (positive: see ffb_tr)
    cut = loopcut.Cut(fsc._iterate, 0, kind='For')
    S.note(f'loop cut from source: `{cut.source.splitlines()[0]}`')
    x_prev = S.vec('x_prev', 3, 'pos', 0.8, 1.2)
    env = dict(Re=Re, s=s, De_i=De_i, De_b=De_b, Re_iL=Re_iL, Re_iT=Re_iT, Cf_iL=Cf_iL, Cf_iT=Cf_iT, GLC_i=GLC, L=L,
               lam=None, x1=x_prev[0], x2=x_prev[1], x3=x_prev[2], Dei_over_Deb=De_i / De_b, L_over_Dei=L / De_i,
               log10_ReiT_over_ReiL=None, iteration=0, stop_msg='')
    seen = {}

    def ffb_rec(ff_iL, ff_iT, INT_i, gamma, lam):
        seen.update(ff_iL=ff_iL, ff_iT=ff_iT, INT=INT_i)
        return ff
    with patched((fsc, '_calc_ffb_tr', ffb_rec), (fsc.np if False else fsc, 'abs', lambda v: 0)):
        # abs(...) < 1e-5 is forced true: the iteration that returns
        env['log10_ReiT_over_ReiL'] = S.vec('logratio', 3, 'pos', 0.5, 2.0)
        out = cut.run_body_fn(env)
    S.holds('iterate.returns', out[0] == 'return')
    # the friction terms of the iteration are those of the TRUE subchannel Reynolds numbers Re x_i De_i / De_b,
    # whatever regime window they fall in; only the intermittency factor is clipped to [0, 1]
    lr = env['log10_ReiT_over_ReiL']
    for i in range(3):
        Re_i = Re * x_prev[i] * env['Dei_over_Deb'][i]
        S.eq(f'iterate.laminar_friction_at_true_Re[{i}]', seen['ff_iL'][i] * Re_i, Cf_iL[i])
        S.eq(f'iterate.turbulent_friction_at_true_Re[{i}]', seen['ff_iT'][i] * Re_i ** float(M['turbulent']), Cf_iT[i])
        raw = fsc.np.log10(Re_i / Re_iL[i]) / lr[i]
        want = 1 if raw > 1 else (0 if raw < 0 else raw)
        S.eq(f'iterate.intermittency_clipped[{i}]', seen['INT'][i], want)
    x1, x2, x3 = out[1]
    t = ff * (L / De_i) + GLC
    S.eq('fs.mass[iterate]', s[0] * x1 + s[1] * x2 + s[2] * x3, 1)
    for nm, v in (('x1', x1), ('x2', x2), ('x3', x3)):
        S.lt(f'fs.positive[iterate,{nm}]', 0, v)
    S.eq('fs.transition_fixed_point[int-edge]', t[0] * x1 * x1, t[1] * x2 * x2)
    S.eq('fs.transition_fixed_point[corner-edge]', t[2] * x3 * x3, t[1] * x2 * x2)
    S.eq('canary.iterate_keeps_previous', x2, x_prev[1], canary=True)
iterate_body.cname = 'flowsplit_ctd._iterate/loop-body'
iterate_body.run_kw = dict(check_div=False, max_paths=200)


def transition_args(S, cfg):
    """the set-up of the transition / spacer-grid iteration: the real _calc_transition_flowsplit and
    _calc_bundle_plus_grid_flow_split hand _iterate (stubbed here by a recorder; its own contract is
    iterate_body) the Cheng-Todreas subchannel quantities
        s_i = N_i A_i / A_b,   Re_iL = Re_bL (De_i/De_b) X_i,laminar,   Re_iT = Re_bT (De_i/De_b) X_i,turbulent
    (the subchannel Reynolds number Re_i = Re_b X_i De_i/De_b evaluated at the two regime boundaries with the split of
    that regime), the laminar / turbulent friction constants in that order, and - with grids - the loss
    coefficient times the number of grids over the bundle length; and return what the iteration returns."""
    from dassh.correlations import flowsplit_ctd as fsc, friction_ctd as ffc
    rr = _bundle(S, cfg['n_ring'])
    const = _ctd_constants(S, rr, 'ctd')
    with patched((ffc, 'calc_constants', lambda asm: dict(const))):
        rr.corr_constants['fs'] = fsc.calc_constants(rr)
    C = rr.corr_constants['fs']
    rec = {}
    ret = S.vec('x_iter', 3, 'pos', 0.8, 1.2)

    def recorder(Re, s, De_i, De_b, Re_iL, Re_iT, Cf_iL, Cf_iT, GLC_i=None, L=1.0, lam=None):
        rec.update(Re=Re, s=s, De_i=De_i, De_b=De_b, Re_iL=Re_iL, Re_iT=Re_iT, Cf_iL=Cf_iL, Cf_iT=Cf_iT,
                   GLC_i=GLC_i, L=L, lam=lam)
        return [ret[0], ret[1], ret[2]]
    grid = cfg.get('grid', False)
    lam = cfg.get('lam')
    lam_v = S.pos('lambda', 5.0, 9.0) if lam else None
    if grid:
        rr.corr_constants['grid'] = {'n': cfg.get('n_grid', 3)}
        rr.coolant_int_params['grid_loss_coeff'] = S.vec('glc', 3, 'pos', 0.5, 3.0)
        rr.z = [S.nonneg('z_lo', 0.0, 0.5), S.nonneg('z_lo', 0.0, 0.5) + S.pos('L_bundle', 0.5, 3.0)]
    with patched((fsc, '_iterate', recorder)):
        if grid:
            x = fsc._calc_bundle_plus_grid_flow_split(rr, C['Cf_sc'], lam_v)
        else:
            x = fsc._calc_transition_flowsplit(rr, lam_v)
    S.holds('transition.iterate_called', bool(rec))
    n_sc = [rr.subchannel.n_sc['coolant'][k] for k in ('interior', 'edge', 'corner')]
    A, De = rr.params['area'], rr.params['de']
    Ab, Deb = rr.bundle_params['area'], rr.bundle_params['de']
    tag = 'grid' if grid else 'transition'
    S.eq(f'{tag}.Re', rec['Re'], rr.coolant_int_params['Re'])
    S.eq(f'{tag}.De_b', rec['De_b'], Deb)
    for t in range(3):
        S.eq(f'{tag}.area_share[{t}]', rec['s'][t], n_sc[t] * A[t] / Ab)
        S.eq(f'{tag}.De_i[{t}]', rec['De_i'][t], De[t])
        S.eq(f'{tag}.Re_iL[{t}]', rec['Re_iL'][t], C['Re_bnds'][0] * De[t] / Deb * C['fs']['laminar'][t])
        S.eq(f'{tag}.Re_iT[{t}]', rec['Re_iT'][t], C['Re_bnds'][1] * De[t] / Deb * C['fs']['turbulent'][t])
        S.eq(f'{tag}.Cf_iL[{t}]', rec['Cf_iL'][t], C['Cf_sc']['laminar'][t])
        S.eq(f'{tag}.Cf_iT[{t}]', rec['Cf_iT'][t], C['Cf_sc']['turbulent'][t])
        S.eq(f'{tag}.returns_iterate_result[{t}]', x[t], ret[t])
        if grid:
            S.eq(f'{tag}.grid_loss[{t}]', rec['GLC_i'][t], rr.coolant_int_params['grid_loss_coeff'][t] * cfg.get('n_grid', 3))
    S.eq(f'{tag}.area_shares_sum_to_one', rec['s'][0] + rec['s'][1] + rec['s'][2], 1)
    if grid:
        S.eq(f'{tag}.length', rec['L'], rr.z[1] - rr.z[0])
    else:
        S.holds(f'{tag}.no_grid_loss', rec['GLC_i'] is None)
    if lam:
        S.eq(f'{tag}.lambda', rec['lam'], lam_v)
    else:
        S.holds(f'{tag}.lambda_none', rec['lam'] is None)
    S.eq(f'canary.{tag}_ReiL_is_ReiT', rec['Re_iL'][0], rec['Re_iT'][0], canary=True)
transition_args.cname = 'flowsplit_ctd._calc_transition_flowsplit/_calc_bundle_plus_grid_flow_split'
transition_args.run_kw = dict(check_div=False)


def ffb_tr(S, cfg):
    """transition friction factor: non-negative combination of the laminar and turbulent values"""
    from dassh.correlations import flowsplit_ctd as fsc
    fL = S.vec('ffL', 3, 'pos', 0.02, 0.2)
    fT = S.vec('ffT', 3, 'pos', 0.01, 0.1)
    a = S.vec('int_a', 3, 'pos', 0.1, 5.0)
    INT = a / (1 + a)                                        # intermittency strictly inside (0, 1)
    lam = 7 if cfg.get('uctd') else None
    f = fsc._calc_ffb_tr(fL, fT, INT, lam=lam)
    for t in range(3):
        S.lt(f'ff.transition_positive[{t}]', 0, f[t])
    f0 = fsc._calc_ffb_tr(fL, fT, INT * 0, lam=lam)
    f1 = fsc._calc_ffb_tr(fL, fT, INT * 0 + 1, lam=lam)
    S.eq('ff.transition_limit_laminar', f0, fL)
    S.eq('ff.transition_limit_turbulent', f1, fT)
    S.eq('canary.ffb_is_mean', f[0], (fL[0] + fT[0]) / 2, canary=True)
ffb_tr.cname = 'flowsplit_ctd._calc_ffb_tr'


def mass_flow(S, cfg):
    rr = make_rodded(S, n_ring=cfg['n_ring'], n_duct=cfg.get('n_duct', 1))
    set_int_params(S, rr)
    n_sc = [rr.subchannel.n_sc['coolant'][k] for k in ('interior', 'edge', 'corner')]
    fs = rr.coolant_int_params['fs']
    A, Ab = rr.params['area'], rr.bundle_params['area']
    mfr = rr.sc_mfr
    typ = rr.subchannel.type
    for t in range(3):
        i = [k for k in range(len(mfr)) if typ[k] == t][0]
        S.eq(f'mfr.area_share_times_split[{t}]', mfr[i] * Ab, rr.int_flow_rate * A[t] * fs[t])
    # with a mass-conserving split the subchannel flows add up to the bundle flow
    cons = sum(n_sc[t] * A[t] * fs[t] for t in range(3))
    S.eq('mfr.sum (x bundle area)', sum(mfr) * Ab, rr.int_flow_rate * cons)
    if rr.n_bypass:
        S.eq('mfr.bypass_plus_interior', rr.int_flow_rate + sum(rr.byp_flow_rate), rr.total_flow_rate)
    S.eq('canary.mfr_uniform', mfr[0], mfr[len(mfr) - 1], canary=True)
mass_flow.cname = 'RoddedRegion.sc_mfr'


def configs(tier):
    out = [(ctd_constant, dict(n_ring=2)), (ctd_constant, dict(n_ring=3)), (nov_mit, dict(n_ring=2)),
           (iterate_body, dict()), (iterate_body, dict(grid=True)), (ffb_tr, dict()), (ffb_tr, dict(uctd=True)),
           (mass_flow, dict(n_ring=2)), (mass_flow, dict(n_ring=3, n_duct=2)),
           (transition_args, dict(n_ring=2)), (transition_args, dict(n_ring=3, lam=True)),
           (transition_args, dict(n_ring=2, grid=True)), (transition_args, dict(n_ring=2, grid=True, lam=True))]
    if tier == 'thorough':
        out += [(ctd_constant, dict(n_ring=5)), (nov_mit, dict(n_ring=4)), (mass_flow, dict(n_ring=4, n_duct=3))]
    return out


# ---------------------------------------------------------------------------------------
FF = ['NOV', 'REH', 'ENG', 'CTS', 'CTD', 'UCTD']
FS = ['NOV', 'SE2', 'MIT', 'CTD', 'UCTD']
MIX = ['MIT', 'CTD', 'UCTD', 'KC-BARE']


def _native_triple(args):
    ff, fs, mx, geo = args
    import logging
    import dassh
    from dassh import region_rodded, material
    logging.getLogger('dassh').setLevel(logging.CRITICAL)
    n, P, D, Dw = [(3, 0.0075, 0.00635, 0.0011), (5, 0.0065, 0.0055, 0.0009)][geo]
    inner = 3 ** 0.5 * (n - 1) * P + D + 2 * Dw + 0.0002
    out = []
    for grid in (False, True):
        try:
            cool = material.Material('sodium', 623.15)
            duct = material.Material('ht9', 623.15)
            sg = {'corr': None, 'corr_coeff': None, 'loss_coeff': 1.5, 'axial_positions': [0.3, 0.6], 'solidity': None} \
                if grid else None
            rr = region_rodded.RoddedRegion('a', n, P, D, 0.2, Dw, 0.0005, [inner, inner + 0.004], 1.0, cool, duct, None,
                                            ff, fs, mx, 'DB', None, spacer_grid=sg)
            rr.z = [0.0, 1.0]
        except BaseException as e:
            out.append((f'grid={grid},construct', False, f'{type(e).__name__}: {e}'))
            continue
        # Reynolds numbers: regime boundaries of the CTD family for this bundle, and well inside each regime
        from dassh.correlations import friction_ctd
        rr._update_coolant_int_params(650.0)
        bl, bt = friction_ctd.calculate_Re_bounds(rr)
        base_flow = rr.int_flow_rate
        re0 = rr.coolant_int_params['Re']
        for tag, re_t in (('laminar', 0.3 * bl), ('bl-', bl * (1 - 1e-9)), ('bl', bl), ('bl+', bl * (1 + 1e-9)),
                          ('transition', (bl * bt) ** 0.5), ('bt', bt), ('turbulent', 5 * bt)):
            try:
                r2 = rr.clone(new_flowrate=base_flow * re_t / re0)
                r2.z = [0.0, 1.0]
                r2._init_static_correlated_params(650.0)
                r2._update_coolant_int_params(650.0)
                p = r2.coolant_int_params
                x = np.asarray(p['fs'], dtype=float)
                cons = sum(r2.subchannel.n_sc['coolant'][k] * r2.params['area'][i] * x[i]
                           for i, k in enumerate(('interior', 'edge', 'corner'))) / r2.bundle_params['area']
                ok = (np.all(np.isfinite(x)) and np.all(x > 0) and abs(cons - 1) < 1e-6 and np.isfinite(p['ff'])
                      and p['ff'] > 0 and np.isfinite(p['eddy']) and p['eddy'] >= 0 and np.all(np.isfinite(p['swirl']))
                      and np.all(np.asarray(p['swirl']) >= 0) and abs(float(np.sum(r2.sc_mfr)) - r2.int_flow_rate)
                      < 1e-6 * r2.int_flow_rate)
                out.append((f'grid={grid},{tag}', bool(ok), '' if ok else
                            f'Re={p["Re"]:.1f} fs={x} sum={cons} ff={p["ff"]} eddy={p["eddy"]} swirl={p["swirl"]}'))
            except BaseException as e:
                out.append((f'grid={grid},{tag}', False, f'{type(e).__name__}: {e}'))
    return (ff, fs, mx, geo), out


# bundles with a spacer-grid CORRELATION (the only case in which set-up uses the bundle + grid flow split) next to the
# laminar boundary, where the intermittency factor has an infinite slope and the successive substitution of _iterate
# is not a contraction
NEAR = [(fs, corr, g, m) for fs in ('CTD', 'UCTD') for corr in ('CDD', 'REH') for g in (0, 1)
        for m in (0.95, 0.98, 0.995, 1.008, 1.016, 1.03, 1.06)]


def _near_laminar(args):
    fs, corr, geo, m = args
    import logging
    from dassh import region_rodded, material
    from dassh.correlations import friction_ctd
    logging.getLogger('dassh').setLevel(logging.CRITICAL)
    n, P, D, Dw, H = [(3, 0.0075, 0.00635, 0.0011, 0.2), (4, 0.00762, 0.00635, 0.0012, 0.127)][geo]
    inner = 3 ** 0.5 * (n - 1) * P + D + 2 * Dw + 0.0002
    try:
        cool = material.Material('sodium', 623.15)
        duct = material.Material('ht9', 623.15)
        sg = {'corr': corr, 'corr_coeff': None, 'loss_coeff': None, 'axial_positions': [0.3, 0.6], 'solidity': 0.3}
        rr = region_rodded.RoddedRegion('a', n, P, D, H, Dw, 0.0005, [inner, inner + 0.004], 1.0, cool, duct, None,
                                        fs, fs, fs, 'DB', None, spacer_grid=sg)
        rr.z = [0.0, 1.0]
        rr._update_coolant_int_params(650.0)
        bl, bt = friction_ctd.calculate_Re_bounds(rr)
        r2 = rr.clone(new_flowrate=rr.int_flow_rate * bl * m / rr.coolant_int_params['Re'])
        r2.z = [0.0, 1.0]
        r2._init_static_correlated_params(650.0)
        x = np.asarray(r2.coolant_int_params['fs'], dtype=float)
        ok = bool(np.all(np.isfinite(x)) and np.all(x > 0))
        return args, ok, '' if ok else f'fs={x}'
    except BaseException as e:
        return args, False, f'{type(e).__name__}: {e} (Re = {m} x laminar boundary)'


def extra_checks(tier, seed):
    import multiprocessing as mp
    t0 = time.time()
    geos = (0,) if tier == 'quick' else (0, 1)
    jobs = [(a, b, c, g) for a, b, c in itertools.product(FF, FS, MIX) for g in geos]
    with mp.get_context('fork').Pool(16) as pool:
        outs = pool.map(_native_triple, jobs, chunksize=4)
        near = pool.map(_near_laminar, NEAR, chunksize=4)
    results = []
    for (fs, corr, g, m), ok, detail in near:
        results.append(dict(name=f'total.grid_split_near_laminar_boundary[{fs},{corr},geo{g},{m}]',
                            status='proved' if ok else 'refuted', backend='bounded:run-time contract', seconds=0.0,
                            detail=detail, witness=dict(values=dict(near=[fs, corr, g, m])),
                            replay=dict(reproduced=not ok, point=dict(values=dict(near=[fs, corr, g, m])), native=detail)))
    for (ff, fs, mx, g), lst in outs:
        for tag, ok, detail in lst:
            results.append(dict(name=f'total.evaluates[{ff},{fs},{mx},geo{g},{tag}]', status='proved' if ok else 'refuted',
                                backend='bounded:run-time contract', seconds=0.0, detail=detail,
                                witness=dict(values=dict(ff=ff, fs=fs, mix=mx, geo=g)),
                                sample=(ff, fs, mx, tag) == ('ENG', 'NOV', 'CTD', 'grid=False,transition'),
                                replay=dict(reproduced=not ok, point=dict(values=dict(ff=ff, fs=fs, mix=mx, geo=g)),
                                            native=detail)))
    secs = time.time() - t0
    for r in results:
        r['seconds'] = secs / len(results)
    return [dict(name='correlation triples (run-time contracts)', results=results,
                 notes=['BOUNDED: total.evaluates[*] are run-time contracts on the real RoddedRegion with the real '
                        'correlation modules at the listed Reynolds numbers'])]


def replay(doc):
    w = (doc.get('witness') or {}).get('values') or {}
    if 'near' in w:
        a, ok, d = _near_laminar(tuple(w['near']))
        print('replay:', a, d)
        print('not reproduced' if ok else 'REPRODUCED')
        return 0 if ok else 1
    if 'ff' in w:
        _, lst = _native_triple((w['ff'], w['fs'], w['mix'], w.get('geo', 0)))
        bad = [x for x in lst if not x[1]]
        for b in bad:
            print('replay:', w, b)
        print('REPRODUCED' if bad else 'not reproduced')
        return 1 if bad else 0
    print(doc.get('verifier_output'))
    return 0
