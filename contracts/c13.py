"""C13 - pin radial temperatures are ordered and obey radial heat conduction.

Functions under contract: dassh.pin_model.PinModel.__init__ (radial geometry),
calculate_temperatures, calc_clad_temps, calc_fuel_surf_temp, calc_fuel_temps
(three while loops: run to completion with constant conductivities, and cut from
the source - one arbitrary iteration - with conductivities as uninterpreted
positive functions of temperature), _fuel_cond;
dassh.region_rodded.RoddedRegion.calculate_pin_temperatures (coolant average).
"""
from __future__ import annotations
from fractions import Fraction
import math
import numpy as np
from . import common
from .common import make_material, make_rodded, set_int_params, set_temps, patched
from pvc import core, loopcut, normal
from pvc.core import Sym

MODULES = common.RR_MODULES + ['dassh.pin_model']
PROPERTY = 'C13'
FUNCTIONS = ['dassh.pin_model:PinModel.__init__', 'dassh.pin_model:PinModel.calculate_temperatures',
             'dassh.pin_model:PinModel.calc_clad_temps', 'dassh.pin_model:PinModel.calc_fuel_surf_temp',
             'dassh.pin_model:PinModel.calc_fuel_temps', 'dassh.pin_model:PinModel._fuel_cond',
             'dassh.region_rodded:RoddedRegion.calculate_pin_temperatures', 'dassh.pin_model:PinModel.__init__ (emissivity)']
ASSUMPTIONS = ['conductivities of clad, gap and fuel are positive functions of temperature (assumed contract of Material / '
               'MetallicFuel); with temperature-dependent conductivities each loop is verified as ONE arbitrary iteration '
               '(cut from the source): at loop exit the reported temperature and the previous iterate differ by <= atol, so '
               'the conduction relation holds with the conductivity evaluated within atol of the reported temperatures',
               'log is an uninterpreted function with log x > 0 for x > 1']
NOT_DECIDED = ['monotonicity in power with temperature-dependent conductivity (needs monotone k)',
               'that the iterations converge within the iteration limit for given materials (the limit raises an error)']
BOUNDED = []
SB = 5.670367e-8


_OMIT = object()


def _pin(S, gap=False, tdep=False, annular=False, n_zone=2, emissivity=_OMIT):
    from dassh import pin_model
    d = S.pos('d_pin', 0.006, 0.008)
    g = S.pos('gap_thk', 0.00005, 0.0001) if gap else 0.0
    ri = S.pos('r_fuel', 0.0024, 0.0027) + g          # clad inner radius = pellet radius + gap
    thk = S.pos('clad_thk', 0.0003, 0.0006)
    d = 2 * (ri + thk)
    clad = make_material(S, 'clad', ['thermal_conductivity'], tdep)
    gapm = make_material(S, 'gapm', ['thermal_conductivity'], tdep) if gap else None
    fuels = [make_material(S, f'fuel{i}', ['thermal_conductivity'], tdep) for i in range(n_zone)]
    r_frac = [0.25, 0.6][:n_zone] if annular else [0.0, 0.5][:n_zone]
    params = {'htc_params_clad': [0.023, 0.8, 0.8, 7.0], 'gap_thickness': g, 'r_frac': r_frac,
              'pin_material': fuels}
    if emissivity is not _OMIT:
        params['emissivity'] = emissivity
    pm = pin_model.PinModel(d, thk, clad, pin_params=params, gap_mat=gapm)
    pm._ri, pm._thk, pm._gap = ri, thk, g
    return pm


def whole(S, cfg):
    """constant conductivities: the real loops run to completion"""
    pm = _pin(S, gap=False, tdep=False, annular=cfg.get('annular', False))
    npin = cfg.get('n_pin', 1)
    q = S.vec('q_lin', npin, 'pos', 1e3, 4e4)
    Tc = S.vec('T_cool', npin, 'pos', 600.0, 900.0)
    h = S.pos('htc', 5e4, 2e5)
    dz = S.pos('dz', 0.001, 0.02)
    # atol = 0: with constant conductivities every loop then runs exactly one (idempotent) iteration, for all powers
    t = pm.calculate_temperatures(q, Tc, h, dz, atol=0)
    pi = np.pi if S.mode != 'sym' else Sym(core.CTX.var('PI', kind='pos', lo=math.pi, hi=math.pi))
    ro, ri, rm = pm.clad['r'][2], pm.clad['r'][0], pm.clad['r'][1]
    kc = pm.clad['k'](t[0, 1])
    log = (lambda x: Sym(core.fn('log', core.lift(x)))) if S.mode == 'sym' else math.log
    S.eq('geom.clad_radii', [ro, rm, ri], [pm._ri + pm._thk, pm._ri + pm._thk / 2, pm._ri])
    for p in range(npin):
        T_cool, T_od, T_mw, T_id, T_fs, T_cl = [t[p, j] for j in range(6)]
        S.eq(f'coolant.column[{p}]', T_cool, Tc[p])
        S.eq(f'film.drop[{p}]', (T_od - T_cool) * (2 * pi * ro * h), q[p])
        S.eq(f'clad.drop[{p}]', (T_id - T_od) * (2 * pi * kc), q[p] * log(ro / ri))
        S.eq(f'clad.midwall[{p}]', (T_mw - T_od) * (2 * pi * kc), q[p] * log(ro / rm))
        S.eq(f'gap.closed[{p}]', T_fs, T_id)
        # fuel shells, outside in: dT_i * k_i = q''' (r_o^2 - r_i^2) / 4, q''' = q' / fuel area
        qd = q[p] / pm.fuel['area']
        total = 0
        for i in range(pm.fuel['r'].shape[0]):
            ki = pm.fuel['mat'][i]._data['thermal_conductivity'](T_fs)
            total = total + qd * (pm.fuel['r'][i, 1] ** 2 - pm.fuel['r'][i, 0] ** 2) / 4 / ki
        S.eq(f'fuel.shells_total[{p}]', T_cl - T_fs, total)
        for name, a, b in (('od_ge_cool', T_cool, T_od), ('mw_ge_od', T_od, T_mw), ('id_ge_mw', T_mw, T_id),
                           ('fs_ge_id', T_id, T_fs), ('cl_ge_fs', T_fs, T_cl)):
            S.le(f'order.{name}[{p}]', a, b)
    # zero power: everything at the coolant temperature
    t0 = pm.calculate_temperatures(q * 0, Tc, h, dz, atol=0)
    for p in range(npin):
        S.eq(f'zero_power[{p}]', list(t0[p]), [Tc[p]] * 6)
    # monotone in power (constant conductivities): a larger power raises every temperature
    dq = S.nonneg('dq', 0.0, 1e4)
    t_hi = pm.calculate_temperatures(q + dq, Tc, h, dz, atol=0)
    S.le('monotone_in_q', t, t_hi)
    S.eq('fuel.area', pm.fuel['area'], pi * (pm.fuel['r'][-1, 1] ** 2 - pm.fuel['r'][0, 0] ** 2))
    S.eq('canary.no_film_drop', t[0, 1], t[0, 0], canary=True)
whole.cname = 'PinModel.calculate_temperatures'
whole.run_kw = dict(max_paths=200, pool_size=8)


def clad_body(S, cfg):
    """one arbitrary iteration of the clad conductivity loop (k an uninterpreted positive function)"""
    from dassh import pin_model
    pm = _pin(S, tdep=True)
    C = S.nonneg('C', 0.0, 6e3)                       # q / (2 pi dz)
    T_od = S.pos('T_od', 600.0, 900.0)
    T_prev = S.pos('T_in_prev', 600.0, 1000.0)
    cut = loopcut.Cut(pin_model.PinModel.calc_clad_temps, 0, kind='While')
    S.note(f'loop cut from source: `{cut.source.splitlines()[0]}`')
    T = np.array([[0, 0, T_od]], dtype=object if S.mode == 'sym' else float)
    dT = np.array([C * pm.clad['ln_r2r']], dtype=object if S.mode == 'sym' else float)
    k_ip1 = pm.clad['k'](T[:, 2])
    env = dict(self=pm, T=T, dT=dT, k_ip1=k_ip1, k=k_ip1, T_in1=np.array([T_prev], dtype=T.dtype),
               T_in2=np.array([T_od], dtype=T.dtype), idx=0, ilim=20, atol=1e-6, C=np.array([C], dtype=T.dtype))
    cut.run_body(env)
    T_new, kbar = env['T_in1'][0], env['k'][0] if hasattr(env['k'], '__len__') else env['k']
    kf = pm.clad['k']
    S.eq('clad.iteration_relation', (T_new - T_od) * (kf(T_prev) + kf(T_od)) / 2, C * pm.clad['ln_r2r'])
    S.eq('clad.previous_kept', env['T_in2'][0], T_prev)
    S.le('clad.order', T_od, T_new)
    S.holds('clad.counter', env['idx'] == 1)
    # iteration limit: one more iteration at the limit is an error, not a silent value
    env2 = dict(env)
    env2['idx'] = 20
    try:
        cut.run_body(env2)
        S.holds('limit.error', False)
    except SystemExit:
        S.holds('limit.error', True)
    S.eq('canary.clad_uses_outer_k_only', (T_new - T_od) * kf(T_od), C * pm.clad['ln_r2r'], canary=True)
clad_body.cname = 'PinModel.calc_clad_temps/loop-body'


def gap_body(S, cfg):
    from dassh import pin_model
    pm = _pin(S, gap=True, tdep=True)
    q = S.nonneg('q', 0.0, 400.0)
    dz = S.pos('dz', 0.001, 0.02)
    T_clad = S.pos('T_clad', 600.0, 1000.0)
    T_prev = S.pos('Tf_prev', 600.0, 1200.0)
    cut = loopcut.Cut(pin_model.PinModel.calc_fuel_surf_temp, 0, kind='While')
    pi = np.pi if S.mode != 'sym' else Sym(core.CTX.var('PI', kind='pos', lo=math.pi, hi=math.pi))
    dr, e = pm.gap['dr'], pm.fuel['e']
    rf = pm.fuel['r'][-1, 1]
    arr = (lambda x: np.array([x], dtype=object if S.mode == 'sym' else float))
    d1 = dr * (q / 2 / pi / dz / rf + e * pin_model._SBCONST * T_clad ** 4)
    d2 = dr * e * pin_model._SBCONST
    k2 = pm.gap['k'](T_clad)
    env = dict(self=pm, T_clad=arr(T_clad), d1=arr(d1), d2=d2, k2=arr(k2), Tf1=arr(T_prev), Tf2=arr(T_clad), idx=0,
               iter=10, atol=1e-6, q=arr(q), dz=dz)
    cut.run_body(env)
    Tf = env['Tf1'][0]
    kbar = (pm.gap['k'](T_prev) + pm.gap['k'](T_clad)) / 2
    sb = pin_model._SBCONST
    # conduction across the gap = heat flux leaving the pellet minus net radiation (previous iterate in T^4)
    S.eq('gap.relation', kbar * (Tf - T_clad) / dr, q / (2 * pi * dz * rf) + e * sb * (T_clad ** 4 - T_prev ** 4))
    S.eq('gap.fuel_radius', rf, pm._ri - pm._gap)
    S.holds('gap.counter', env['idx'] == 1)
    S.eq('canary.gap_no_radiation', kbar * (Tf - T_clad) / dr, q / (2 * pi * dz * rf), canary=True)
gap_body.cname = 'PinModel.calc_fuel_surf_temp/loop-body'


def fuel_body(S, cfg):
    from dassh import pin_model
    pm = _pin(S, tdep=True, annular=cfg.get('annular', False))
    qd = S.nonneg('q_dens', 0.0, 1e9)
    T_out = S.pos('T_shell_out', 700.0, 1200.0)
    T_prev = S.pos('T_prev', 700.0, 1500.0)
    cut = loopcut.Cut(pin_model.PinModel.calc_fuel_temps, 1, kind=None)     # the inner while (2nd loop in source order)
    S.note(f'loop cut from source: `{cut.source.splitlines()[0]}`')
    if cut.kind != 'While':
        S.holds('fuel.cut_is_while', False)
        return
    arr = (lambda x: np.array([x], dtype=object if S.mode == 'sym' else float))
    for i in range(pm.fuel['drsq_over_4'].shape[0]):
        dT = pm.fuel['drsq_over_4'][i] * qd
        k_ip1 = pm._fuel_cond(i, arr(T_out))
        env = dict(self=pm, i=i, dT=arr(dT), k_ip1=k_ip1, T_out=arr(T_out), T_in1=arr(T_prev), T_in2=arr(T_out), idx=0,
                   iter=10, atol=1e-6, q_dens=arr(qd))
        cut.run_body(env)
        T_new = env['T_in1'][0]
        kf = pm.fuel['mat'][i]._data['thermal_conductivity']
        S.eq(f'fuel.shell[{i}]', (T_new - T_out) * (kf(T_prev) + kf(T_out)) / 2,
             qd * (pm.fuel['r'][i, 1] ** 2 - pm.fuel['r'][i, 0] ** 2) / 4)
        S.le(f'fuel.order[{i}]', T_out, T_new)
    S.eq('geom.fuel_outer_radius', pm.fuel['r'][-1, 1], pm._ri - pm._gap)
    S.eq('geom.shells_contiguous', pm.fuel['r'][0, 1], pm.fuel['r'][1, 0])
    S.eq('canary.fuel_shell_full_radius', (env['T_in1'][0] - T_out) * (kf(T_prev) + kf(T_out)) / 2,
         qd * pm.fuel['r'][-1, 1] ** 2 / 4, canary=True)
fuel_body.cname = 'PinModel.calc_fuel_temps/loop-body'


class _RecordingPinModel:
    htc_params = [0.023, 0.8, 0.8, 7.0]

    def __init__(self):
        self.seen = None

    def calculate_temperatures(self, q, Tc, htc, dz):
        self.seen = Tc
        return np.zeros((len(q), 6))


def coolant_weights(S, cfg):
    """the coolant temperature handed to the pin model is a weighted average of the pin's
    adjacent subchannels: weights >= 0 summing to one"""
    rr = make_rodded(S, n_ring=cfg['n_ring'], n_duct=1)
    set_int_params(S, rr)
    set_temps(S, rr)
    rr.coolant_int_params['Re'] = S.pos('Re', 1e4, 1e5)
    rr.pin_model = _RecordingPinModel()
    rr.pin_temps = np.zeros((rr.n_pin, 9)) if S.mode != 'sym' else np.array(np.zeros((rr.n_pin, 9)), dtype=object)
    rr.corr['pin_nu'] = lambda cool, Re, par: 7.0
    rr.calculate_pin_temperatures(S.pos('dz', 0.001, 0.02), None)
    Tc = rr.pin_model.seen
    names = S.names('Tc', rr.subchannel.n_sc['coolant']['total'])
    T = rr.temp['coolant_int']
    for p in range(rr.n_pin):
        adj = [int(c) for c in rr.subchannel.pin_adj[p] if c >= 0]
        if S.mode == 'sym':
            parts = normal.affine_split(core.lift(Tc[p]), set(names))
            w = {k: Sym(v) for k, v in parts.items() if k is not None}
            S.eq(f'coolant.weights_sum[{p}]', sum(w.values()), 1)
            S.eq(f'coolant.no_constant[{p}]', Sym(parts.get(None, core.C(0))), 0, scale=1.0)
            for k, v in w.items():
                S.le(f'coolant.weight_nonneg[{p},{k}]', 0, v)
            S.holds(f'coolant.only_adjacent[{p}]', set(w) <= {names[c] for c in adj})
            # ... and EVERY adjacent subchannel takes part, with the share of the pin's circumference that faces it
            # (1/6 towards an interior or corner subchannel, 1/4 towards an edge subchannel)
            typ = rr.subchannel.type
            for c in adj:
                share = {0: Fraction(1, 6), 1: Fraction(1, 4), 2: Fraction(1, 6)}[int(typ[c])]
                S.eq(f'coolant.weight_is_circumference_share[{p},{names[c]}]', w.get(names[c], Sym(core.C(0))),
                     Sym(core.C(core.Q3(share, 0))))
        else:
            S.le(f'coolant.within_adjacent_range.lo[{p}]', min(T[c] for c in adj), Tc[p], scale=1e3)
            S.le(f'coolant.within_adjacent_range.hi[{p}]', Tc[p], max(T[c] for c in adj), scale=1e3)
    S.eq('canary.coolant_is_first_subchannel', Tc[0], T[int(rr.subchannel.pin_adj[0][0])], canary=True)
coolant_weights.cname = 'RoddedRegion.calculate_pin_temperatures'


def loop_exit(S, cfg):
    """exit condition of the three conductivity iterations, for a VECTOR of pins: when the loop test is false, the last
    two iterates of EVERY pin agree within the tolerance (no pin leaves the loop unconverged because another one has
    converged)"""
    from dassh import pin_model
    import ast
    which = cfg['loop']
    fn, ordinal = {'clad': (pin_model.PinModel.calc_clad_temps, 0), 'gap': (pin_model.PinModel.calc_fuel_surf_temp, 0),
                   'fuel': (pin_model.PinModel.calc_fuel_temps, 1)}[which]
    cut = loopcut.Cut(fn, ordinal, kind=None)
    S.note(f'loop cut from source: `{cut.source.splitlines()[0]}`')
    # the two iterates compared by the test: the names that occur in the loop test besides the tolerance
    names = sorted({n.id for n in ast.walk(cut.loop.test) if isinstance(n, ast.Name)} - {'np', 'atol'})
    S.holds('exit.test_compares_two_iterates', len(names) == 2)
    n_pin = cfg.get('n_pin', 3)
    a = S.vec('iterate_a', n_pin, 'pos', 600.0, 1200.0)
    b = S.vec('iterate_b', n_pin, 'pos', 600.0, 1200.0)
    atol = 1e-6
    env = {names[0]: a, names[1]: b, 'atol': atol}
    t = cut.run_test(env)
    sym = S.mode == 'sym'
    S.assume(~t if sym and not isinstance(t, (bool, np.bool_)) else (not t), 'loop test false (exit)')
    for i in range(n_pin):
        S.le(f'exit.converged_from_above[{i}]', a[i] - b[i], atol)
        S.le(f'exit.converged_from_below[{i}]', b[i] - a[i], atol)
    S.le('canary.exit_iterates_equal', a[0] - b[0], 0 * a[0], canary=True)


loop_exit.cname = 'PinModel conductivity iterations/loop-exit'
loop_exit.run_kw = dict(max_paths=400, pool_size=8, check_div=False)


def chain(S, cfg):
    """the real PinModel.calculate_temperatures with recording stages: each stage is handed the temperature the previous
    one returned - the clad solve starts from the pin's coolant temperature, the gap solve from the clad INNER wall, the
    fuel solve from the fuel SURFACE (which differs from the clad inner wall whenever there is a gap) - and the six
    columns are coolant, clad outer / mid / inner wall, fuel surface, fuel centre, in that order."""
    pm = _pin(S, gap=True, tdep=False)
    npin = 2
    q = S.vec('q_lin', npin, 'pos', 1e3, 4e4)
    Tc = S.vec('T_cool', npin, 'pos', 600.0, 900.0)
    h = S.pos('htc', 5e4, 2e5)
    dz = S.pos('dz', 0.001, 0.02)
    obj = object if S.mode == 'sym' else float
    clad_out = np.array([[S.pos(f'T_clad[{p},{j}]', 600.0, 1000.0) for j in range(3)] for p in range(npin)], dtype=obj)
    surf_out = np.array([S.pos(f'T_fuel_surface[{p}]', 600.0, 1200.0) for p in range(npin)], dtype=obj)
    centre_out = np.array([S.pos(f'T_fuel_centre[{p}]', 600.0, 2000.0) for p in range(npin)], dtype=obj)
    rec = {}

    def clad(q_, dz_, T_cool, htc, atol=1e-6, ilim=20):
        rec['clad'] = (q_, T_cool, htc)
        return clad_out

    def surf(q_, dz_, T_clad_in, atol=1e-6, ilim=20):
        rec['surf'] = (q_, np.array(T_clad_in, dtype=obj))
        return surf_out

    def fuel(q_dens, T_surface, atol=1e-6, ilim=20):
        rec['fuel'] = (q_dens, np.array(T_surface, dtype=obj))
        return centre_out
    if S.mode == 'sym':
        real_zeros = np.zeros

        class _NP:
            def __getattr__(self, k):
                return getattr(np, k)

            def zeros(self, shape, **k):
                return real_zeros(shape).astype(object)
        from dassh import pin_model as pmod
        extra = [(pmod, 'np', _NP())]
    else:
        extra = []
    with patched((pm, 'calc_clad_temps', clad), (pm, 'calc_fuel_surf_temp', surf), (pm, 'calc_fuel_temps', fuel), *extra):
        t = pm.calculate_temperatures(q, Tc, h, dz, atol=0)
    for p in range(npin):
        S.eq(f'chain.clad_from_coolant[{p}]', rec['clad'][1][p], Tc[p])
        S.eq(f'chain.gap_from_clad_inner_wall[{p}]', rec['surf'][1][p], clad_out[p, 2])
        S.eq(f'chain.fuel_from_fuel_surface[{p}]', rec['fuel'][1][p], surf_out[p])
        S.eq(f'chain.power_per_step[{p}]', rec['surf'][0][p], q[p] * dz)
        S.eq(f'chain.power_density[{p}]', rec['fuel'][0][p] * pm.fuel['area'], q[p])
        want = [Tc[p], clad_out[p, 0], clad_out[p, 1], clad_out[p, 2], surf_out[p], centre_out[p]]
        for j in range(6):
            S.eq(f'chain.column[{p},{j}]', t[p, j], want[j])
    S.eq('canary.chain_fuel_from_clad_wall', rec['fuel'][1][0], clad_out[0, 2], canary=True)


chain.cname = 'PinModel.calculate_temperatures/chain'
chain.run_kw = dict(check_div=False)


def gap_start(S, cfg):
    """the constants and the first iterate of the real calc_fuel_surf_temp (its loop switched off): the first iterate is
    the gap conduction solve with the radiation exchange evaluated at equal fuel and clad temperatures, where it vanishes
    - k(T_clad) (T_f - T_clad) / dr = q''  - so at zero power the fuel surface is at the clad temperature whatever the
    emissivity; the loop body (gap_body) then works with the same constants."""
    from dassh import pin_model
    pm = _pin(S, gap=True, tdep=True)
    q = S.nonneg('q', 0.0, 400.0)
    dz = S.pos('dz', 0.001, 0.02)
    T_clad = S.pos('T_clad', 600.0, 1000.0)
    pi = np.pi if S.mode != 'sym' else Sym(core.CTX.var('PI', kind='pos', lo=math.pi, hi=math.pi))
    arr = (lambda x: np.array([x], dtype=object if S.mode == 'sym' else float))
    real_np = pin_model.np

    class _NoLoop:
        def __getattr__(self, k):
            return getattr(real_np, k)

        def max(self, *a, **k):
            return 0.0                      # the convergence test is met at once: the first iterate is returned
    with patched((pin_model, 'np', _NoLoop())):
        Tf = pm.calc_fuel_surf_temp(arr(q), dz, arr(T_clad), 1e-6)[0]
    dr, rf = pm.gap['dr'], pm.fuel['r'][-1, 1]
    S.eq('gap.first_iterate', pm.gap['k'](T_clad) * (Tf - T_clad) / dr, q / (2 * pi * dz * rf))
    S.eq('canary.gap_first_iterate_is_clad', Tf, T_clad, canary=True)
    # ... and one pass through the real loop from there: conduction with the mean conductivity carries the pellet's heat
    # flux minus the net radiation e sigma (T_first^4 - T_clad^4) - with the emissivity on BOTH terms
    calls = []

    class _OneLoop(_NoLoop):
        def max(self, *a, **k):
            calls.append(1)
            return 1.0 if len(calls) == 1 else 0.0
    with patched((pin_model, 'np', _OneLoop())):
        Tf2 = pm.calc_fuel_surf_temp(arr(q), dz, arr(T_clad), 1e-6)[0]
    kbar = (pm.gap['k'](Tf) + pm.gap['k'](T_clad)) / 2
    S.eq('gap.second_iterate', kbar * (Tf2 - T_clad) / dr,
         q / (2 * pi * dz * rf) + pm.fuel['e'] * pin_model._SBCONST * (T_clad ** 4 - Tf ** 4))


gap_start.cname = 'PinModel.calc_fuel_surf_temp/constants'
gap_start.run_kw = dict(check_div=False)


def init_params(S, cfg):
    """PinModel.__init__: the emissivity the gap radiation uses is the one the user gave - ANY value, a non-radiating
    gap (0) included - and the SE2ANL default 0.9 only when none is given; with emissivity 0 the second gap iterate is
    pure conduction at the mean conductivity"""
    from dassh import pin_model
    how = cfg['emissivity']
    if how == 'omitted':
        pm = _pin(S, gap=True, tdep=True)
        S.eq('init.emissivity_default', pm.fuel['e'], Fraction(9, 10) if S.mode == 'sym' else 0.9)
        S.eq('canary.init_emissivity_default_is_one', pm.fuel['e'], 1.0, canary=True)
        return
    e = 0.0 if how == 'zero' else S.nonneg('emissivity', 0.0, 1.0)
    pm = _pin(S, gap=True, tdep=True, emissivity=e)
    S.eq('init.emissivity_is_the_given_one', pm.fuel['e'], e, scale=1.0)
    S.eq('canary.init_emissivity_is_default', pm.fuel['e'], 0.9, canary=True)
    if how != 'zero':
        return
    q = S.pos('q', 1.0, 400.0)
    dz = S.pos('dz', 0.001, 0.02)
    T_clad = S.pos('T_clad', 600.0, 1000.0)
    pi = np.pi if S.mode != 'sym' else Sym(core.CTX.var('PI', kind='pos', lo=math.pi, hi=math.pi))
    arr = (lambda x: np.array([x], dtype=object if S.mode == 'sym' else float))
    real_np = pin_model.np
    calls = []

    class _OneLoop:
        def __getattr__(self, k):
            return getattr(real_np, k)

        def max(self, *a, **k):
            calls.append(1)
            return 1.0 if len(calls) == 1 else 0.0
    with patched((pin_model, 'np', _OneLoop())):
        Tf2 = pm.calc_fuel_surf_temp(arr(q), dz, arr(T_clad), 1e-6)[0]
    dr, rf = pm.gap['dr'], pm.fuel['r'][-1, 1]
    Tf = T_clad + q / (2 * pi * dz * rf) * dr / pm.gap['k'](T_clad)
    kbar = (pm.gap['k'](Tf) + pm.gap['k'](T_clad)) / 2
    S.eq('init.no_radiation_at_zero_emissivity', kbar * (Tf2 - T_clad) / dr, q / (2 * pi * dz * rf))


init_params.cname = 'PinModel.__init__/emissivity'
init_params.run_kw = dict(check_div=False)


def configs(tier):
    out = [(whole, dict(n_pin=1)), (whole, dict(n_pin=1, annular=True)), (clad_body, dict()), (gap_body, dict()),
           (fuel_body, dict()), (fuel_body, dict(annular=True)), (coolant_weights, dict(n_ring=2)),
           (coolant_weights, dict(n_ring=3)),
           (loop_exit, dict(loop='clad')), (loop_exit, dict(loop='gap')), (loop_exit, dict(loop='fuel')), (chain, dict()), (gap_start, dict()),
           (init_params, dict(emissivity='omitted')), (init_params, dict(emissivity='zero')), (init_params, dict(emissivity='atom'))]
    if tier == 'thorough':
        out += [(whole, dict(n_pin=2)), (coolant_weights, dict(n_ring=4))]
    return out
