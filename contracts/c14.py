"""C14 - pressure drop is non-negative, additive and step-size independent.

Functions under contract: RoddedRegion.calculate_pressure_drop, calculate_friction_pressure_drop,
calculate_spacergrid_pressure_drop, calculate_gravity_pressure_drop, pressure_drop;
SingleNodeHomogeneous equivalents; Assembly.pressure_drop / update_region accumulation.
"""
from __future__ import annotations
import numpy as np
from . import common
from .common import make_rodded, set_int_params, make_unrodded

MODULES = ['dassh.reactor'] + common.RR_MODULES + common.UR_MODULES + ['dassh.assembly', 'dassh.table']
PROPERTY = 'C14'
FUNCTIONS = ['dassh.region_rodded:RoddedRegion.calculate_pressure_drop',
             'dassh.region_rodded:RoddedRegion.calculate_friction_pressure_drop',
             'dassh.region_rodded:RoddedRegion.calculate_spacergrid_pressure_drop',
             'dassh.region_rodded:RoddedRegion.calculate_gravity_pressure_drop',
             'dassh.region_rodded:RoddedRegion.pressure_drop',
             'dassh.region_unrodded:SingleNodeHomogeneous.calculate_pressure_drop',
             'dassh.region_unrodded:SingleNodeHomogeneous.calculate_friction_pressure_drop',
             'dassh.region_unrodded:SingleNodeHomogeneous.calculate_gravity_pressure_drop',
             'dassh.region_unrodded:SingleNodeHomogeneous.pressure_drop',
             'dassh.assembly:Assembly.pressure_drop', 'dassh.assembly:Assembly.update_region (accumulation)',
             'dassh.assembly:Assembly._identify_active_region', 'dassh.table:PressureDropTable.make']
ASSUMPTIONS = ['friction factor, velocity and density are the static values the region holds (positive atoms); that they '
               'are evaluated once at the bundle-average temperature is the documented design (constant within a sweep)',
               'step-size independence follows from additivity in dz (proved) and sum(dz) = L (C05)',
               'spacer grids: axial planes lie on the 1e-12 m raster (C05 mesh contract); the position a region is handed '
               'is accumulated in floating point and is assumed to be within a quarter raster unit (2.5e-13 m) of its '
               'plane, the step within a quarter unit of the plane difference (observed drift: 1.8e-14 m over 715 steps); '
               'numpy.around(x, 12) = nearest raster point, ties unspecified']
NOT_DECIDED = ['text tables that print the pressure drop (formatting)']
BOUNDED = ['runtime.gravity_head[*]: generated assemblies (pin bundle + single-node + six-node regions, double duct) with '
           'include_gravity_head_loss on / off: the gravity part of the reported pressure drop is rho g L (constant density)',
           'runtime.grid_charged_once[*]: generated bundles with spacer grids in ascending / descending / shuffled order, two '
           'in one step, twice at one position, on the core inlet, on the bundle bounds, outside the bundle: the spacer-grid '
           'part of a whole sweep is one loss per accepted grid']
G = 9.80665


def rodded(S, cfg):
    rr = make_rodded(S, n_ring=2, n_duct=1)
    set_int_params(S, rr)
    ff = S.pos('ff', 0.01, 0.05)
    vel = S.pos('vel', 1.0, 8.0)
    rr.coolant_int_params['ff'] = ff
    rr.coolant_int_params['vel'] = vel
    rr._gravity = cfg.get('gravity', True)
    rho = rr.coolant.density
    de = rr.bundle_params['de']
    dz1 = S.pos('dz1', 0.001, 0.02)
    dz2 = S.pos('dz2', 0.001, 0.02)
    f1 = rr.calculate_friction_pressure_drop(dz1)
    f2 = rr.calculate_friction_pressure_drop(dz2)
    f12 = rr.calculate_friction_pressure_drop(dz1 + dz2)
    S.eq('dp.closed_form.friction', f1, ff * dz1 * rho * vel * vel / (2 * de))
    S.eq('dp.additive_in_dz.friction', f12, f1 + f2)
    S.le('dp.nonneg.friction', 0, f1)
    g1 = rr.calculate_gravity_pressure_drop(dz1)
    g12 = rr.calculate_gravity_pressure_drop(dz1 + dz2)
    S.eq('dp.closed_form.gravity', g1, rho * G * dz1)
    S.eq('dp.additive_in_dz.gravity', g12, g1 + rr.calculate_gravity_pressure_drop(dz2))
    S.le('dp.nonneg.gravity', 0, g1)
    # accumulation over one call
    rr._pressure_drop = {'friction': S.nonneg('acc_f', 0.0, 1e4), 'spacer_grid': S.nonneg('acc_s', 0.0, 1e3),
                         'gravity': S.nonneg('acc_g', 0.0, 1e4)}
    before = dict(rr._pressure_drop)
    tot_before = rr.pressure_drop
    z = S.pos('z', 0.5, 1.0)
    rr.calculate_pressure_drop(z, dz1)
    S.eq('dp.accumulate.friction', rr._pressure_drop['friction'], before['friction'] + f1)
    S.eq('dp.accumulate.gravity', rr._pressure_drop['gravity'],
         before['gravity'] + (g1 if rr._gravity else 0))
    S.eq('dp.accumulate.no_grid', rr._pressure_drop['spacer_grid'], before['spacer_grid'])
    S.eq('dp.sum_of_parts', rr.pressure_drop, rr._pressure_drop['friction'] + rr._pressure_drop['spacer_grid']
         + rr._pressure_drop['gravity'])
    S.le('dp.monotone', tot_before, rr.pressure_drop)
    S.eq('canary.friction_quadratic_in_dz', f12, f1 + 2 * f2, canary=True)
rodded.cname = 'RoddedRegion.calculate_pressure_drop'


GRID = 10 ** 12         # axial planes lie on the 1e-12 m raster (Reactor._setup_zpts rounds them; C05 proves it)
DRIFT = 0.25            # raster units: bound on the floating-point drift of the accumulated position handed to a region


def _units(S, k):
    """k raster units as a length"""
    from pvc import core
    return k * core.Sym(core.C(1)) / GRID if S.mode == 'sym' else k / GRID


def _on_raster(S, x):
    """a position read on the raster, as numpy.around(x, 12) does (symbolically: K / 1e12 with the integer atom K,
    |x 1e12 - K| <= 1/2 - the very atom the code under contract gets for the same argument)"""
    return round(x, 12) if S.mode == 'sym' else np.around(x, 12)


def _planes(S, first_on=None):
    """three consecutive planes za < zb < zc on the raster, and what a region is handed for the two steps between them:
    the upper plane with the drift of a position accumulated step by step, and the step with its rounding error"""
    ia = S.int('ia', 0, 3 * 10 ** 11)
    n1 = S.int('n1', 1, 2 * 10 ** 11)
    n2 = S.int('n2', 1, 2 * 10 ** 11)
    S.assume(ia >= 0, 'planes start at the core inlet')
    S.assume(n1 >= 1, 'steps are at least one raster unit (C05: strict progress on the raster)')
    S.assume(n2 >= 1, 'steps are at least one raster unit')
    za, zb, zc = _units(S, ia), _units(S, ia + n1), _units(S, ia + n1 + n2)
    e = []
    for i in range(4):
        d = S.real(f'drift{i}', -DRIFT, DRIFT)
        S.assume(d <= DRIFT, 'floating-point drift below a quarter raster unit')
        S.assume(d >= -DRIFT, 'floating-point drift below a quarter raster unit')
        e.append(_units(S, d))
    return (ia, n1, n2), (za, zb, zc), ((zb + e[0], zb - za + e[1]), (zc + e[2], zc - zb + e[3]))


def grid(S, cfg):
    """two consecutive axial steps (za, zb], (zb, zc] between planes on the 1e-12 m raster, handed down with bounded
    drift, and a grid whose position read on the raster lies in (za, zc]: the grid loss is added in exactly one of the
    two steps"""
    rr = make_rodded(S, n_ring=2, n_duct=1)
    set_int_params(S, rr)
    K = S.pos('K', 0.5, 2.0)
    vel = S.pos('vel', 1.0, 8.0)
    rr.coolant_int_params['grid_loss_coeff'] = K
    rr.coolant_int_params['vel'] = vel
    (ia, n1, n2), (za, zb, zc), (step1, step2) = _planes(S)
    if hasattr(rr, 'z'):
        del rr.z
    where = cfg['where']
    if where == 'on_plane':
        g = zb
    elif where == 'near_plane':
        off = S.real('g_off', -0.4, 0.4)                   # input noise (unit conversion) around the plane
        S.assume(off <= 0.4, 'grid within 0.4 raster units of the plane')
        S.assume(off >= -0.4, 'grid within 0.4 raster units of the plane')
        g = zb + _units(S, off)
    else:
        g = S.pos('g', 0.0, 0.7)
        rg = _on_raster(S, g)
        lo, hi = dict(first=(za, zb), second=(zb, zc), any=(za, zc))[where]
        S.assume(rg > lo, 'grid above the lower plane')
        S.assume(rg <= hi, 'grid not above the upper plane')
    far = S.pos('far', 0.5, 1.0)
    S.assume(far >= 1e-3, 'a second grid well above both steps')
    other = zc + far
    rr.corr_constants['grid'] = {'z': [g, other], 'n': 2}
    loss = K * rr.coolant.density * vel * vel / 2
    r1 = rr.calculate_spacergrid_pressure_drop(*step1)
    r2 = rr.calculate_spacergrid_pressure_drop(*step2)
    S.eq('grid.exactly_once', r1 + r2, loss)
    S.le('grid.nonneg', 0, r1)
    if where in ('on_plane', 'near_plane', 'first'):
        S.eq('grid.in_the_step_that_ends_on_or_above_it', r1, loss)
    S.eq('canary.grid_counted_twice', r1 + r2, 2 * loss, canary=True)
grid.cname = 'RoddedRegion.calculate_spacergrid_pressure_drop'
grid.run_kw = dict(pool_size=10)


def unrodded(S, cfg):
    # the gravity option enters through the real constructor (as Assembly / make_axialregion pass it on)
    grav = cfg.get('gravity', True)
    ur = make_unrodded(S, model=cfg.get('model', 'simple'), gravity=grav)
    S.holds('dp.gravity_option_reaches_the_region', ur._gravity is grav)
    ff = S.pos('ff', 0.01, 0.05)
    vel = S.pos('vel', 1.0, 8.0)
    ur.coolant_params['ff'] = ff
    ur.coolant_params['vel'] = vel
    rho = ur.coolant.density
    dz1 = S.pos('dz1', 0.001, 0.02)
    dz2 = S.pos('dz2', 0.001, 0.02)
    f1 = ur.calculate_friction_pressure_drop(dz1)
    S.eq('dp.closed_form.friction', f1, ff * dz1 * rho * vel * vel / (2 * ur._params['de']))
    S.eq('dp.additive_in_dz.friction', ur.calculate_friction_pressure_drop(dz1 + dz2),
         f1 + ur.calculate_friction_pressure_drop(dz2))
    S.le('dp.nonneg.friction', 0, f1)
    g1 = ur.calculate_gravity_pressure_drop(dz1)
    S.eq('dp.closed_form.gravity', g1, rho * G * dz1)
    ur._pressure_drop = {'friction': S.nonneg('acc_f', 0.0, 1e4), 'gravity': S.nonneg('acc_g', 0.0, 1e4)}
    before = dict(ur._pressure_drop)
    ur.calculate_pressure_drop(S.pos('z', 0.5, 1.0), dz1)
    S.eq('dp.accumulate.friction', ur._pressure_drop['friction'], before['friction'] + f1)
    S.eq('dp.accumulate.gravity', ur._pressure_drop['gravity'], before['gravity'] + (g1 if grav else 0))
    S.eq('dp.sum_of_parts', ur.pressure_drop, ur._pressure_drop['friction'] + ur._pressure_drop['gravity'])
    if grav:
        S.eq('canary.gravity_missing', ur.pressure_drop, ur._pressure_drop['friction'], canary=True)
    else:
        S.eq('canary.friction_missing', ur.pressure_drop, ur._pressure_drop['gravity'], canary=True)
unrodded.cname = 'SingleNodeHomogeneous.calculate_pressure_drop'


class _StubRegion:
    def __init__(self, dp):
        self.pressure_drop = dp
        self.activated = 0
        self._map = {'gap2duct': None}
        self.temp = {'duct_surf': np.ones((1, 2, 6))}

    def activate(self, prev, t, h, adiabatic):
        self.activated += 1


def assembly(S, cfg):
    """region change: the finished region's pressure drop is added to the assembly
    total exactly once and the reported total is continuous across the change"""
    from dassh import assembly as A
    asm = A.Assembly.__new__(A.Assembly)
    p0, p1 = S.nonneg('dp_region0', 0.0, 1e4), S.nonneg('dp_region1', 0.0, 10.0)
    acc = S.nonneg('dp_done', 0.0, 1e4)
    asm.region = [_StubRegion(p0), _StubRegion(p1)]
    asm.region_bnd = [0.0, 1.0, 2.0]
    asm._active_region_idx = 0
    asm._pressure_drop = acc
    # Assembly.active_region_idx is a property in the real class; bind through the class definition
    before = asm.pressure_drop
    S.eq('asm.total_before', before, acc + p0)
    asm.update_region(1.5, None, None, adiabatic=True)
    S.eq('asm.accumulated_once', asm._pressure_drop, acc + p0)
    S.eq('asm.total_after', asm.pressure_drop, acc + p0 + p1)
    asm.update_region(1.7, None, None, adiabatic=True)      # same region again: nothing is added twice
    S.eq('asm.no_double_count', asm._pressure_drop, acc + p0)
    S.holds('asm.activated_once', asm.region[1].activated == 1)
    S.eq('canary.asm_drops_old_region', asm.pressure_drop, acc + p1, canary=True)
assembly.cname = 'Assembly.update_region'


def grids(S, cfg):
    """two grids anywhere in the bundle, listed in either order, and two consecutive steps (za, zb], (zb, zc] between
    planes on the raster (handed down with drift) through the real calculate_pressure_drop: the spacer-grid part grows
    by one loss for every grid whose raster position lies in (za, zc] - also when both lie in the same step or at the
    same position - and, when za is the lower bound of the bundle (first step), for a grid on that bound; when zc is
    the upper bound of the bundle (last step) a grid on it is charged (the reader keeps z_lo <= g <= z_hi)."""
    rr = make_rodded(S, n_ring=2, n_duct=1)
    set_int_params(S, rr)
    K = S.pos('K', 0.5, 2.0)
    vel = S.pos('vel', 1.0, 8.0)
    rr.coolant_int_params['grid_loss_coeff'] = K
    rr.coolant_int_params['vel'] = vel
    rr.coolant_int_params['ff'] = S.pos('ff', 0.01, 0.05)
    rr._gravity = False
    (ia, n1, n2), (za, zb, zc), (step1, step2) = _planes(S)
    first, last = cfg['first'], cfg.get('last', False)
    if first:
        z_lo = za
    else:
        # a later step starts at least one raster unit above the bundle bound
        below = S.int('below', 1, 3 * 10 ** 11)
        S.assume(below >= 1, 'a later step starts at least one raster unit above the bundle bound')
        z_lo = za - _units(S, below)
    if last:
        z_hi = zc
    else:
        above = S.int('above', 1, 10 ** 12)
        S.assume(above >= 1, 'an earlier step ends at least one raster unit below the bundle bound')
        z_hi = zc + _units(S, above)
    rr.z = [z_lo, z_hi]
    # in the bundle (the reader's guarantee), anywhere - not only on the raster
    g = [z_lo + S.nonneg(f'g{i}', 0.0, 0.7) for i in range(2)]
    for gi in g:
        S.assume(gi <= z_hi, 'the reader keeps grids with z_lo <= g <= z_hi')
    if cfg.get('same'):
        g[1] = g[0]
    rr.corr_constants['grid'] = {'z': list(g), 'n': 2}
    loss = K * rr.coolant.density * vel * vel / 2
    rr._pressure_drop = {'friction': 0 * loss, 'spacer_grid': 0 * loss, 'gravity': 0 * loss}
    rr.calculate_pressure_drop(*step1)
    rr.calculate_pressure_drop(*step2)
    count = 0
    for gi in g:
        rg = _on_raster(S, gi)
        if rg <= zc and (rg > za or (first and rg <= za)):
            count += 1
    S.eq('grids.each_charged_once', rr._pressure_drop['spacer_grid'], count * loss)
    if first and last:
        S.eq('grids.all_charged_over_the_whole_bundle', rr._pressure_drop['spacer_grid'], 2 * loss)
    S.eq('canary.grids_charged_per_step', rr._pressure_drop['spacer_grid'], (1 if count else 0) * loss, canary=True)


grids.cname = 'RoddedRegion.calculate_pressure_drop/two-grids'
grids.run_kw = dict(pool_size=12, max_paths=400, check_div=False)


def region_of_step(S, cfg):
    """which region a step belongs to: planes on the 1e-12 m raster, region bounds as read (raster point + noise of a unit
    conversion, below or above): the step that ends on plane P is computed by region j exactly when
    B_j < P <= B_{j+1} on the raster - in particular the step that ends ON a region bound still belongs to the region
    below it, whatever the noise, so that every region accumulates friction and gravity over its own length"""
    from dassh import assembly as A
    n = cfg['n_regions']
    asm = A.Assembly.__new__(A.Assembly)
    B, bnd = [0], [0.0]
    for j in range(1, n):
        step = S.int(f'B{j}', 1, 10 ** 11)
        S.assume(step >= 1, 'region bounds are distinct raster points')
        B.append(B[-1] + step)
        noise = S.real(f'noise{j}', -0.4, 0.4)
        S.assume(noise <= 0.4, 'conversion noise below 0.4 raster units')
        S.assume(noise >= -0.4, 'conversion noise below 0.4 raster units')
        bnd.append(_units(S, B[-1]) + _units(S, noise))
    asm.region_bnd = bnd
    P = S.int('P', 1, 4 * 10 ** 11)
    S.assume(P >= 1, 'a step ends above the core inlet')
    idx = asm._identify_active_region(_units(S, P))
    S.holds('region.index_in_range', 0 <= idx < n)
    if 0 <= idx < n:
        S.le('region.step_ends_above_the_lower_bound', B[idx] + 1, P)
        if idx + 1 < n:
            S.le('region.step_ends_not_above_the_upper_bound', P, B[idx + 1])
    S.holds('canary.region_always_the_first', idx == 0, canary=True)


region_of_step.cname = 'Assembly._identify_active_region'
region_of_step.run_kw = dict(pool_size=10, check_div=False)


def pressure_table(S, cfg):
    """the reported pressure drops through the real PressureDropTable.make on a reactor of atoms (printed cells are
    read back through format tokens): total = the assembly's accumulated pressure drop, friction and gravity = the sums
    over ALL regions, spacer grids = the bundle's, one column per region with that region's own total; the parts add up
    to the total (all in MPa)"""
    from dassh import table
    from pvc import core
    n_reg, grav = cfg['n_regions'], cfg.get('gravity', True)

    class _Reg:
        pass

    class _A:
        pass

    class _R:
        pass
    regs = []
    for j in range(n_reg):
        g = _Reg()
        g._pressure_drop = {'friction': S.pos(f'dp_f[{j}]', 1e3, 1e5), 'gravity': S.nonneg(f'dp_g[{j}]', 0.0, 1e4)}
        regs.append(g)
    rod = regs[cfg.get('rodded_idx', 0)]
    rod._pressure_drop['spacer_grid'] = S.pos('dp_s', 1e2, 1e4) if cfg.get('grids', True) else 0.0
    for g in regs:
        g.pressure_drop = g._pressure_drop['friction'] + g._pressure_drop.get('spacer_grid', 0.0) + \
            (g._pressure_drop['gravity'] if grav else 0.0)
    a = _A()
    a.name, a.loc, a.id = 'asm', (1, 2), 4
    a.region, a.rodded, a.has_rodded = regs, rod, True
    total = regs[0].pressure_drop
    for g in regs[1:]:
        total = total + g.pressure_drop
    a.pressure_drop = total
    r = _R()
    r.assemblies = [a]
    r._options = {'include_gravity': grav}
    if not grav:
        for g in regs:
            g._pressure_drop['gravity'] = 0.0 * g._pressure_drop['friction']
    t = table.PressureDropTable(n_reg)
    t.make(r)
    rows = [ln for ln in t._table.splitlines() if ln.strip() and ln.split()[0].isdigit()]
    S.holds('dptable.one_row_per_assembly', len(rows) == 1)
    if len(rows) != 1:
        return
    cells = rows[0].replace('( ', '(').replace(', ', ',').split()

    def value(c):
        if S.mode == 'sym':
            return core.parse_token(c)
        try:
            return float(c)
        except ValueError:
            return None
    vals = [value(c) for c in cells[3:]]
    S.holds('dptable.row_shape', len(vals) == 4 + n_reg and vals[0] is not None and vals[1] is not None
            and all(v is not None for v in vals[4:]))
    if len(vals) != 4 + n_reg or vals[0] is None or vals[1] is None or any(v is None for v in vals[4:]):
        return
    fr = regs[0]._pressure_drop['friction']
    gr = regs[0]._pressure_drop['gravity']
    for g in regs[1:]:
        fr, gr = fr + g._pressure_drop['friction'], gr + g._pressure_drop['gravity']
    sp = rod._pressure_drop['spacer_grid']
    S.holds('dptable.spacer_printed_iff_grids', (vals[2] is not None) == bool(cfg.get('grids', True)))
    S.holds('dptable.gravity_printed_iff_option', (vals[3] is not None) == grav)
    if S.mode == 'sym':
        S.eq('dptable.total_is_assembly_total', vals[0] * 1e6, a.pressure_drop)
        S.eq('dptable.friction_over_all_regions', vals[1] * 1e6, fr)
        if vals[2] is not None:
            S.eq('dptable.spacer_grids_of_the_bundle', vals[2] * 1e6, sp)
        if vals[3] is not None:
            S.eq('dptable.gravity_over_all_regions', vals[3] * 1e6, gr)
        for j in range(n_reg):
            S.eq(f'dptable.region_column[{j}]', vals[4 + j] * 1e6, regs[j].pressure_drop)
        parts = vals[1] + (vals[2] if vals[2] is not None else 0) + (vals[3] if vals[3] is not None else 0)
        S.eq('dptable.parts_add_up_to_total', parts, vals[0])
        acc = vals[4]
        for j in range(1, n_reg):
            acc = acc + vals[4 + j]
        S.eq('dptable.regions_add_up_to_total', acc, vals[0])
        S.eq('canary.dptable_total_is_first_region', vals[0] * 1e6, regs[0].pressure_drop, canary=(n_reg > 1))
    else:
        rel = lambda x, y: abs(x * 1e6 - y) / max(abs(y), 1e-9)     # noqa: E731  (cells carry five significant digits)
        S.le('dptable.total_is_assembly_total', rel(vals[0], a.pressure_drop), 6e-5)
        S.le('dptable.friction_over_all_regions', rel(vals[1], fr), 6e-5)
        if vals[2] is not None:
            S.le('dptable.spacer_grids_of_the_bundle', rel(vals[2], sp), 6e-5)
        if vals[3] is not None:
            S.le('dptable.gravity_over_all_regions', rel(vals[3], gr), 6e-5)
        for j in range(n_reg):
            S.le(f'dptable.region_column[{j}]', rel(vals[4 + j], regs[j].pressure_drop), 6e-5)


pressure_table.cname = 'PressureDropTable.make'
pressure_table.run_kw = dict(pool_size=8, check_div=False)


def configs(tier):
    out = [(pressure_table, dict(n_regions=1)), (pressure_table, dict(n_regions=3, rodded_idx=1)),
           (pressure_table, dict(n_regions=2, rodded_idx=0, gravity=False)),
           (pressure_table, dict(n_regions=2, rodded_idx=1, grids=False)),
           (region_of_step, dict(n_regions=2)), (region_of_step, dict(n_regions=3)),
           (rodded, dict(gravity=True)), (rodded, dict(gravity=False)),
           (grid, dict(where='first')), (grid, dict(where='second')), (grid, dict(where='on_plane')),
           (grid, dict(where='any')), (grid, dict(where='near_plane')),
           (grids, dict(first=True)), (grids, dict(first=False)), (grids, dict(first=True, same=True)),
           (grids, dict(first=False, last=True)), (grids, dict(first=True, last=True)),
           (unrodded, dict(model='simple')), (unrodded, dict(model='6node')),
           (unrodded, dict(model='simple', gravity=False)), (unrodded, dict(model='6node', gravity=False)),
           (assembly, dict())]
    # a region accumulates friction and gravity over exactly its own length only if every region boundary is an axial
    # plane: the mesh loop never skips a boundary, also when two lie within one step (C05's contracts, shared)
    from . import c05
    out += [(c05.loop_body, dict(n_bounds=3, req='grid')), (c05.loop_prefix, dict())]
    return out



# ---------------------------------------------------------------------------------------
# bounded: the gravity option end to end (input -> Reactor -> Assembly -> region factories -> regions)
RUNTIME = {
    'bundle_only': dict(asms={'a1': dict()}),
    'simple_regions': dict(asms={'a1': dict(unrodded=[('lower', 0.0, 0.3, 'simple'), ('upper', 0.8, 1.0, 'simple')])}),
    'sixnode_regions': dict(asms={'a1': dict(unrodded=[('lower', 0.0, 0.3, '6node'), ('upper', 0.8, 1.0, '6node')])}),
    'mixed_regions_double_duct': dict(asms={'a1': dict(n_duct=2, unrodded=[('lower', 0.0, 0.25, '6node'), ('upper', 0.7, 1.0, 'simple')])}),
    'low_fidelity_6node': dict(asms={'a1': dict(low_fidelity='6node')}),
}


def _gravity_case(args):
    import os
    import shutil
    import sys
    import tempfile
    name, on = args
    sys.path.insert(0, os.environ.get('DASSH_REPO', '/repo'))
    from pvc import geninput as Gn
    wd = tempfile.mkdtemp(prefix='c14_')
    try:
        p = Gn.write_problem(wd, gap_model='none', setup_extra=f'    include_gravity_head_loss = {on}\n', **RUNTIME[name])
        inp, r = Gn.build(p, sweep=True)
        a = r.assemblies[0]
        grav = sum(float(np.sum(reg._pressure_drop['gravity'])) for reg in a.region)
        want = 850.0 * 9.80665 * 1.0 if on else 0.0
        g_const = None
        try:
            from dassh import region
            g_const = getattr(region, '_GRAVITY', None)
        except Exception:
            pass
        ok = abs(grav - want) <= 1e-6 * max(want, 1.0) if g_const is None else abs(grav - (850.0 * g_const if on else 0.0)) <= 1e-6 * max(want, 1.0)
        per = [float(np.sum(reg._pressure_drop['gravity'])) for reg in a.region]
        return name, on, ok, f'gravity head {grav!r} Pa (per region {per}), expected {want!r} Pa'
    except BaseException as e:
        return name, on, False, f'{type(e).__name__}: {e}'
    finally:
        shutil.rmtree(wd, ignore_errors=True)


# bounded: every spacer grid the reader accepts is charged exactly once by a whole sweep
_UR = [('lower', 0.0, 0.3, 'simple'), ('upper', 0.8, 1.0, 'simple')]
GRIDS = {
    'one': dict(grid=[0.5]),
    'descending': dict(grid=[0.75, 0.5, 0.25]),
    'max_not_last': dict(grid=[0.625, 0.125, 0.875, 0.375]),
    'two_in_one_step': dict(grid=[0.5012, 0.5037]),
    'same_position_twice': dict(grid=[0.5, 0.5]),
    'on_core_inlet': dict(grid=[0.0, 0.5]),
    'on_bundle_lower_bound': dict(grid=[0.3, 0.5], unrodded=_UR),
    'on_bundle_upper_bound': dict(grid=[0.8, 0.5], unrodded=_UR),
    'outside_bundle_skipped': dict(grid=[0.1, 0.5, 0.9], unrodded=_UR, _expect=1),
    # step sizes for which the accumulated position of the last bundle step falls just below the plane
    'on_bundle_upper_bound_dz_1.3mm': dict(grid=[0.8, 0.5], unrodded=_UR, _dz=0.0013),
    'on_bundle_upper_bound_dz_2.3mm': dict(grid=[0.8, 0.3], unrodded=_UR, _dz=0.0023),
    # a grid one ulp above an accumulated position (0.49 + ...): charged once, not in two steps
    'one_ulp_above_a_plane': dict(grid=[0.49000000000000027], _dz=0.01),
    'one_ulp_above_a_plane_dz_3mm': dict(grid=[0.4980000000000004, 0.8], unrodded=_UR, _dz=0.003),
}


def _grid_case(name):
    import os
    import shutil
    import sys
    import tempfile
    sys.path.insert(0, os.environ.get('DASSH_REPO', '/repo'))
    from pvc import geninput as Gn
    wd = tempfile.mkdtemp(prefix='c14g_')
    try:
        kw = {k: v for k, v in GRIDS[name].items() if not k.startswith('_')}
        extra = f"    axial_mesh_size = {GRIDS[name]['_dz']}\n" if '_dz' in GRIDS[name] else ''
        inp, r = Gn.build(Gn.write_problem(wd, gap_model='none', asms={'a1': kw}, setup_extra=extra), sweep=True)
        rr = r.assemblies[0].rodded
        one = 1.2 * rr.coolant.density * rr.coolant_int_params['vel'] ** 2 / 2      # constant properties, loss_coeff 1.2
        got = float(rr._pressure_drop['spacer_grid'])
        want = GRIDS[name].get('_expect', len(kw['grid']))
        ok = abs(got - want * one) <= 1e-9 * max(1.0, want * one)
        return name, ok, f'spacer-grid pressure drop {got!r} Pa = {got / one:.6f} grid losses, expected {want} (positions {kw["grid"]}, bundle {rr.z})'
    except BaseException as e:
        return name, False, f'{type(e).__name__}: {e}'
    finally:
        shutil.rmtree(wd, ignore_errors=True)


def extra_checks(tier, seed):
    import multiprocessing as mp
    import time
    t0 = time.time()
    jobs = [(n, on) for n in RUNTIME for on in (True, False)]
    with mp.get_context('fork').Pool(10) as pool:
        out = pool.map(_gravity_case, jobs, chunksize=1)
        gout = pool.map(_grid_case, list(GRIDS), chunksize=1)
    secs = time.time() - t0
    results = []
    for name, ok, d in gout:
        results.append(dict(name=f'runtime.grid_charged_once[{name}]', status='proved' if ok else 'refuted',
                            backend='bounded:run-time contract', seconds=secs / (len(out) + len(gout)), detail=d,
                            witness=dict(values=dict(grid_case=name)),
                            replay=dict(reproduced=not ok, point=dict(values=dict(grid_case=name)), native=d)))
    for name, on, ok, d in out:
        results.append(dict(name=f'runtime.gravity_head[{name},{"on" if on else "off"}]', status='proved' if ok else 'refuted',
                            backend='bounded:run-time contract', seconds=secs / len(out), detail=d, sample=(name == 'sixnode_regions' and on),
                            witness=dict(values=dict(case=name, on=on)),
                            replay=dict(reproduced=not ok, point=dict(values=dict(case=name, on=on)), native=d)))
    return [dict(name='gravity option end to end (run-time contracts)', results=results,
                 notes=['BOUNDED: runtime.gravity_head[*] and runtime.grid_charged_once[*] on generated single-assembly problems'])]


def replay(doc):
    w = (doc.get('witness') or {}).get('values') or {}
    if w.get('grid_case') in GRIDS:
        name, ok, d = _grid_case(w['grid_case'])
        print('replay:', name, d)
        print('not reproduced' if ok else 'REPRODUCED')
        return 0 if ok else 1
    if w.get('case') not in RUNTIME:
        print('replay: symbolic obligation - re-run ./check C14')
        return 0
    name, on, ok, d = _gravity_case((w['case'], bool(w.get('on'))))
    print('replay:', name, on, d)
    print('not reproduced' if ok else 'REPRODUCED')
    return 0 if ok else 1
