"""C15 - reported peak temperatures are the maxima over the whole sweep.

The running-maximum updates of the REAL Assembly methods are verified as fold
steps for arbitrary real temperatures:
  new peak = max(old peak, max over the cells of this plane)   (value is one of them and >= all)
  height   = this plane's z when the old peak is strictly exceeded, unchanged otherwise
  duct     : region duct d (of n) updates entry len(peaks) - n + d, all other entries untouched
  pins     : per location column, value fold-max; the stored radial profile is the row of the
             arg-max pin at this plane (with this plane's z); untouched when not exceeded; the stored
             profile is owned by _peak (unchanged when region.pin_temps is overwritten in place afterwards)
The statement over a whole sweep follows by induction over the steps (fold of max).
"""
from __future__ import annotations
import copy
import numpy as np
from . import common
from pvc import core

MODULES = ['dassh.assembly', 'dassh.table']
PROPERTY = 'C15'
LEAN_LEMMAS = ['running_max_ge', 'running_max_attained']        # /verif/lean/Ghost.lean, checked in the thorough tier
FUNCTIONS = ['dassh.assembly:Assembly._update_peak_coolant_temps', 'dassh.assembly:Assembly._update_peak_duct_temps',
             'dassh.assembly:Assembly._update_peak_pin_temps', 'dassh.assembly:Assembly.pin_temp_array',
             'dassh.assembly:Assembly.calculate (order of region update, pressure drop, peak updates)',
             'dassh.table:DuctTempTable._get_avg_duct_face_temp', 'dassh.table:CoolantTempTable.make', 'dassh.table:PeakPinTempTable.make', 'dassh.table:DuctTempTable.make']
ASSUMPTIONS = ['temperatures are > 0 K so that the initial peak 0.0 is exceeded at the first plane',
               'the whole-sweep statement is the induction over steps of the proved fold step (maximum of a sequence = '
               'fold of binary max; first height of attainment because the update is strict)']
NOT_DECIDED = ['text tables (DuctTempTable beyond the bounded run-time contract): '
               'formatting and unit conversion of the printed numbers; CoolantTempTable / PeakPinTempTable: the rounding of cells '
               '(its cells are under contract as the values handed to the formatter)']


class _Region:
    def __init__(self, temp, pin_temps=None):
        self.temp = temp
        if pin_temps is not None:
            self.pin_model = object()
            self.pin_temps = pin_temps


def _asm(S, region, n_peak_duct):
    from dassh import assembly as A
    asm = A.Assembly.__new__(A.Assembly)
    asm.region = [region]
    asm._active_region_idx = 0
    asm._z = S.pos('z', 0.1, 3.0)
    asm._peak = {'cool': (S.nonneg('pk_cool', 0.0, 900.0), S.nonneg('pk_cool_z', 0.0, 0.1)),
                 'duct': [(S.nonneg(f'pk_duct{i}', 0.0, 900.0), S.nonneg(f'pk_duct{i}_z', 0.0, 0.1))
                          for i in range(n_peak_duct)]}
    return asm


def _is_max(S, tag, new, old, vals, block=None):
    """new == max(old, *vals): attained and an upper bound"""
    cands = [old] + list(vals)
    prod = 1
    for c in cands:
        prod = prod * (new - c)
        S.le(f'{tag}.upper_bound[{len(cands)}]' if False else f'{tag}.ge', c, new)
    S.eq(f'{tag}.attained', prod, 0)


def coolant(S, cfg):
    n = cfg['n']
    T = S.vec('T', n, 'pos', 500.0, 1000.0)
    asm = _asm(S, _Region({'coolant_int': T}), 1)
    old = asm._peak['cool']
    asm._update_peak_coolant_temps()
    new = asm._peak['cool']
    for i in range(n):
        S.le(f'cool.ge_cell[{i}]', T[i], new[0])
    S.le('cool.ge_old', old[0], new[0])
    prod = (new[0] - old[0])
    for i in range(n):
        prod = prod * (new[0] - T[i])
    S.eq('cool.attained', prod, 0)
    # height: this plane iff strictly exceeded
    S.eq('cool.height', (new[1] - asm.z) * (new[1] - old[1]), 0)
    S.eq('cool.height_kept_when_not_exceeded', (new[0] - old[0]) * 0 + (new[1] - old[1]) * (new[1] - asm.z), 0)
    S.holds('cool.height_rule', ((new[0] > old[0]) & (new[1] == asm.z)) | ((new[0] == old[0]) & (new[1] == old[1])))
    S.holds('canary.cool_always_updates', new[1] == asm.z, canary=True)
coolant.cname = 'Assembly._update_peak_coolant_temps'
coolant.run_kw = dict(pool_size=10)


def duct(S, cfg):
    n_reg, n_pk, nc = cfg['n_region_ducts'], cfg['n_peak_ducts'], cfg['cells']
    T = S.vec('Tmw', (n_reg, nc), 'pos', 500.0, 1000.0)
    asm = _asm(S, _Region({'duct_mw': T}), n_pk)
    old = list(asm._peak['duct'])
    asm._update_peak_duct_temps()
    new = asm._peak['duct']
    S.holds('duct.length_kept', len(new) == n_pk)
    written = set()
    for d in range(n_reg):
        k = n_pk - n_reg + d
        written.add(k)
        for c in range(nc):
            S.le(f'duct.ge_cell[{d},{c}]', T[d, c], new[k][0])
        S.le(f'duct.ge_old[{d}]', old[k][0], new[k][0])
        prod = new[k][0] - old[k][0]
        for c in range(nc):
            prod = prod * (new[k][0] - T[d, c])
        S.eq(f'duct.attained[{d}]', prod, 0)
        S.holds(f'duct.height_rule[{d}]', ((new[k][0] > old[k][0]) & (new[k][1] == asm.z))
                | ((new[k][0] == old[k][0]) & (new[k][1] == old[k][1])))
    for k in range(n_pk):
        if k not in written:
            S.eq(f'duct.untouched[{k}]', [new[k][0], new[k][1]], [old[k][0], old[k][1]])
    S.holds('canary.duct_writes_first_entry', new[0][0] >= T[0, 0] if n_pk > n_reg else new[0][0] > new[0][0] + 1,
            canary=True)
duct.cname = 'Assembly._update_peak_duct_temps'
duct.run_kw = dict(pool_size=10, max_paths=200)


def pins(S, cfg):
    npin = cfg['n_pin']
    tp = S.vec('tp', (npin, 9), 'pos', 500.0, 1500.0)
    for p in range(npin):
        tp[p, 0] = 7
        tp[p, 2] = p
    asm = _asm(S, _Region({'coolant_int': tp[:, 3]}, pin_temps=tp), 1)
    keys = ['clad_od', 'clad_mw', 'clad_id', 'fuel_od', 'fuel_cl'][:cfg.get('n_keys', 2)]
    asm._peak['pin'] = {}
    old = {}
    for i, k in enumerate(keys):
        prof = list(S.vec(f'old_{k}', 9, 'pos', 500.0, 1500.0))
        asm._peak['pin'][k] = [S.nonneg(f'pk_{k}', 0.0, 1500.0), i + 4, prof]
        old[k] = (asm._peak['pin'][k][0], list(prof))
    asm._update_peak_pin_temps()
    for i, k in enumerate(keys):
        col = i + 4
        new_v, _, new_prof = asm._peak['pin'][k]
        for p in range(npin):
            S.le(f'pin.ge_pin[{k},{p}]', tp[p, col], new_v)
        S.le(f'pin.ge_old[{k}]', old[k][0], new_v)
        prod = new_v - old[k][0]
        for p in range(npin):
            prod = prod * (new_v - tp[p, col])
        S.eq(f'pin.attained[{k}]', prod, 0)
        # the stored profile: either untouched (not exceeded) or the complete row of a pin attaining the new peak
        kept = (new_v == old[k][0])
        for j in range(9):
            kept = kept & (new_prof[j] == old[k][1][j]) if S.mode == 'sym' else kept and (new_prof[j] == old[k][1][j])
        alts = kept
        for p in range(npin):
            row = (new_v > old[k][0]) & (tp[p, col] == new_v) if S.mode == 'sym' else \
                (new_v > old[k][0]) and (tp[p, col] == new_v)
            for j in range(9):
                want = asm.z if j == 1 else tp[p, j]
                row = row & (new_prof[j] == want) if S.mode == 'sym' else row and (new_prof[j] == want)
            alts = alts | row if S.mode == 'sym' else alts or row
        S.holds(f'pin.profile_is_row_of_argmax[{k}]', alts)
    # ownership: the stored profile belongs to _peak - the in-place overwrite of region.pin_temps by the next
    # axial step (pin temperatures are recomputed into the same array) must not reach it
    snap = {k: [x for x in asm._peak['pin'][k][2]] for k in keys}
    tp2 = S.vec('tp_next', (npin, 9), 'pos', 400.0, 450.0)
    for p in range(npin):
        for j in range(9):
            tp[p, j] = tp2[p, j]
    for k in keys:
        prof = asm._peak['pin'][k][2]
        for j in range(9):
            S.eq(f'pin.profile_owned[{k},{j}]', prof[j], snap[k][j])
    S.holds('canary.pin_profile_always_first_pin', snap[keys[0]][2] == 0, canary=True)
pins.cname = 'Assembly._update_peak_pin_temps'
pins.run_kw = dict(pool_size=12, max_paths=400)


def step_glue(S, cfg):
    """the real Assembly.calculate with a recording region: the peak records are updated AFTER the fields of this step
    exist - after the call every peak bounds the coolant, duct and pin temperatures the region computed in THIS step,
    the heights stored with a new peak are this step's z, and the pressure drop is charged for (z, dz) of this step."""
    from dassh import assembly as A
    npin, nd = 2, 2
    new_cool = S.vec('new_cool', 3, 'pos', 600.0, 1200.0)
    new_duct = S.vec('new_duct', (1, nd), 'pos', 600.0, 1200.0)
    new_pins = S.vec('new_pins', (npin, 9), 'pos', 600.0, 1500.0)
    old_cool = S.vec('old_cool', 3, 'pos', 600.0, 1200.0)
    old_duct = S.vec('old_duct', (1, nd), 'pos', 600.0, 1200.0)
    old_pins = S.vec('old_pins', (npin, 9), 'pos', 600.0, 1500.0)
    log = []

    class Region:
        pin_model = object()

        def __init__(self):
            self.temp = {'coolant_int': old_cool.copy(), 'duct_mw': old_duct.copy()}
            self.pin_temps = old_pins.copy()

        def calculate(self, dz, q, t_gap, h_gap, adiabatic, ebal):
            log.append('calculate')
            self.temp['coolant_int'] = new_cool.copy()
            self.temp['duct_mw'] = new_duct.copy()

        def calculate_pressure_drop(self, z, dz):
            log.append(('dp', z, dz))

        def calculate_pin_temperatures(self, dz, q):
            log.append('pins')
            self.pin_temps[:, :] = new_pins

    class Power:
        def get_power_sweep(self, z=None):
            return {'pins': None, 'cool': None, 'duct': None}
    asm = A.Assembly.__new__(A.Assembly)
    reg = Region()
    asm.region = [reg]
    asm._active_region_idx = 0
    asm.power = Power()
    asm._power_delivered = {'pins': 0.0, 'cool': 0.0, 'duct': 0.0}
    z0 = S.pos('z0', 0.1, 2.0)
    dz = S.pos('dz', 0.001, 0.01)
    asm._z = z0
    asm._peak = {'cool': (S.nonneg('pk_cool', 0.0, 1300.0), S.nonneg('pk_cool_z', 0.0, 0.1)),
                 'duct': [(S.nonneg('pk_duct', 0.0, 1300.0), S.nonneg('pk_duct_z', 0.0, 0.1))],
                 'pin': {'clad_od': [S.nonneg('pk_clad', 0.0, 1600.0), 4, list(S.vec('old_prof_c', 9, 'pos', 500.0, 1500.0))],
                         'fuel_cl': [S.nonneg('pk_fuel', 0.0, 1600.0), 8, list(S.vec('old_prof_f', 9, 'pos', 500.0, 1500.0))]}}
    use_z = cfg.get('z_given', False)
    z_new = z0 + dz
    asm.calculate(dz, None, None, z=(z_new if use_z else None))
    S.eq('step.height_advanced', asm.z, z_new)
    for c in range(3):
        S.le(f'step.coolant_peak_covers_this_step[{c}]', new_cool[c], asm._peak['cool'][0])
    for c in range(nd):
        S.le(f'step.duct_peak_covers_this_step[{c}]', new_duct[0, c], asm._peak['duct'][0][0])
    for k, col in (('clad_od', 4), ('fuel_cl', 8)):
        for p in range(npin):
            S.le(f'step.pin_peak_covers_this_step[{k},{p}]', new_pins[p, col], asm._peak['pin'][k][0])
    S.holds('step.pressure_drop_charged_for_this_step', [e for e in log if isinstance(e, tuple)] == [('dp', asm.z, dz)]
            if S.mode != 'sym' else len([e for e in log if isinstance(e, tuple)]) == 1)
    e = [x for x in log if isinstance(x, tuple)]
    if len(e) == 1:
        S.eq('step.pressure_drop_z', e[0][1], z_new)
        S.eq('step.pressure_drop_dz', e[0][2], dz)
    S.holds('step.region_advanced_once', log.count('calculate') == 1 and log.count('pins') == 1)
    S.le('canary.step_peak_is_old_field', asm._peak['cool'][0], old_cool[0] * 0, canary=True)


step_glue.cname = 'Assembly.calculate/peaks'
step_glue.run_kw = dict(pool_size=12, max_paths=600, check_div=False)


def duct_face_avg(S, cfg):
    """DuctTempTable._get_avg_duct_face_temp (the outlet face temperatures of the duct summary): for every duct d and hex
    face f the value is the plain average of the final-plane mid-wall temperatures of THAT duct over the face's own cells
    (the last of them its trailing corner) and the corner it shares with the preceding face of the same duct."""
    from dassh import table
    nduct, ndps = cfg['n_duct'], cfg['cells_per_side']
    ndsc = 6 * ndps
    T = S.vec('Tmw', (nduct, ndsc), 'pos', 600.0, 1200.0)

    class Reg:
        temp = {'duct_mw': T}

    class Asm:
        region = [Reg()]
    out = table.DuctTempTable._get_avg_duct_face_temp(Asm())
    for d in range(nduct):
        for f in range(6):
            if ndps == 1:
                cells = [f, (f - 1) % 6]
            else:
                cells = list(range(f * ndps, (f + 1) * ndps)) + [(f * ndps - 1) % ndsc]
            S.eq(f'table.duct_face_average[d{d},f{f}]', out[d][f] * len(cells), sum(T[d, c] for c in cells))
    S.eq('canary.duct_face_is_one_cell', out[0][0], T[0, 0], canary=True)


duct_face_avg.cname = 'DuctTempTable._get_avg_duct_face_temp'


def duct_table(S, cfg):
    """the duct summary table through the real DuctTempTable.make: one row per duct of the LAST region; the faces are the
    final-plane face averages of that duct and the peak / height printed next to them are those of the same duct - the
    ducts of the last region are the outermost of the ducts the assembly keeps peaks for"""
    from dassh import table, utils
    n_reg, n_peak = cfg['n_region_ducts'], cfg['n_peak_ducts']

    class _R:
        pass

    class _A:
        pass
    r = _R()
    r.units = {'mass_flow_rate': 'kg/s', 'length': cfg.get('length', 'm'), 'temperature': cfg.get('temperature', 'kelvin')}
    a = _A()
    a.id, a.name, a.loc = 7, 'asm', (1, 2)
    T = S.vec('Tmw', (n_reg, 6), 'pos', 600.0, 1200.0)
    a.region = [_Region({'duct_mw': S.vec('Tmw_first', (n_peak, 6), 'pos', 600.0, 1200.0)}), _Region({'duct_mw': T})]
    a._peak = {'duct': [(S.pos(f'Tpeak[{d}]', 700.0, 1300.0), S.pos(f'zpeak[{d}]', 0.1, 3.0)) for d in range(n_peak)]}
    r.assemblies = [a]
    t = table.DuctTempTable()
    t.make(r)
    tconv = (lambda v: v) if r.units['temperature'] in utils._DEFAULT_UNITS['temperature'] else \
        utils.get_temperature_conversion('K', r.units['temperature'])
    lconv = (lambda v: v) if r.units['length'] in utils._DEFAULT_UNITS['length'] else \
        utils.get_length_conversion('m', r.units['length'])
    rows = [ln for ln in t._table.splitlines() if ln.strip() and ln.split()[0].isdigit()]
    S.holds('ducttable.one_row_per_duct_of_the_last_region', len(rows) == n_reg)
    for d, ln in enumerate(rows[:n_reg]):
        cells = ln.replace('( ', '(').replace(', ', ',').split()
        S.holds(f'ducttable.row_shape[{d}]', len(cells) == 11 and cells[2] == str(d + 1))
        if len(cells) != 11:
            continue
        vals = [core.parse_token(c) if S.mode == 'sym' else float(c) for c in cells[3:]]
        if any(v is None for v in vals):
            S.holds(f'ducttable.cells_are_numbers[{d}]', False)
            continue
        pk = a._peak['duct'][n_peak - n_reg + d]
        if S.mode == 'sym':
            for f in range(6):
                S.eq(f'ducttable.face_average_of_this_duct[{d},{f}]', vals[f], tconv((T[d, f] + T[d, (f - 1) % 6]) / 2))
            S.eq(f'ducttable.peak_of_this_duct[{d}]', vals[6], tconv(pk[0]))
            S.eq(f'ducttable.peak_height_of_this_duct[{d}]', vals[7], lconv(pk[1]))
        else:
            for f in range(6):
                S.le(f'ducttable.face_average_of_this_duct[{d},{f}]', abs(vals[f] - tconv((T[d, f] + T[d, (f - 1) % 6]) / 2)), 0.00501)
            S.le(f'ducttable.peak_of_this_duct[{d}]', abs(vals[6] - tconv(pk[0])), 0.00501)
            S.le(f'ducttable.peak_height_of_this_duct[{d}]', abs(vals[7] - lconv(pk[1])), 0.00501)
    if S.mode == 'sym' and rows and len(rows[0].split()) >= 10 and n_peak > n_reg:
        v = core.parse_token(rows[0].replace('( ', '(').replace(', ', ',').split()[9])
        if v is not None:
            S.eq('canary.ducttable_peak_of_innermost_duct', v, tconv(a._peak['duct'][0][0]), canary=True)


duct_table.cname = 'DuctTempTable.make'
duct_table.run_kw = dict(pool_size=8, check_div=False)


def coolant_table(S, cfg):
    """the coolant summary table through the real CoolantTempTable.make on a reactor whose assemblies answer every
    query with a distinct atom: the printed cells are read back (numbers formatted by the code carry a token of their
    value) - bulk outlet = the assembly's mixed-mean outlet temperature (all coolant, bypass included - not the
    interior average), peak outlet = maximum of the last region's interior coolant field, peak total and its height =
    the running peak, each in the requested unit"""
    import dassh
    from dassh import table, utils
    n_asm, n_sc = cfg.get('n_asm', 2), cfg.get('n_sc', 3)

    class _R:
        pass

    class _A:
        pass
    r = _R()
    r.units = {'mass_flow_rate': 'kg/s', 'length': cfg.get('length', 'm'), 'temperature': cfg.get('temperature', 'kelvin')}
    r.assemblies = []
    for i in range(n_asm):
        a = _A()
        a.id, a.name = i, f'asm{i}'
        a.total_power = S.pos(f'power[{i}]', 1e4, 1e6)
        a.flow_rate = S.pos(f'flow[{i}]', 0.5, 20.0)
        a.avg_coolant_temp = S.pos(f'T_mixed_mean[{i}]', 650.0, 800.0)
        a.avg_coolant_int_temp = S.pos(f'T_interior_mean[{i}]', 650.0, 800.0)
        last, first = _Region({'coolant_int': S.vec(f'Tout[{i}]', n_sc, 'pos', 600.0, 900.0)}), \
            _Region({'coolant_int': S.vec(f'Tother[{i}]', n_sc, 'pos', 600.0, 900.0)})
        a.region = [first, last]
        a.active_region = last
        a._peak = {'cool': (S.pos(f'T_peak[{i}]', 700.0, 950.0), S.pos(f'z_peak[{i}]', 0.1, 3.0))}
        r.assemblies.append(a)
    t = table.CoolantTempTable()
    t.make(r)
    rows = [ln for ln in t._table.splitlines() if ln.strip() and ln.split()[0].isdigit()]
    S.holds('table.one_row_per_assembly', len(rows) == n_asm)
    tconv = (lambda v: v) if r.units['temperature'] in utils._DEFAULT_UNITS['temperature'] else \
        utils.get_temperature_conversion('K', r.units['temperature'])
    lconv = (lambda v: v) if r.units['length'] in utils._DEFAULT_UNITS['length'] else \
        utils.get_length_conversion('m', r.units['length'])
    for i, ln in enumerate(rows[:n_asm]):
        cells = ln.split()
        a = r.assemblies[i]
        if S.mode == 'sym':
            val = [core.parse_token(c) for c in cells]
        else:
            val = []
            for c in cells:
                try:
                    val.append(float(c))
                except ValueError:
                    val.append(None)
        # columns: index, name, power, flow, bulk outlet, peak outlet, peak total, peak + unc., height
        S.holds(f'table.row_shape[{i}]', len(cells) == 9 and all(v is not None for v in val[2:7] + val[8:9]))
        if len(cells) != 9 or any(v is None for v in val[2:7] + val[8:9]):
            continue
        tol = dict(scale=1.0) if S.mode != 'sym' else {}
        field = [tconv(x) for x in a.region[-1].temp['coolant_int']]
        want_out = max(field) if S.mode != 'sym' else None
        if S.mode == 'sym':
            S.eq(f'table.power[{i}]', val[2], a.total_power)
            S.eq(f'table.flow[{i}]', val[3], a.flow_rate)
            S.eq(f'table.bulk_outlet_is_mixed_mean[{i}]', val[4], tconv(a.avg_coolant_temp))
            _is_max(S, f'table.peak_outlet_is_max_of_final_plane[{i}]', val[5], field[0], field[1:])
            S.eq(f'table.peak_total[{i}]', val[6], tconv(a._peak['cool'][0]))
            S.eq(f'table.peak_height[{i}]', val[8], lconv(a._peak['cool'][1]))
        else:
            # natively the cells are rounded to two decimals
            S.le(f'table.bulk_outlet_is_mixed_mean[{i}]', abs(val[4] - tconv(a.avg_coolant_temp)), 0.00501)
            S.le(f'table.peak_outlet_is_max_of_final_plane[{i}].ge', abs(val[5] - want_out), 0.00501)
            S.le(f'table.peak_total[{i}]', abs(val[6] - tconv(a._peak['cool'][0])), 0.00501)
            S.le(f'table.peak_height[{i}]', abs(val[8] - lconv(a._peak['cool'][1])), 0.00501)
    if S.mode == 'sym' and rows and len(rows[0].split()) == 9 and core.parse_token(rows[0].split()[4]) is not None:
        S.eq('canary.table_bulk_outlet_is_interior_mean', core.parse_token(rows[0].split()[4]),
             tconv(r.assemblies[0].avg_coolant_int_temp), canary=True)


coolant_table.cname = 'CoolantTempTable.make'
coolant_table.run_kw = dict(pool_size=8, check_div=False)


def pin_table(S, cfg):
    """the peak pin temperature table through the real PeakPinTempTable.make: for the requested component / location
    the row printed for an assembly is the pin, height and radial profile stored WITH THAT peak (not with another
    location's peak), the linear power of that pin at that height, and the hot-spot temperatures of the assembly with
    that id, each in the requested unit"""
    from dassh import table, utils
    comp, loc = cfg['component'], cfg['region']
    n_asm = 2
    keys = ['clad_od', 'clad_mw', 'clad_id', 'fuel_od', 'fuel_cl']

    class _R:
        pass

    class _A:
        pass

    class _P:
        def __init__(self, tag, n_pin):
            self.asked = []
            self.pins = S.vec(f'plin[{tag}]', n_pin, 'pos', 1e3, 4e4)

        def get_power(self, z):
            self.asked.append(z)
            return {'pins': self.pins, 'duct': None, 'cool': None}
    r = _R()
    r.units = {'mass_flow_rate': 'kg/s', 'length': cfg.get('length', 'm'), 'temperature': cfg.get('temperature', 'kelvin')}
    r._options = {'hotspot': {}}
    r.assemblies = []
    for i in range(n_asm):
        a = _A()
        a.id, a.name = 10 + i, f'asm{i}'           # ids differ from the position in the list
        a.power = _P(i, 3)
        a._peak = {'pin': {}}
        for kk, key in enumerate(keys):
            row = np.empty(9, dtype=object)
            row[0] = 0.0
            row[1] = S.pos(f'z[{i},{key}]', 0.1, 3.0)
            row[2] = (i + kk) % 3                   # the pin differs from location to location
            for c in range(3, 9):
                row[c] = S.pos(f'T[{i},{key},{c}]', 650.0, 1200.0)
            a._peak['pin'][key] = (row[3 + min(kk + 1, 5)], row[1], row)
        r.assemblies.append(a)
    want_key = f'{comp}_{loc}'
    n_hot = {'clad_od': 3, 'clad_mw': 4, 'clad_id': 5, 'fuel_od': 6, 'fuel_cl': 7}[want_key]
    hot = {want_key: [S.vec(f'Thot[{j}]', n_hot, 'pos', 700.0, 1300.0) for j in range(n_asm)]}
    # listed in the reverse order of the assemblies: the row of assembly id is found by id
    hot_ids = {want_key: [r.assemblies[n_asm - 1 - j].id for j in range(n_asm)]}
    t = table.PeakPinTempTable(comp, loc)
    t.make(r, (hot, hot_ids) if cfg.get('hotspot') else None)
    tconv = (lambda v: v) if r.units['temperature'] in utils._DEFAULT_UNITS['temperature'] else \
        utils.get_temperature_conversion('K', r.units['temperature'])
    lconv = (lambda v: v) if r.units['length'] in utils._DEFAULT_UNITS['length'] else \
        utils.get_length_conversion('m', r.units['length'])
    rows = [ln for ln in t._table.splitlines() if ln.strip() and ln.split()[0].isdigit()]
    S.holds('pintable.one_row_per_assembly', len(rows) == n_asm)

    def value(c):
        if S.mode == 'sym':
            return core.parse_token(c)
        try:
            return float(c)
        except ValueError:
            return None
    for i, ln in enumerate(rows[:n_asm]):
        a = r.assemblies[i]
        cells = ln.replace('|', ' ').split()
        src = a._peak['pin'][want_key][2]
        S.holds(f'pintable.pin_of_this_peak[{i}]', len(cells) > 3 and cells[1] == a.name and cells[2] == str(int(src[2])))
        vals = [value(c) for c in cells[3:]]
        n_nom = 2 + 6
        S.holds(f'pintable.row_shape[{i}]', len(vals) >= n_nom and all(v is not None for v in vals[:n_nom]))
        if len(vals) < n_nom or any(v is None for v in vals[:n_nom]):
            continue
        S.holds(f'pintable.power_asked_at_the_peak_height[{i}]', len(a.power.asked) == 1)
        if S.mode == 'sym':
            S.eq(f'pintable.height_of_this_peak[{i}]', vals[0], lconv(src[1]))
            S.eq(f'pintable.power_of_this_pin[{i}]', vals[1], a.power.pins[int(src[2])] / lconv(1))
            if len(a.power.asked) == 1:
                # asked within the rounding the code applies (10 decimals)
                S.le(f'pintable.power_height.hi[{i}]', a.power.asked[0] - src[1], 0.5e-10)
                S.le(f'pintable.power_height.lo[{i}]', src[1] - a.power.asked[0], 0.5e-10)
            for c in range(6):
                S.eq(f'pintable.profile_of_this_peak[{i},{c}]', vals[2 + c], tconv(src[3 + c]))
        else:
            S.le(f'pintable.height_of_this_peak[{i}]', abs(vals[0] - lconv(src[1])), 0.0501)
            S.le(f'pintable.power_of_this_pin[{i}]', abs(vals[1] - a.power.pins[int(src[2])] / lconv(1)), 0.0501)
            if len(a.power.asked) == 1:
                S.le(f'pintable.power_height.hi[{i}]', a.power.asked[0] - src[1], 0.5e-10)
                S.le(f'pintable.power_height.lo[{i}]', src[1] - a.power.asked[0], 0.5e-10)
            for c in range(6):
                S.le(f'pintable.profile_of_this_peak[{i},{c}]', abs(vals[2 + c] - tconv(src[3 + c])), 0.0501)
        if cfg.get('hotspot'):
            j = hot_ids[want_key].index(a.id)
            hv = vals[n_nom:]
            # the table has room for the locations from the coolant out to the requested one
            S.holds(f'pintable.hotspot_columns[{i}]', len(hv) == n_hot - 1 + 0 or len(hv) == n_hot or len(hv) == t.n_col - 9)
            for c in range(min(len(hv), n_hot)):
                if hv[c] is None:
                    S.holds(f'pintable.hotspot_cell_is_a_number[{i},{c}]', False)
                elif S.mode == 'sym':
                    S.eq(f'pintable.hotspot_of_this_assembly[{i},{c}]', hv[c], tconv(hot[want_key][j][c]))
                else:
                    S.le(f'pintable.hotspot_of_this_assembly[{i},{c}]', abs(hv[c] - tconv(hot[want_key][j][c])), 0.0501)
    if S.mode == 'sym' and rows:
        c0 = rows[0].replace('|', ' ').split()
        other = r.assemblies[0]._peak['pin'][keys[(keys.index(want_key) + 1) % 5]][2]
        if len(c0) > 5 and core.parse_token(c0[5]) is not None:
            S.eq('canary.pintable_profile_of_another_peak', core.parse_token(c0[5]), tconv(other[3]), canary=True)


pin_table.cname = 'PeakPinTempTable.make'
pin_table.run_kw = dict(pool_size=8, check_div=False)


def configs(tier):
    out = [(pin_table, dict(component='clad', region='mw')), (pin_table, dict(component='fuel', region='cl', hotspot=True)),
           (pin_table, dict(component='clad', region='od', hotspot=True, temperature='celsius', length='cm')),
           (pin_table, dict(component='clad', region='id')), (pin_table, dict(component='fuel', region='od', hotspot=True)),
           (duct_table, dict(n_region_ducts=1, n_peak_ducts=2)), (duct_table, dict(n_region_ducts=2, n_peak_ducts=2)),
           (duct_table, dict(n_region_ducts=2, n_peak_ducts=3, temperature='fahrenheit', length='in')),
           (coolant_table, dict()), (coolant_table, dict(temperature='celsius', length='cm')),
           (coolant, dict(n=3)),
           (duct, dict(n_region_ducts=1, n_peak_ducts=1, cells=2)),
           (duct, dict(n_region_ducts=1, n_peak_ducts=2, cells=2)),
           (duct, dict(n_region_ducts=2, n_peak_ducts=2, cells=2)),
           (duct, dict(n_region_ducts=2, n_peak_ducts=3, cells=1)),
           (pins, dict(n_pin=2, n_keys=2)), (step_glue, dict()), (step_glue, dict(z_given=True)),
           (duct_face_avg, dict(n_duct=1, cells_per_side=3)), (duct_face_avg, dict(n_duct=2, cells_per_side=2)),
           (duct_face_avg, dict(n_duct=2, cells_per_side=1)), (duct_face_avg, dict(n_duct=3, cells_per_side=3))]
    if tier == 'thorough':
        out += [(coolant, dict(n=5)), (duct, dict(n_region_ducts=2, n_peak_ducts=3, cells=3)),
                (pins, dict(n_pin=3, n_keys=2))]
    return out


# ---------------------------------------------------------------------------------------
# bounded: the duct temperature table lists, for every duct it shows, the peak of THAT duct
BOUNDED = ['runtime.duct_table_peak_is_of_listed_duct[*]: DuctTempTable on generated assemblies whose number of ducts '
           'changes along the height']
RUNTIME = {
    'single_duct': dict(asms={'a1': dict(unrodded=[('upper', 0.7, 1.0, 'simple')])}),
    'double_duct_only': dict(asms={'a1': dict(n_duct=2)}),
    'double_duct_bundle_single_duct_top': dict(asms={'a1': dict(n_duct=2, unrodded=[('upper', 0.7, 1.0, 'simple')])}),
    'double_duct_bundle_single_duct_bottom': dict(asms={'a1': dict(n_duct=2, unrodded=[('lower', 0.0, 0.3, '6node')])}),
}


def _table_case(name):
    import os
    import shutil
    import sys
    import tempfile
    sys.path.insert(0, os.environ.get('DASSH_REPO', '/repo'))
    from pvc import geninput as Gn
    wd = tempfile.mkdtemp(prefix='c15_')
    try:
        import dassh
        p = Gn.write_problem(wd, gap_model='none', **RUNTIME[name])
        inp, r = Gn.build(p, sweep=True)
        a = r.assemblies[0]
        t = dassh.table.DuctTempTable()
        t.make(r)
        text = t._table if hasattr(t, '_table') else str(t)
        rows = [ln.split() for ln in text.splitlines() if ln.strip() and ln.split()[0].isdigit()]
        n_last = a.region[-1].temp['duct_mw'].shape[0]
        peaks = a._peak['duct']
        bad = []
        if len(rows) != n_last:
            bad.append(f'{len(rows)} rows for {n_last} ducts in the last region')
        for d, row in enumerate(rows):
            faces = [float(x) for x in row[-8:-2]]
            pk, ht = float(row[-2]), float(row[-1])
            want = peaks[len(peaks) - n_last + d]
            if abs(pk - float(want[0])) > 0.006 or abs(ht - float(want[1])) > 0.006:
                bad.append(f'row {d + 1}: prints peak {pk} K at {ht} m, the listed duct peaked at {float(want[0]):.2f} K, {float(want[1]):.2f} m')
            if pk < max(faces) - 0.011:
                bad.append(f'row {d + 1}: printed peak {pk} K is below the listed outlet face temperature {max(faces)} K')
        return name, not bad, '; '.join(bad) if bad else f'{len(rows)} row(s) consistent'
    except BaseException as e:
        return name, False, f'{type(e).__name__}: {e}'
    finally:
        shutil.rmtree(wd, ignore_errors=True)


def extra_checks(tier, seed):
    import multiprocessing as mp
    import time
    t0 = time.time()
    with mp.get_context('fork').Pool(4) as pool:
        out = pool.map(_table_case, list(RUNTIME), chunksize=1)
    secs = time.time() - t0
    results = []
    for name, ok, d in out:
        results.append(dict(name=f'runtime.duct_table_peak_is_of_listed_duct[{name}]', status='proved' if ok else 'refuted',
                            backend='bounded:run-time contract', seconds=secs / len(out), detail=d, sample=True,
                            witness=dict(values=dict(case=name)),
                            replay=dict(reproduced=not ok, point=dict(values=dict(case=name)), native=d)))
    return [dict(name='duct temperature table (run-time contracts)', results=results,
                 notes=['BOUNDED: runtime.duct_table_peak_is_of_listed_duct[*] on generated single-assembly problems'])]


def replay(doc):
    w = (doc.get('witness') or {}).get('values') or {}
    if w.get('case') not in RUNTIME:
        print('replay: symbolic obligation - re-run ./check C15')
        return 0
    name, ok, d = _table_case(w['case'])
    print('replay:', name, d)
    print('not reproduced' if ok else 'REPRODUCED')
    return 0 if ok else 1
