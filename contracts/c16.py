"""C16 - runs are repeatable: set-up never mutates the input.

Frame contract  readonly(dassh_input.data)  on Reactor.__init__ and on everything it
(transitively) hands input-derived references to, decided by the frame analyser
(pvc.frames) over the AST of the real sources; every finding is replayed by a
run-time contract on the real constructors (deep comparison of DASSH_Input.data
before / after, second construction, serial = parallel).
"""
from __future__ import annotations
import copy
import json
import os
import shutil
import subprocess
import sys
import tempfile
import time
import numpy as np
from .common import patched as common_patched

MODULES = ['dassh.reactor', 'dassh.region_rodded', 'dassh.material', 'dassh.__main__', 'dassh.read_input']
PROPERTY = 'C16'
FUNCTIONS = ['dassh.reactor:Reactor.__init__ and every function reachable from it with an input-derived argument '
             '(frame contract readonly(dassh_input.data); list in the evidence)',
             'dassh.__main__:_run_dassh', 'dassh.__main__:run_dassh', 'dassh.orificing:Orificing._get_power']
ASSUMPTIONS = ['frame analyser: flow-insensitive within a function, field-sensitive on constant keys, receivers of unknown '
               'type are resolved to every dassh method of that name (over-approximation); calls into numpy / the standard '
               'library with input-derived arguments are assumed not to mutate them (listed in the evidence)',
               'only DASSH_Input.data is covered (material objects held by the input are refreshed before every use: C06)']
NOT_DECIDED = ['bitwise identity of two executions beyond the listed generated problems (non-determinism of NumPy / the OS)',
               'what the external power code (VARPOW) writes into the working directory']
BOUNDED = ['run-time frame contract: deep comparison of DASSH_Input.data before/after Reactor(...) + sweep, second '
           'construction and bitwise-equal temperatures, on the generated problems listed in the evidence',
           'serial = parallel: dassh.__main__ run on a two-time-point problem with parallel on/off (thorough tier)']

ENTRY = [('dassh.reactor:Reactor.__init__', ['dassh_input'], 'shell'),
         ('dassh.__main__:_run_dassh', ['dassh_inp'], 'shell'),
         ('dassh.__main__:run_dassh', ['dassh_input'], 'shell'),
         ('dassh.orificing:Orificing._get_power', [], 'shell'),
         ('dassh.hotspot:_setup_postprocess', ['dassh_inp'], 'shell')]


DUMP_FILE = {'coolant_int': 'temp_coolant_int.csv', 'coolant_byp': 'temp_coolant_byp.csv',
             'duct_mw': 'temp_duct_mw.csv', 'coolant_gap': 'temp_coolant_gap.csv',
             'coolant_gap_fine': 'temp_coolant_gap_fine.csv', 'pin': 'temp_pin.csv',
             'average': 'temp_average.csv', 'maximum': 'temp_maximum.csv', 'pressure_drop': 'pressure_drop.csv'}
DUMP_FLAGS = ['coolant', 'duct', 'gap', 'gap_fine', 'pins', 'average', 'maximum', 'pressure_drop']


def dump_files_fresh(S, cfg):
    """ghost file system around the real Reactor._data_setup / _data_open: whatever files a previous execution
    left in the output directory (one unconstrained boolean per file), every file the sweep then opens in APPEND
    mode is absent when set-up returns - so an execution's dump files hold that execution's rows only - and
    nothing else in the directory is removed; the files opened are exactly those set up."""
    from dassh import reactor
    flags = cfg['flags']
    root = '/ghost/out'

    class GhostFS:
        def __init__(self):
            self.initial, self.removed, self.opened = {}, [], []

        def exists(self, p):
            if p in self.removed:
                return False
            if p not in self.initial:
                self.initial[p] = S.int('exists:' + os.path.basename(p), 0, 1) == 1
            return self.initial[p]

        def remove(self, p):
            if not self.exists(p):
                raise FileNotFoundError(p)
            self.removed.append(p)

        def open(self, p, mode='r'):
            self.opened.append((p, mode))
            return None
    fs = GhostFS()

    class _Path:
        join = staticmethod(os.path.join)
        exists = staticmethod(fs.exists)

    class _Os:
        path = _Path
        remove = staticmethod(fs.remove)

    class Rodded:
        n_bypass = 1 if cfg.get('bypass') else 0

        class subchannel:
            n_sc = {'coolant': {'total': 42}, 'duct': {'total': 18}, 'bypass': {'total': 18}}

    class Asm:
        has_rodded = True
        rodded = Rodded

        def setup_data_io(self, cols):
            self.cols = dict(cols)
    r = reactor.Reactor.__new__(reactor.Reactor)
    r.path = root
    r.assemblies = [Asm(), Asm()]
    r.log = lambda *a, **k: None
    r._options = {'dump': dict({k: (k in flags) for k in DUMP_FLAGS}, any=bool(flags), interval=None)}
    with common_patched((reactor, 'os', _Os), (reactor, 'open', fs.open)):
        r._data_setup()
        r._data_open()
    want = []
    if 'coolant' in flags:
        want.append('coolant_int')
        if cfg.get('bypass'):
            want.append('coolant_byp')
    want += [{'duct': 'duct_mw', 'gap': 'coolant_gap', 'gap_fine': 'coolant_gap_fine', 'pins': 'pin'}.get(k, k)
             for k in DUMP_FLAGS[1:] if k in flags]
    names = r._options['dump'].get('names', [])
    S.holds('dump.names', sorted(names) == sorted(want))
    paths = r._options['dump'].get('paths', {})
    for nm in want:
        p = os.path.join(root, DUMP_FILE[nm])
        S.holds(f'dump.path[{nm}]', paths.get(nm) == p)
        S.holds(f'dump.absent_before_append[{nm}]', not fs.exists(p))
        S.holds(f'dump.opened_for_append[{nm}]', (p, 'ab') in fs.opened)
    S.holds('dump.opens_only_what_was_set_up', sorted(p for p, _ in fs.opened) == sorted(paths.values()))
    S.holds('dump.removes_only_dump_files', set(fs.removed) <= {os.path.join(root, DUMP_FILE[nm]) for nm in want})
    if want:
        S.holds('canary.dump_nothing_removed', len(fs.removed) == 0, canary=True)


dump_files_fresh.cname = 'Reactor._data_setup+_data_open/ghost-fs'
dump_files_fresh.run_kw = dict(check_div=False, max_paths=600)


def tracker_reference(S, cfg):
    """RoddedRegion._update_coolant_int_params + material._MatTracker: the reference state of the property tracker is
    the coolant state at which the correlated parameters were last calculated - after a forced recalculation
    (use_mat_tracker=False) it is the present state, whatever state the (shared, cloned) material had when the
    region was built; with the tracker on, the parameters are recalculated exactly when some property moved by
    more than the tolerance from that reference, and the reference then moves with them."""
    from dassh import region_rodded, material
    forced = cfg['forced']
    tol = S.pos('tol', 0.01, 0.2)
    props = ('viscosity', 'density', 'heat_capacity', 'thermal_conductivity')

    class Mat:
        pass
    stale = Mat()
    for k in props:
        setattr(stale, k, S.pos('stale_' + k, 0.5, 2.0))
    new = {k: S.pos('new_' + k, 0.5, 2.0) for k in props}

    class Stop(Exception):
        pass

    class Region:
        def __init__(self):
            self.coolant = Mat()
            self._coolant_tracker = material._MatTracker(stale, tol)

        def _update_coolant(self, temp):
            for k in props:
                setattr(self.coolant, k, new[k])

        @property
        def int_flow_rate(self):          # first thing the recalculation reads
            raise Stop()
    r = Region()
    recalculated = False
    try:
        region_rodded.RoddedRegion._update_coolant_int_params(r, S.pos('T', 600.0, 900.0), use_mat_tracker=not forced)
    except Stop:
        recalculated = True
    ref = r._coolant_tracker._dat0
    moved = False
    if not forced:
        for k in props:
            if abs(new[k] - getattr(stale, k)) / getattr(stale, k) > tol:
                moved = True
    if forced:
        S.holds('tracker.forced_recalculates', recalculated)
    else:
        S.holds('tracker.recalculates_iff_moved_beyond_tol', recalculated == moved)
    if recalculated:
        for i, k in enumerate(props):
            S.eq(f'tracker.reference_is_state_of_last_calculation[{k}]', ref[i], new[k])
        S.holds('tracker.flag_cleared', r._coolant_tracker.recalculate_params is False)
    else:
        for i, k in enumerate(props):
            S.eq(f'tracker.reference_kept[{k}]', ref[i], getattr(stale, k))
    S.eq('canary.tracker_reference_is_construction_state', ref[0], stale.viscosity, canary=True)


tracker_reference.cname = 'RoddedRegion._update_coolant_int_params/tracker'
tracker_reference.run_kw = dict(check_div=False, max_paths=400)


def schedule(S, cfg):
    """real DASSH_Input.check_parallel followed by the real __main__.run_dassh with a ghost process pool and a
    recording worker: whatever the user asked for (parallel on / off, any worker count), every time point i is
    handed to the SAME worker function exactly once with the same input object, the same arguments, its own index
    and its own directory <path>/timestep_<i+1> (none for a single time point); a pool is used only for several time
    points and more than one worker, gets the requested number of workers, and every asynchronous result is awaited
    (a failing worker is not lost). Together with the frame contract readonly(input) and the fresh-file contract
    this makes the outputs of a time point independent of the schedule."""
    import multiprocessing
    import dassh
    from dassh import __main__ as dm
    from dassh import read_input
    n = cfg['timepoints']
    want_parallel = cfg['parallel']
    ncpu = cfg['n_cpu']
    if ncpu == 'sym':
        ncpu = S.int('n_cpu', 1, 64)

    class Inp:
        pass
    inp = Inp()
    inp.timepoints = n
    inp.path = '/ghost/case'
    inp.data = {'Setup': {'parallel': want_parallel, 'n_cpu': ncpu}}
    inp.log = lambda *a, **k: None
    read_input.DASSH_Input.check_parallel(inp)
    eff_parallel = inp.data['Setup']['parallel']
    calls, pools = [], []

    def worker(dassh_inp, args, timestep, wdir, link=None):
        calls.append(('serial', dassh_inp, args, timestep, wdir, link))

    class Handle:
        def __init__(self):
            self.got = False

        def get(self):
            self.got = True

    class Pool:
        def __init__(self, processes=None):
            self.processes, self.handles, self.closed = processes, [], False
            pools.append(self)

        def apply_async(self, fn, args=(), kwds=None):
            calls.append(('async', fn) + tuple(args))
            self.handles.append(Handle())
            return self.handles[-1]

        def terminate(self):
            self.closed = True

        def close(self):
            self.closed = True

        def join(self):
            pass
    rx_args = {'no_power_calc': True, 'verbose': False, 'save_reactor': False}
    with common_patched((dm, '_run_dassh', worker), (multiprocessing, 'Pool', Pool),
                        (multiprocessing, 'cpu_count', lambda: 16)):
        dm.run_dassh(inp, rx_args)
    # the request is honoured only where it makes sense
    if want_parallel and n > 1:
        S.holds('schedule.parallel_iff_more_than_one_worker', eff_parallel == (not (ncpu == 1)))
    else:
        S.holds('schedule.serial', eff_parallel is False)
    S.holds('schedule.one_call_per_time_point', len(calls) == n)
    seen_dirs = []
    for i in range(n):
        mine = [c for c in calls if (c[4] if c[0] == 'async' else c[3]) == i]
        S.holds(f'schedule.time_point_once[{i}]', len(mine) == 1)
        if len(mine) != 1:
            continue
        c = mine[0]
        if c[0] == 'async':
            fn, a_inp, a_args, a_i, a_dir = c[1], c[2], c[3], c[4], c[5]
            S.holds(f'schedule.same_worker_function[{i}]', fn is worker)
        else:
            a_inp, a_args, a_i, a_dir = c[1], c[2], c[3], c[4]
            S.holds(f'schedule.no_link[{i}]', c[5] is None)
        S.holds(f'schedule.same_input_object[{i}]', a_inp is inp)
        S.holds(f'schedule.same_arguments[{i}]', a_args is rx_args and a_args == {'no_power_calc': True, 'verbose': False,
                                                                                 'save_reactor': False})
        S.holds(f'schedule.own_directory[{i}]', a_dir == (os.path.join(inp.path, f'timestep_{i + 1}') if n > 1 else None))
        seen_dirs.append(a_dir)
        S.holds(f'schedule.mode[{i}]', (c[0] == 'async') == bool(eff_parallel))
    S.holds('schedule.directories_distinct', len(set(seen_dirs)) == len(seen_dirs))
    if eff_parallel:
        S.holds('schedule.one_pool', len(pools) == 1)
        if len(pools) == 1:
            if cfg['n_cpu'] is None:
                S.holds('schedule.pool_size_default', pools[0].processes == min(16, n))
            else:
                S.eq('schedule.pool_size_as_requested', pools[0].processes, ncpu)
            S.holds('schedule.every_result_awaited', all(h.got for h in pools[0].handles) and len(pools[0].handles) == n)
            S.holds('schedule.pool_released', pools[0].closed)
    else:
        S.holds('schedule.no_pool', not pools)
    S.holds('canary.schedule_never_parallel', not eff_parallel or n == 1, canary=bool(want_parallel and n > 1 and cfg['n_cpu'] != 1))


schedule.cname = '__main__.run_dassh/schedule'
schedule.run_kw = dict(check_div=False)


def working_directory(S, cfg):
    """the real Reactor.__init__ with every set-up stage replaced by a recorder: each stage (power set-up, which writes
    and reads the VARPOW files, first of all) already sees the working directory that was requested for this time point,
    so two time points never share intermediate files; without a request it is the input's directory."""
    from dassh import reactor
    import ast
    import inspect
    import textwrap
    src = textwrap.dedent(inspect.getsource(reactor.Reactor.__init__))
    stages = []
    for n in ast.walk(ast.parse(src)):
        if isinstance(n, ast.Call) and isinstance(n.func, ast.Attribute) and isinstance(n.func.value, ast.Name) \
                and n.func.value.id == 'self' and n.func.attr not in stages:
            stages.append(n.func.attr)
    seen = []
    made = []

    def rec(name):
        def f(self, *a, **k):
            seen.append((name, getattr(self, 'path', '<unset>')))
            if name == '_setup_zpts':
                return np.array([0.0, 1.0]), np.array([1.0])
            if name == '_calculate_total_fr':
                return 1.0
            if name == '_setup_asm_bc':
                return None, None
            return None
        return f
    Sub = type('RecReactor', (reactor.Reactor,), {m: rec(m) for m in stages if m not in ('log',)})
    Sub.log = lambda self, *a, **k: None
    Sub.total_power = 1.0
    Sub.req_dz = 0.01

    class Inp:
        path = '/ghost/input_dir'
        materials = {}
        data = {'Setup': {'Units': {}}, 'Core': {'coolant_inlet_temp': 600.0, 'assembly_pitch': 0.1, 'gap_model': None}}

    class _Os:
        path = os.path

        @staticmethod
        def makedirs(p, exist_ok=False):
            made.append(p)
    requested = cfg.get('path')
    with common_patched((reactor, 'os', _Os)):
        try:
            r = Sub(Inp(), path=requested, calc_power=False, timestep=cfg.get('timestep', 0))
        except Exception as e:                 # a later, unrecorded step of __init__ (presweep of real assemblies ...)
            r = None
            S.note(f'__init__ stopped after the recorded stages with {type(e).__name__}: {e}')
    want = requested if requested is not None else Inp.path
    S.holds('workdir.stages_recorded', len(seen) >= 8 and any(nm == '_setup_power' for nm, _ in seen))
    for nm, p in seen:
        S.holds(f'workdir.stage_sees_requested_directory[{nm}]', p == want)
    S.holds('workdir.directory_created', made == ([requested] if requested is not None else []))
    S.holds('canary.workdir_is_input_directory', all(p == Inp.path for _, p in seen), canary=requested is not None)


working_directory.cname = 'Reactor.__init__/working-directory'
working_directory.run_kw = dict(check_div=False)


def configs(tier):
    out = [(dump_files_fresh, dict(flags=[k], bypass=True)) for k in DUMP_FLAGS]
    out.append((dump_files_fresh, dict(flags=list(DUMP_FLAGS), bypass=True)))
    out.append((dump_files_fresh, dict(flags=['coolant', 'pressure_drop'], bypass=False)))
    out += [(tracker_reference, dict(forced=True)), (tracker_reference, dict(forced=False))]
    out += [(working_directory, dict(path='/ghost/input_dir/timestep_2', timestep=1)), (working_directory, dict(path=None))]
    for n in (1, 2, 3, 4):
        out += [(schedule, dict(timepoints=n, parallel=False, n_cpu=None)),
                (schedule, dict(timepoints=n, parallel=True, n_cpu=None)),
                (schedule, dict(timepoints=n, parallel=True, n_cpu='sym'))]
    return out


def _repo():
    return os.environ.get('DASSH_REPO', '/repo')


def _sample_inputs():
    """parsed sample inputs for the analyser's run-time type probe"""
    sys.path.insert(0, _repo())
    from pvc import geninput as G
    import logging
    import dassh
    logging.getLogger('dassh').setLevel(logging.CRITICAL)
    out = []
    wd = tempfile.mkdtemp(prefix='c16s_')
    try:
        for v in ('single', 'dump_all', 'pin_model', 'planes_tables'):
            try:
                out.append(dassh.DASSH_Input(G.write_problem(os.path.join(wd, v), **{
                    k: x for k, x in VARIANTS[v].items() if not k.startswith('_')})))
            except BaseException:
                pass
    finally:
        shutil.rmtree(wd, ignore_errors=True)
    return out


def static_frames():
    from pvc import frames
    an = frames.Analyzer(_repo(), samples=_sample_inputs())
    findings = []
    for q, params, level in ENTRY:
        if q not in an.reg.funcs:
            findings.append(('missing', q))
            continue
        if q.endswith('Orificing._get_power'):
            an.escapes.setdefault('Orificing', {})['self._base_input'] = 'shell'
        an.readonly(q, params, level=level)
    visited = sorted({k[0] for k in an.summaries})
    return an, visited


VARIANTS = {
    'single': dict(),
    # temperature-dependent coolant + parameter-update tolerance: the tracker state must not depend on the history
    # of the input's shared material object
    # user power that is renormalised / scaled (in place, on the arrays the CSV reader returned)
    'power_scaled': dict(scaling=0.9),
    'power_normalised': dict(total_power=6543.21, scaling=1.1),
    'tracker_sodium': dict(coolant='sodium', setup_extra='    param_update_tol = 0.02\n'),
    'tracker_sodium_unrodded': dict(coolant='sodium', setup_extra='    param_update_tol = 0.02\n',
                                    asms={'a1': dict(unrodded=[('lower', 0.0, 0.3, 'simple'), ('upper', 0.8, 1.0, '6node')])}),
    'dump_all': dict(setup_extra='    [[Dump]]\n        all = True\n'),
    'fuel_model': dict(asms={'a1': dict(pin_model='fuel')}),
    'pin_model': dict(asms={'a1': dict(pin_model='pin')}),
    'unrodded': dict(asms={'a1': dict(unrodded=[('lower', 0.0, 0.3, 'simple'), ('upper', 0.8, 1.0, '6node')])}),
    'double_duct': dict(asms={'a1': dict(n_duct=2)}),
    'planes_tables': dict(setup_extra='    axial_plane = 0.25, 0.7\n    axial_mesh_size = 0.005\n'),
    # a table request just above the last dumped plane (the dumped heights are accumulated sums: 2.2999999999999914 for a 2.3 m core)
    'asm_tables': dict(length=2.3, setup_extra='    axial_mesh_size = 0.01\n    [[Dump]]\n        coolant = True\n'
                       '    [[AssemblyTables]]\n        [[[T1]]]\n            type = coolant_subchannel\n'
                       '            assemblies = 1\n            axial_positions = 0.5, 2.3\n',
                       _postprocess=True),
}


def _deep_diff(a, b, path=''):
    out = []
    if isinstance(a, dict) and isinstance(b, dict):
        for k in sorted(set(a) | set(b), key=str):
            if k not in a or k not in b:
                out.append(f'{path}/{k}: key {"added" if k not in a else "removed"}')
            else:
                out += _deep_diff(a[k], b[k], f'{path}/{k}')
    elif isinstance(a, (list, tuple)) and isinstance(b, (list, tuple)):
        if len(a) != len(b):
            out.append(f'{path}: length {len(a)} -> {len(b)}')
        else:
            for i, (x, y) in enumerate(zip(a, b)):
                out += _deep_diff(x, y, f'{path}[{i}]')
    else:
        try:
            same = (a is b) or bool(np.all(a == b)) or (a != a and b != b)
        except Exception:
            same = False
        if not same or type(a) is not type(b):
            out.append(f'{path}: {str(a)[:40]!r} -> {str(b)[:40]!r}')
    return out


def _model_state(r):
    """what 'an identical model and identical results' is compared on: mesh and step requirement, per assembly the
    flow rate, estimated outlet temperature, power, temperatures, pressure drop and peaks; the gap temperatures"""
    out = {'z': np.array(r.z), 'req_dz': np.array([r.req_dz]), 'total_power': np.array([r.total_power]),
           'flow_rate': np.array([r.flow_rate])}
    for i, a in enumerate(r.assemblies):
        out[f'asm{i}.flow_rate'] = np.array([a.flow_rate])
        out[f'asm{i}.total_power'] = np.array([a.total_power])
        if hasattr(a, '_estimated_T_out'):
            out[f'asm{i}.estimated_T_out'] = np.array([a._estimated_T_out])
        out[f'asm{i}.coolant'] = np.array(a.temp_coolant, dtype=float)
        out[f'asm{i}.duct_mw'] = np.array(a.temp_duct_mw, dtype=float)
        out[f'asm{i}.pressure_drop'] = np.array([a.pressure_drop], dtype=float)
        out[f'asm{i}.peak_coolant'] = np.array(a._peak['cool'], dtype=float)
        for j, reg in enumerate(a.region):
            for k in ('ff', 'fs'):
                v = getattr(reg, 'coolant_int_params', {}).get(k) if hasattr(reg, 'coolant_int_params') else None
                if v is not None:
                    out[f'asm{i}.region{j}.{k}'] = np.ravel(np.array(v, dtype=float))
    if getattr(r, 'core', None) is not None and hasattr(r.core, 'coolant_gap_temp'):
        out['gap'] = np.array(r.core.coolant_gap_temp, dtype=float)
    return out


def _state_diff(a, b):
    bad = []
    for k in sorted(set(a) | set(b)):
        if k not in a or k not in b or a[k].shape != b[k].shape or not np.array_equal(a[k], b[k]):
            d = ''
            if k in a and k in b and a[k].shape == b[k].shape:
                d = ' (max |diff| %.3e)' % float(np.max(np.abs(a[k] - b[k])))
            bad.append(k + d)
    return bad


def dynamic_variant(name):
    """run-time frame contract on the real constructors for one generated problem"""
    sys.path.insert(0, _repo())
    from pvc import geninput as G
    import logging
    import dassh
    logging.getLogger('dassh').setLevel(logging.CRITICAL)
    wd = tempfile.mkdtemp(prefix='c16_')
    res = {}
    try:
        kw = {k: v for k, v in VARIANTS[name].items() if not k.startswith('_')}
        post = VARIANTS[name].get('_postprocess', False)
        p = G.write_problem(wd, **kw)
        inp = dassh.DASSH_Input(p)
        snap = copy.deepcopy(inp.data)
        r1 = dassh.Reactor(inp, path=wd, write_output=False)
        diff = _deep_diff(snap, inp.data)
        res['readonly_after_construction'] = (not diff, '; '.join(diff[:6]))
        r1.temperature_sweep()
        diff = _deep_diff(snap, inp.data)
        res['readonly_after_sweep'] = (not diff, '; '.join(diff[:6]))
        if post:
            r1.postprocess()
            diff = _deep_diff(snap, inp.data)
            res['readonly_after_postprocess'] = (not diff, '; '.join(diff[:6]))
        t1 = [a.temp_coolant.copy() for a in r1.assemblies]
        s1 = _model_state(r1)
        try:
            r2 = dassh.Reactor(inp, path=wd, write_output=False)
            r2.temperature_sweep()
            if post:
                r2.postprocess()
            bad = _state_diff(s1, _model_state(r2))
            res['second_construction_identical'] = (not bad, '' if not bad else 'differs in: ' + ', '.join(bad[:8]))
        except BaseException as e:
            res['second_construction_identical'] = (False, f'second Reactor(inp) raised {type(e).__name__}: {e}')
        inp_b = dassh.DASSH_Input(p)
        r3 = dassh.Reactor(inp_b, path=wd, write_output=False)
        r3.temperature_sweep()
        if post:
            r3.postprocess()
        bad = _state_diff(s1, _model_state(r3))
        res['two_executions_bitwise_identical'] = (not bad, '' if not bad else 'differs in: ' + ', '.join(bad[:8]))
    except BaseException as e:
        res['runs'] = (False, f'{type(e).__name__}: {e}')
    finally:
        shutil.rmtree(wd, ignore_errors=True)
    return name, res


def _dyn_job(name):
    try:
        return dynamic_variant(name)
    except BaseException as e:
        return name, {'runs': (False, f'{type(e).__name__}: {e}')}


def serial_parallel():
    """dassh.__main__ on a two-time-point problem, parallel off / on: same temperatures"""
    from pvc import geninput as G
    wd = tempfile.mkdtemp(prefix='c16sp_')
    try:
        outs = {}
        for mode in ('False', 'True'):
            d = os.path.join(wd, mode)
            G.write_problem(d, timepoints=2, setup_extra=f'    parallel = {mode}\n    n_cpu = 2\n'
                            '    [[Dump]]\n        coolant = True\n')
            env = dict(os.environ, PYTHONPATH=_repo())
            pr = subprocess.run(['/venv/bin/python', '-m', 'dassh', os.path.join(d, 'input.txt')], cwd=d, env=env,
                                capture_output=True, text=True, timeout=600)
            if pr.returncode != 0:
                return False, f'dassh main failed (parallel={mode}): {pr.stderr[-300:]}'
            vals = {}
            for t in ('timestep_1', 'timestep_2'):
                f = os.path.join(d, t, 'temp_coolant_int.csv')
                if not os.path.exists(f):
                    return False, f'missing {f}'
                vals[t] = open(f).read()
            outs[mode] = vals
        same = outs['False'] == outs['True']
        return same, '' if same else 'coolant temperature dumps differ between serial and parallel execution'
    finally:
        shutil.rmtree(wd, ignore_errors=True)


_MUT = {'append', 'extend', 'insert', 'remove', 'pop', 'clear', 'update', 'setdefault', 'add', 'discard', 'popitem',
        'sort', 'reverse'}


def module_state():
    """frame condition on process-level state: no dassh function keeps results between calls - no memoisation
    decorator, no `global` statement, no store into / mutator call on a module-level container. (State that outlives
    a Reactor is what makes a second construction, or the next time point of a serial run, differ from a fresh one.)"""
    import ast
    import glob
    root = os.path.join(_repo(), 'dassh')
    out = {}
    for f in sorted(glob.glob(os.path.join(root, '**', '*.py'), recursive=True)):
        mod = os.path.relpath(f, _repo())[:-3].replace(os.sep, '.')
        finds = []
        try:
            tree = ast.parse(open(f).read())
        except SyntaxError as e:
            out[mod] = [f'cannot parse: {e}']
            continue
        modlevel = set()
        for n in tree.body:
            tgs = n.targets if isinstance(n, ast.Assign) else ([n.target] if isinstance(n, ast.AnnAssign) else [])
            for tg in tgs:
                v = n.value
                if isinstance(tg, ast.Name) and v is not None and (
                        isinstance(v, (ast.Dict, ast.List, ast.Set, ast.ListComp, ast.DictComp, ast.SetComp))
                        or (isinstance(v, ast.Call) and getattr(v.func, 'id', getattr(v.func, 'attr', '')) in
                            ('dict', 'list', 'set', 'defaultdict', 'OrderedDict', 'deque', 'Counter'))):
                    modlevel.add(tg.id)
        for fn in ast.walk(tree):
            if not isinstance(fn, (ast.FunctionDef, ast.AsyncFunctionDef)):
                continue
            local = {a.arg for a in fn.args.args + fn.args.kwonlyargs}
            alias = {}          # local name -> module-level container it was bound to (`x = _TABLE`, `x = _TABLE[k]`)
            for n in ast.walk(fn):
                if isinstance(n, ast.Assign):
                    local |= {t.id for t in n.targets if isinstance(t, ast.Name)}
                    b = n.value
                    while isinstance(b, (ast.Subscript, ast.Attribute)):
                        b = b.value
                    if isinstance(n.value, (ast.Name, ast.Subscript)) and isinstance(b, ast.Name) and b.id in modlevel:
                        for t in n.targets:
                            if isinstance(t, ast.Name):
                                alias[t.id] = b.id
            for d in fn.decorator_list:
                txt = ast.unparse(d)
                if 'cache' in txt.lower() or 'memo' in txt.lower():
                    finds.append(f'{fn.name} (line {fn.lineno}): memoising decorator @{txt}')
            for n in ast.walk(fn):
                if isinstance(n, ast.Global):
                    finds.append(f'{fn.name} (line {n.lineno}): global {", ".join(n.names)}')
                tg = n.targets[0] if isinstance(n, ast.Assign) else (n.target if isinstance(n, ast.AugAssign) else None)
                recv = None
                if tg is not None and isinstance(tg, (ast.Subscript, ast.Attribute)):
                    recv, what = tg, 'store into'
                elif isinstance(n, ast.Call) and isinstance(n.func, ast.Attribute) and n.func.attr in _MUT:
                    recv, what = n.func.value, f'.{n.func.attr}() on'
                if recv is not None:
                    b = recv
                    while isinstance(b, (ast.Subscript, ast.Attribute)):
                        b = b.value
                    if isinstance(b, ast.Name) and b.id in modlevel and b.id not in local:
                        finds.append(f'{fn.name} (line {n.lineno}): {what} module-level container {b.id}')
                    elif isinstance(b, ast.Name) and b.id in alias:
                        finds.append(f'{fn.name} (line {n.lineno}): {what} {b.id}, an alias of module-level container '
                                     f'{alias[b.id]}')
        out[mod] = finds
    return out


def extra_checks(tier, seed):
    import multiprocessing as mp
    t0 = time.time()
    an, visited = static_frames()
    results = []
    for mod, finds in module_state().items():
        results.append(dict(name=f'frame.no_process_level_state[{mod}]', status='refuted' if finds else 'proved',
                            backend='frame-analyser', seconds=0.0, detail='; '.join(finds)[:600],
                            witness=dict(values=dict(module=mod)) if finds else None,
                            replay=dict(reproduced=False, point=dict(values=dict(module=mod)), native='; '.join(finds)[:600])
                            if finds else None))
    by_func = {}
    for f in an.findings.values():
        by_func.setdefault(f.func, []).append(f)
    with mp.get_context('fork').Pool(8) as pool:
        dyn = dict(pool.map(_dyn_job, list(VARIANTS)))
    dyn_text = {v: '; '.join(f'{k}: {d}' for k, (ok, d) in r.items() if not ok) for v, r in dyn.items()}
    mutated = ' | '.join(f'{v}: {t}' for v, t in dyn_text.items() if t)
    for q in visited:
        fs = by_func.get(q, [])
        if not fs:
            results.append(dict(name=f'frame.readonly[{q}]', status='proved', backend='frame-analyser', seconds=0.0,
                                detail='', sample=q.endswith('_setup_axial_region_bnds')))
        else:
            for f in fs:
                # replay: does a run-time frame contract on the real constructors show the store?
                key = f.text.split('=')[0].split('[')[-1].strip("'] ")
                rep = bool(mutated)
                results.append(dict(
                    name=f'frame.readonly[{q}]:{f.text}', status='refuted', backend='frame-analyser', seconds=0.0,
                    detail=f'{f}  ||  run-time contract: {mutated[:400]}', witness=dict(values=dict(finding=repr(f))),
                    replay=dict(reproduced=rep, point=dict(values=dict(finding=repr(f))), native=mutated[:600])))
    secs = time.time() - t0
    for r in results:
        r['seconds'] = secs / max(1, len(results))
    # bounded run-time contracts as obligations of their own
    for v, r in dyn.items():
        for k, (ok, d) in r.items():
            results.append(dict(name=f'runtime.{k}[{v}]', status='proved' if ok else 'refuted',
                                backend='bounded:run-time contract', seconds=0.0, detail=d,
                                witness=dict(values=dict(variant=v)), sample=(v == 'pin_model'),
                                replay=dict(reproduced=not ok, point=dict(values=dict(variant=v)), native=d)))
    if tier == 'thorough':
        t1 = time.time()
        try:
            ok, d = serial_parallel()
        except Exception as e:
            ok, d = False, f'{type(e).__name__}: {e}'
        results.append(dict(name='runtime.serial_equals_parallel', status='proved' if ok else 'refuted',
                            backend='bounded:run-time contract', seconds=time.time() - t1, detail=d,
                            witness=dict(values=dict(variant='parallel')),
                            replay=dict(reproduced=not ok, point=dict(values=dict(variant='parallel')), native=d)))
    notes = ['frame analyser visited %d functions; calls it could not resolve with an input-derived argument (assumed '
             'non-mutating): %s' % (len(visited), '; '.join(sorted(an.unresolved))[:900]),
             'BOUNDED: runtime.* obligations are run-time contracts on the generated problems ' + ', '.join(VARIANTS)]
    return [dict(name='frame analysis + run-time frame contracts', results=results, notes=notes)]


def replay(doc):
    w = (doc.get('witness') or {}).get('values') or {}
    v = w.get('variant')
    names = [v] if v in VARIANTS else list(VARIANTS)
    bad = 0
    for nm in names:
        _, r = dynamic_variant(nm)
        for k, (ok, d) in r.items():
            if not ok:
                bad += 1
                print(f'replay: {nm}: {k}: {d}')
    print('REPRODUCED' if bad else 'not reproduced')
    return 1 if bad else 0
