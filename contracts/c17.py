"""C17 - results do not depend on the unit system of the input.

Functions under contract: dassh.utils get_*_conversion and the scalar converters,
parse_mfr_units; dassh.read_input convert_temperature, convert_length,
convert_mass_flow_rate, DASSH_Input.convert_units.

Oracle: a dimension table written from the property statement and the input
schema (input_template.txt): every numeric leaf of a schema-shaped input is a
distinct atom; after conversion each dimensional leaf must equal ONE application
of the scalar converter to its original value, every other leaf must be unchanged.
"""
from __future__ import annotations
import copy
import re
import numpy as np
from . import common
from pvc import core
from pvc.core import Sym

MODULES = ['dassh.read_input', 'dassh.utils', 'dassh.assembly'] + common.RR_MODULES
PROPERTY = 'C17'
FUNCTIONS = ['dassh.read_input:DASSH_Input.convert_assn_deltaT_to_outletT', 'dassh.utils:get_length_conversion', 'dassh.utils:get_temperature_conversion',
             'dassh.utils:get_mass_conversion', 'dassh.utils:get_time_conversion', 'dassh.utils:parse_mfr_units',
             'dassh.utils:_*_to_* scalar converters', 'dassh.read_input:convert_temperature',
             'dassh.read_input:convert_length', 'dassh.read_input:convert_mass_flow_rate',
             'dassh.read_input:DASSH_Input.convert_units',
             'dassh.read_input:DASSH_Assignment.parse_assignment_section (positions expanded from one line own their boundary-condition dictionaries)']
ASSUMPTIONS = ['the dimension table is ours (from the property statement and input_template.txt): lengths = every input '
               'measured in length units incl. surface roughness `epsilon` (it is divided by a hydraulic diameter in '
               'metres); temperature differences carry no offset; powers, pressures and fractions have no unit option',
               'the pound is the code\'s 0.453592 kg (the exact definition 0.45359237 differs by 8e-7 relative; not judged)']
NOT_DECIDED = ['output-side conversions in table.py', 'that everything downstream reads only the converted data']
BOUNDED = []

LEN = {'cm': (1, 100), 'mm': (1, 1000), 'in': (254, 10000), 'ft': (3048, 10000)}


def roundtrip(S, cfg):
    from dassh import utils
    x = S.real('x', -500.0, 1500.0)
    for u in ('cm', 'mm', 'in', 'ft'):
        to = utils.get_length_conversion(u, 'm')
        back = utils.get_length_conversion('m', u)
        S.eq(f'roundtrip.length[{u}]', back(to(x)), x)
        S.eq(f'roundtrip.length_rev[{u}]', to(back(x)), x)
        num, den = LEN[u]
        S.eq(f'value.length[{u}->m]', to(x) * den, x * num)
    for u in ('c', 'f'):
        to = utils.get_temperature_conversion(u, 'k')
        back = utils.get_temperature_conversion('k', u)
        S.eq(f'roundtrip.temperature[{u}]', back(to(x)), x)
        S.eq(f'roundtrip.temperature_rev[{u}]', to(back(x)), x)
    S.eq('value.temperature[c->k]', utils.get_temperature_conversion('c', 'k')(x) * 100, x * 100 + 27315)
    S.eq('value.temperature[f->k]', utils.get_temperature_conversion('f', 'k')(x) * 900, (x - 32) * 500 + 27315 * 9)
    to, back = utils.get_mass_conversion('lb', 'kg'), utils.get_mass_conversion('kg', 'lb')
    S.eq('roundtrip.mass', back(to(x)), x)
    for u, sec in (('min', 60), ('hr', 3600)):
        to, back = utils.get_time_conversion(u, 's'), utils.get_time_conversion('s', u)
        S.eq(f'roundtrip.time[{u}]', back(to(x)), x)
        S.eq(f'value.time[{u}->s]', to(x), x * sec)
    S.eq('canary.inch_is_2.5cm', utils.get_length_conversion('in', 'm')(x) * 1000, x * 25, canary=True)
roundtrip.cname = 'utils converters'


# ---------------------------------------------------------------------------------------
def _leaf(S, name):
    return S.real(name, 0.1, 3.0)


def make_data(S, units, pin='FuelModel'):
    """schema-shaped DASSH input data, every numeric leaf a distinct atom"""
    def asm(tag):
        d = {
            'num_rings': 3, 'pin_pitch': _leaf(S, f'{tag}.pin_pitch'), 'pin_diameter': _leaf(S, f'{tag}.pin_diameter'),
            'clad_thickness': _leaf(S, f'{tag}.clad_thickness'), 'wire_pitch': _leaf(S, f'{tag}.wire_pitch'),
            'wire_diameter': _leaf(S, f'{tag}.wire_diameter'), 'wire_direction': 'clockwise',
            'duct_ftf': [_leaf(S, f'{tag}.duct_ftf[{i}]') for i in range(4)],
            'duct_material': 'ht9', 'corr_mixing': 'CTD', 'corr_friction': 'CTD', 'corr_flowsplit': 'CTD',
            'corr_shapefactor': None, 'corr_nusselt': 'DB', 'htc_params_duct': [_leaf(S, f'{tag}.htc[{i}]') for i in range(4)],
            'bypass_gap_flow_fraction': _leaf(S, f'{tag}.byp_ff'), 'bypass_gap_loss_coeff': None,
            'shape_factor': _leaf(S, f'{tag}.shape_factor'), 'use_low_fidelity_model': False,
            'convection_factor': 'calculate',
            'AxialRegion': {
                'rods': {'z_lo': _leaf(S, f'{tag}.rods.z_lo'), 'z_hi': _leaf(S, f'{tag}.rods.z_hi')},
                'lower': {'model': 'simple', 'z_lo': _leaf(S, f'{tag}.lower.z_lo'), 'z_hi': _leaf(S, f'{tag}.lower.z_hi'),
                          'vf_coolant': _leaf(S, f'{tag}.lower.vf'), 'structure_material': None,
                          'hydraulic_diameter': _leaf(S, f'{tag}.lower.de'), 'epsilon': _leaf(S, f'{tag}.lower.epsilon'),
                          'magic_knob': _leaf(S, f'{tag}.lower.knob'), 'htc_params': None,
                          'convection_factor': _leaf(S, f'{tag}.lower.cf')}},
            'SpacerGrid': {'corr': 'CDD', 'corr_coeff': None, 'loss_coeff': _leaf(S, f'{tag}.grid.K'),
                           'axial_positions': [_leaf(S, f'{tag}.grid.z[{i}]') for i in range(2)],
                           'solidity': _leaf(S, f'{tag}.grid.solidity')},
        }
        d[pin] = {'gap_thickness': _leaf(S, f'{tag}.{pin}.gap_thickness'), 'clad_material': 'ht9',
                  'gap_material': None, 'htc_params_clad': None, 'r_frac': [_leaf(S, f'{tag}.{pin}.r_frac')]}
        return d
    data = {
        'Setup': {'axial_mesh_size': _leaf(S, 'Setup.axial_mesh_size'),
                  'axial_plane': [_leaf(S, f'Setup.axial_plane[{i}]') for i in range(2)],
                  'conv_approx_dz_cutoff': _leaf(S, 'Setup.conv_approx_dz_cutoff'),
                  'param_update_tol': _leaf(S, 'Setup.param_update_tol'),
                  'Dump': {'all': False, 'interval': _leaf(S, 'Setup.Dump.interval')},
                  'Units': dict(units),
                  'AssemblyTables': {'t1': {'type': 'duct_mw', 'assemblies': [1],
                                            'axial_positions': [_leaf(S, f'Setup.tables.z[{i}]') for i in range(2)]}}},
        'Power': {'total_power': _leaf(S, 'Power.total_power'), 'power_scaling_factor': _leaf(S, 'Power.scale')},
        'Core': {'coolant_inlet_temp': _leaf(S, 'Core.coolant_inlet_temp'), 'coolant_material': 'sodium',
                 'length': _leaf(S, 'Core.length'), 'bypass_fraction': _leaf(S, 'Core.bypass_fraction'),
                 'assembly_pitch': _leaf(S, 'Core.assembly_pitch'), 'gap_model': 'flow',
                 'htc_params_duct': [_leaf(S, f'Core.htc[{i}]') for i in range(4)]},
        'Assembly': {'fuel': asm('fuel'), 'refl': asm('refl')},
        'Assignment': {'ByPosition': [
            ['fuel', 0, {'flowrate': _leaf(S, 'Assign[0].flowrate')}],
            ['fuel', 1, {'outlet_temp': _leaf(S, 'Assign[1].outlet_temp')}],
            [],
            ['refl', 3, {'delta_temp': _leaf(S, 'Assign[3].delta_temp')}],
            [],
            # positions after an unassigned one (a partially filled outer ring) are converted like the others
            ['fuel', 5, {'flowrate': _leaf(S, 'Assign[5].flowrate')}],
            ['fuel', 6, {'outlet_temp': _leaf(S, 'Assign[6].outlet_temp')}]]},
        'Orificing': {'bulk_coolant_temp': _leaf(S, 'Orificing.bulk_coolant_temp'),
                      'pressure_drop_limit': _leaf(S, 'Orificing.pressure_drop_limit'),
                      'convergence_tol': _leaf(S, 'Orificing.convergence_tol')},
    }
    return data


LENGTH_PATTERNS = [
    r'^Core\.(length|assembly_pitch)$',
    r'^Assembly\.\w+\.(pin_pitch|pin_diameter|clad_thickness|wire_pitch|wire_diameter)$',
    r'^Assembly\.\w+\.duct_ftf\[\d+\]$',
    r'^Assembly\.\w+\.AxialRegion\.\w+\.(z_lo|z_hi|hydraulic_diameter|epsilon)$',
    r'^Assembly\.\w+\.(FuelModel|PinModel)\.gap_thickness$',
    r'^Assembly\.\w+\.SpacerGrid\.axial_positions\[\d+\]$',
    r'^Setup\.(axial_mesh_size|conv_approx_dz_cutoff)$',
    r'^Setup\.axial_plane\[\d+\]$',
    r'^Setup\.Dump\.interval$',
    r'^Setup\.AssemblyTables\.\w+\.axial_positions\[\d+\]$',
]
TEMP_PATTERNS = [r'^Core\.coolant_inlet_temp$', r'^Orificing\.bulk_coolant_temp$',
                 r'^Assignment\.ByPosition\[\d+\]\[2\]\.outlet_temp$']
FLOW_PATTERNS = [r'^Assignment\.ByPosition\[\d+\]\[2\]\.flowrate$']


def _walk(obj, path=''):
    if isinstance(obj, dict):
        for k, v in obj.items():
            yield from _walk(v, f'{path}.{k}' if path else str(k))
    elif isinstance(obj, (list, tuple)):
        for i, v in enumerate(obj):
            yield from _walk(v, f'{path}[{i}]')
    else:
        yield path, obj


def _is_num(v):
    return isinstance(v, (Sym, float, int)) and not isinstance(v, bool)


ASSIGNMENT_TEXT = """[Assignment]
    [[ByPosition]]
        fuel = 1, 1, 1, flowrate = 1.5
        fuel = 2, 1, 2, outlet_temp = 2.5
        refl = 2, 3, 3, delta_temp = 3.5
        fuel = 2, 5, 6, flowrate = 4.5
"""


def convert_each_once(S, cfg):
    from dassh import read_input, utils
    import dassh
    units = {'temperature': cfg['temperature'], 'length': cfg['length'], 'mass_flow_rate': cfg['mfr']}
    data = make_data(S, units, pin=cfg.get('pin', 'FuelModel'))
    inp = read_input.DASSH_Input.__new__(read_input.DASSH_Input)
    dassh.logged_class.LoggedClass.__init__(inp, 4, 'dassh.read_input.DASSH_Input')
    if cfg.get('parsed'):
        # the Assignment section as the REAL parser builds it from lines that cover several positions; its numeric
        # leaves are then made symbolic object by object - positions that share one dictionary share one leaf, and
        # the loop of the converters over positions would convert it once per position
        parsed = inp.parse_assignment_section(ASSIGNMENT_TEXT)
        done = {}
        for k, entry in enumerate(parsed['ByPosition']):
            if not entry:
                continue
            bc = entry[2]
            if id(bc) not in done:
                done[id(bc)] = k
                for key in list(bc):
                    bc[key] = _leaf(S, f'Assign[{k}].{key}')
        data['Assignment'] = parsed
    if cfg.get('no_interval'):
        data['Setup']['Dump']['interval'] = None        # not given by the user
    before = copy.deepcopy(data) if S.mode != 'sym' else _copy_tree(data)
    inp.data = data
    # same order as DASSH_Input.__init__: temperature differences become outlet temperatures (in the user's
    # unit) first, then everything is converted
    inp.convert_assn_deltaT_to_outletT()
    inp.convert_units()
    after = dict(_walk(inp.data))
    orig = dict(_walk(before))
    # converters of the oracle (scalar functions proved in `roundtrip`)
    tconv = (lambda v: v) if units['temperature'] == 'kelvin' else \
        utils.get_temperature_conversion(units['temperature'], 'k')
    lconv = (lambda v: v) if units['length'] == 'm' else utils.get_length_conversion(units['length'], 'm')
    m_unit, t_unit = cfg['mfr'].split('/')
    mfac = 1 if m_unit == 'kg' else utils.get_mass_conversion('lb', 'kg')(1)
    tfac = {'s': 1, 'min': 60, 'hr': 3600}[t_unit]
    inlet0 = orig['Core.coolant_inlet_temp']
    for path, v0 in orig.items():
        if not _is_num(v0) or isinstance(v0, int):
            continue
        if path.endswith('.delta_temp'):
            # a temperature DIFFERENCE: outlet = converted inlet + difference without offset
            newp = path.replace('.delta_temp', '.outlet_temp')
            S.holds(f'delta.replaced_by_outlet[{path}]', newp in after and path not in after)
            if newp in after:
                S.eq(f'convert.delta_temp[{path}]', after[newp], tconv(v0 + inlet0))
            continue
        if path not in after:
            S.holds(f'convert.leaf_kept[{path}]', False)
            continue
        v1 = after[path]
        if any(re.match(p, path) for p in LENGTH_PATTERNS):
            S.eq(f'convert.length_once[{path}]', v1, lconv(v0))
        elif any(re.match(p, path) for p in TEMP_PATTERNS):
            S.eq(f'convert.temperature_once[{path}]', v1, tconv(v0))
        elif any(re.match(p, path) for p in FLOW_PATTERNS):
            S.eq(f'convert.flow_once[{path}]', v1 * tfac, v0 * mfac)
        else:
            S.eq(f'convert.unchanged[{path}]', v1, v0)
    if cfg.get('no_interval'):
        # a default the reader fills in is part of the internal SI data: the same in every unit system
        S.holds('convert.default_dump_interval_same_in_every_unit_system', inp.data['Setup']['Dump']['interval'] == 0.01)
    S.eq('canary.inlet_unconverted', after['Core.coolant_inlet_temp'] + (0 if units['temperature'] != 'kelvin' else 1),
         orig['Core.coolant_inlet_temp'], canary=True)
convert_each_once.cname = 'DASSH_Input.convert_units'


def _copy_tree(o):
    if isinstance(o, dict):
        return {k: _copy_tree(v) for k, v in o.items()}
    if isinstance(o, list):
        return [_copy_tree(v) for v in o]
    return o


def configs(tier):
    out = [(roundtrip, dict())]
    temps = ['kelvin', 'celsius', 'fahrenheit']
    lens = ['m', 'cm', 'mm', 'in', 'ft']
    mfrs = ['kg/s', 'kg/min', 'kg/hr', 'lb/s', 'lb/min', 'lb/hr']
    if tier == 'quick':
        combos = [(temps[i % 3], lens[i % 5], mfrs[i % 6]) for i in range(6)]
        combos += [('kelvin', 'm', 'kg/s'), ('fahrenheit', 'ft', 'lb/hr'), ('celsius', 'in', 'kg/min')]
    else:
        combos = [(t, l, m) for t in temps for l in lens for m in mfrs]
    seen = set()
    for i, (t, l, m) in enumerate(combos):
        if (t, l, m) in seen:
            continue
        seen.add((t, l, m))
        out.append((convert_each_once, dict(temperature=t, length=l, mfr=m, pin='FuelModel' if i % 2 == 0 else 'PinModel')))
    for t, l, m in (('celsius', 'cm', 'kg/min'), ('fahrenheit', 'ft', 'lb/hr'), ('kelvin', 'm', 'kg/s')):
        out.append((convert_each_once, dict(temperature=t, length=l, mfr=m, pin='FuelModel', parsed=True)))
    for t, l, m in (('kelvin', 'm', 'kg/s'), ('kelvin', 'cm', 'kg/s'), ('celsius', 'm', 'lb/min'), ('fahrenheit', 'in', 'kg/hr')):
        out.append((convert_each_once, dict(temperature=t, length=l, mfr=m, pin='PinModel', no_interval=True)))
    # "the same mesh and temperatures": converted lengths carry round-off of either sign; the consumers of converted
    # axial positions read them on the raster of the axial planes (C14's contracts on the region of a step and on
    # the spacer grids, shared) - without that a bound of 27.4 cm and one of 0.274 m select different steps
    from . import c14
    out += [(c14.region_of_step, dict(n_regions=3)), (c14.grid, dict(where='near_plane'))]
    return out


# keys of the input that carry a dimension (by name, wherever they occur in the template)
_DIM_LENGTH = {'length', 'assembly_pitch', 'pin_pitch', 'pin_diameter', 'clad_thickness', 'wire_pitch', 'wire_diameter',
               'duct_ftf', 'z_lo', 'z_hi', 'hydraulic_diameter', 'epsilon', 'gap_thickness', 'fcgap_thickness',
               'axial_positions', 'axial_mesh_size', 'conv_approx_dz_cutoff', 'axial_plane', 'interval'}
_DIM_TEMPERATURE = {'coolant_inlet_temp', 'bulk_coolant_temp', 'outlet_temp', 'delta_temp'}
_DIM_FLOW = {'flowrate', 'flow_rate'}


def template_defaults():
    """defaults are filled in from input_template.txt BEFORE the units are converted, so a dimensional key must not
    have a dimensional default there: `default=None` (or no default), or 0 for a length (0 is the same in every unit).
    A value such as default=0.001 would mean 1 mm in a metre input and 10 micrometres in a centimetre input."""
    import os
    import re as _re
    path = os.path.join(os.environ.get('DASSH_REPO', '/repo'), 'dassh', 'input_template.txt')
    out = []
    section = []
    for ln, line in enumerate(open(path), 1):
        t = line.strip()
        m = _re.match(r'^(\[+)\s*([^\]]+?)\s*\]+$', t)
        if m:
            depth = len(m.group(1))
            section = section[:depth - 1] + [m.group(2)]
            continue
        m = _re.match(r'^(\w+)\s*=\s*(.+)$', t)
        if not m:
            continue
        key, spec = m.group(1), m.group(2)
        kind = 'length' if key in _DIM_LENGTH else 'temperature' if key in _DIM_TEMPERATURE else \
            'flow' if key in _DIM_FLOW else None
        if kind is None or 'Units' in section:         # [[Units]] length = 'm' names a unit, it is not a length
            continue
        d = _re.search(r'default\s*=\s*([^,)]+)', spec)
        default = d.group(1).strip() if d else None
        ok = default in (None, 'None') or default.startswith('list(') and default in ('list()',) \
            or (kind == 'length' and _re.fullmatch(r'0(\.0*)?', default or '') is not None)
        out.append(('.'.join(section + [key]), kind, default, bool(ok), ln))
    return out


def extra_checks(tier, seed):
    results = []
    rows = template_defaults()
    for name, kind, default, ok, ln in rows:
        results.append(dict(name=f'template.dimensional_default_is_unit_free[{name}]', status='proved' if ok else 'refuted',
                            backend='template-scan', seconds=0.0,
                            detail='' if ok else f'input_template.txt line {ln}: {kind} key {name} has default={default}, which '
                                                 f'is then converted as if written in the user\'s {kind} unit',
                            witness=None if ok else dict(values=dict(key=name, default=default)),
                            replay=None if ok else dict(reproduced=False, point=dict(values=dict(key=name)), native=f'line {ln}')))
    if not rows:
        results.append(dict(name='template.dimensional_keys_found', status='fault', backend='template-scan', seconds=0.0,
                            detail='no dimensional key found in input_template.txt'))
    return [dict(name='input template: dimensional defaults', results=results,
                 notes=['static scan of dassh/input_template.txt: %d dimensional keys' % len(rows)])]
