"""C18 - impossible or inconsistent inputs are rejected before any calculation.

Deductive part: the real semantic checks of DASSH_Input (check_pin, check_duct,
check_core_specifications, check_unrodded_regions) are executed on a data dictionary whose
numeric entries are UNCONSTRAINED real atoms (only the bounds the ConfigObj template itself
enforces are assumed).  "Rejected" is the path outcome SystemExit (LoggedClass.log('error')).
Post-condition on every path that returns normally (= accepted): the validity predicate of the
property holds - positive dimensions, pitch >= diameter, clad <= radius, wire <= gap and a
pitch for every wire, pins fit in the innermost duct, duct walls of non-zero thickness inside the
assembly pitch, equal outer ducts, non-negative bypass fraction, flowing gap model only with
gap flow, axial regions inside the core with positive height, no overlap, coolant in every
region, exactly one pin-bundle region of positive height whose bounds are the ones stored.
Every contract also demands that at least one path is accepted and one rejected (non-vacuity).

Bounded part: run-time contracts on generated inputs - single-fault perturbations of a valid
two-type core across the input keys (each must end in a logged error, SystemExit, before the
sweep; never an unhandled exception, a hang or non-finite results) and valid variants (each
must be set up and swept to finite temperatures).
"""
from __future__ import annotations
import math
import os
import re
import numpy as np
from . import common
from pvc import core
from pvc.core import Sym

MODULES = ['dassh.read_input']
PROPERTY = 'C18'
FUNCTIONS = ['dassh.read_input:DASSH_Input.check_pin', 'dassh.read_input:DASSH_Input.check_duct',
             'dassh.read_input:DASSH_Input.check_core_specifications', 'dassh.read_input:DASSH_Input.check_unrodded_regions',
             'dassh.read_input:DASSH_Input.check_assignment_boundary_conditions + convert_assn_deltaT_to_outletT in the order '
             'DASSH_Input.__init__ calls them',
             'dassh.read_input:_find_rodded_regs / _check_reg_bnds / _get_rodded_reg_bnds',
             'dassh.read_input:DASSH_Input.__init__ + dassh.reactor:Reactor.__init__ + temperature_sweep (run-time contracts: '
             'outcome class per perturbed input)']
ASSUMPTIONS = ['ConfigObj validation against input_template.txt is a dependency: the bounds it enforces (wire_pitch, '
               'wire_diameter, z_lo, z_hi >= 0; 0 <= vf_coolant, bypass_fraction <= 1; types) are preconditions of the '
               'semantic checks',
               'rejection = LoggedClass.log("error", ...) raising SystemExit after logging the message']
NOT_DECIDED = ['string-valued inputs (materials, correlations, file names) symbolically - covered by the bounded run-time '
               'contracts only', 'binary-flux (ARC) inputs', 'plot / table request sections']
BOUNDED = ['runtime.rejected[*] / runtime.accepted[*]: the listed single-fault perturbations and valid variants of one '
           'generated two-type core']


def _inp(S):
    import dassh
    from dassh import read_input
    inp = read_input.DASSH_Input.__new__(read_input.DASSH_Input)
    dassh.logged_class.LoggedClass.__init__(inp, 0, 'dassh.read_input.DASSH_Input')
    return inp


def _free(S, name):
    return S.real(name, -0.02, 0.05)


def check_pin(S, cfg):
    inp = _inp(S)
    n_ring = cfg['n_ring']
    lf = cfg.get('low_fidelity', False)
    a = {'num_rings': n_ring, 'pin_pitch': _free(S, 'pin_pitch'), 'pin_diameter': _free(S, 'pin_diameter'),
         'clad_thickness': _free(S, 'clad_thickness'), 'wire_pitch': S.nonneg('wire_pitch', 0.0, 0.3),
         'wire_diameter': S.nonneg('wire_diameter', 0.0, 0.003), 'use_low_fidelity_model': lf,
         'duct_ftf': [_free(S, 'ftf0'), _free(S, 'ftf1')] + ([_free(S, 'ftf2'), _free(S, 'ftf3')] if cfg.get('n_duct', 1) == 2 else [])}
    inp.data = {'Assembly': {'fuel': a}}
    inp.check_pin()
    # accepted:
    sq3 = Sym(core.C(core.Q3(0, 1))) if S.mode == 'sym' else math.sqrt(3)
    S.lt('pin.pitch_positive', 0, a['pin_pitch'])
    S.lt('pin.diameter_positive', 0, a['pin_diameter'])
    S.lt('pin.clad_positive', 0, a['clad_thickness'])
    S.le('pin.pitch_not_below_diameter', a['pin_diameter'], a['pin_pitch'])
    S.le('pin.clad_not_thicker_than_radius', a['clad_thickness'], a['pin_diameter'] / 2)
    S.le('pin.wire_fits_between_pins', a['wire_diameter'], a['pin_pitch'] - a['pin_diameter'])
    if S.mode == 'sym':
        S.holds('pin.wire_has_a_pitch', (a['wire_diameter'] <= 0) | (a['wire_pitch'] > 0))
    else:
        S.holds('pin.wire_has_a_pitch', bool(a['wire_diameter'] <= 0 or a['wire_pitch'] > 0))
    if not lf:
        bundle = sq3 * (n_ring - 1) * a['pin_pitch'] + a['pin_diameter'] + 2 * a['wire_diameter']
        for k, f in enumerate(a['duct_ftf']):
            S.le(f'pin.bundle_fits_in_every_duct_ftf[{k}]', bundle, f)
    S.lt('canary.pin_pitch_above_one', 1, a['pin_pitch'], canary=True)


check_pin.cname = 'DASSH_Input.check_pin'
check_pin.run_kw = dict(max_paths=400, check_div=False, pool_size=12)
check_pin.need_exit = True


def check_duct(S, cfg):
    inp = _inp(S)
    n_asm = cfg.get('n_asm', 2)
    n_duct = cfg.get('n_duct', [1, 1])
    pitch = _free(S, 'assembly_pitch')
    asms = {}
    for i in range(n_asm):
        ftf = [_free(S, f'ftf[{i},{k}]') for k in range(2 * n_duct[i])]
        asms[f'a{i}'] = {'duct_ftf': ftf, 'bypass_gap_flow_fraction': S.real(f'byp_ff[{i}]', -0.5, 1.5)}
    inp.data = {'Assembly': asms, 'Core': {'assembly_pitch': pitch}}
    from dassh import read_input
    # np.round(., 9) of the outer flat-to-flat before the equality test: values on the 1e-9 m grid (identity)
    with (common.patched((read_input.np, 'round', lambda x, n=0: x)) if S.mode == 'sym' else common.patched()):
        inp.check_duct()
    for i in range(n_asm):
        ftf = asms[f'a{i}']['duct_ftf']
        for k, f in enumerate(ftf):
            S.lt(f'duct.ftf_positive[{i},{k}]', 0, f)
            S.lt(f'duct.inside_assembly_pitch[{i},{k}]', f, pitch)
        for d in range(n_duct[i]):
            S.holds(f'duct.wall_has_thickness[{i},{d}]', (ftf[2 * d] != ftf[2 * d + 1]) if S.mode == 'sym'
                    else bool(ftf[2 * d] != ftf[2 * d + 1]))
        if n_duct[i] > 1:
            S.le(f'duct.bypass_fraction_nonnegative[{i}]', 0, asms[f'a{i}']['bypass_gap_flow_fraction'])
        S.eq(f'duct.outer_ducts_equal[{i}]', ftf[-1], asms['a0']['duct_ftf'][-1])
    S.lt('canary.duct_pitch_above_one', 1, pitch, canary=True)


check_duct.cname = 'DASSH_Input.check_duct'
check_duct.run_kw = dict(max_paths=600, check_div=False, pool_size=12)
check_duct.need_exit = True


def check_core(S, cfg):
    inp = _inp(S)
    model = cfg['gap_model']
    c = {'length': _free(S, 'length'), 'assembly_pitch': _free(S, 'assembly_pitch'), 'gap_model': model,
         'bypass_fraction': S.nonneg('bypass_fraction', 0.0, 1.0)}
    inp.data = {'Core': c}
    inp.check_core_specifications()
    S.lt('core.length_positive', 0, c['length'])
    S.lt('core.pitch_positive', 0, c['assembly_pitch'])
    if model == 'flow':
        S.lt('core.flowing_gap_has_flow', 0, c['bypass_fraction'])
    if model == 'none':
        S.holds('core.none_means_no_gap_model', inp.data['Core']['gap_model'] is None)
    S.lt('canary.core_length_above_one', 1, c['length'], canary=True)


check_core.cname = 'DASSH_Input.check_core_specifications'
check_core.run_kw = dict(check_div=False, pool_size=12)
check_core.need_exit = True


def check_axial(S, cfg):
    inp = _inp(S)
    n_reg = cfg['n_regions']
    L = S.pos('core_length', 0.5, 3.0)
    regs = {}
    for i in range(n_reg):
        regs[f'r{i}'] = {'z_lo': S.nonneg(f'z_lo[{i}]', 0.0, 3.0), 'z_hi': S.nonneg(f'z_hi[{i}]', 0.0, 3.0),
                         'vf_coolant': S.nonneg(f'vf[{i}]', 0.0, 1.0), 'hydraulic_diameter': S.real(f'de[{i}]', -0.01, 0.01),
                         'epsilon': S.real(f'eps[{i}]', -0.01, 0.01), 'convection_factor': 1.0}
    inp.data = {'Assembly': {'fuel': {'use_low_fidelity_model': False, 'convection_factor': 'calculate',
                                      'AxialRegion': dict(regs)}},
                'Core': {'length': L}}
    inp.check_unrodded_regions()
    out = inp.data['Assembly']['fuel']['AxialRegion']
    S.holds('axial.bundle_region_recorded', 'rods' in out)
    rods = out['rods']
    S.lt('axial.bundle_has_positive_height', rods['z_lo'], rods['z_hi'])
    S.le('axial.bundle_inside_core[lo]', 0, rods['z_lo'])
    S.le('axial.bundle_inside_core[hi]', rods['z_hi'], L)
    sym = S.mode == 'sym'
    for i in range(n_reg):
        r = regs[f'r{i}']
        S.lt(f'axial.region_has_positive_height[{i}]', r['z_lo'], r['z_hi'])
        S.le(f'axial.region_inside_core[{i}]', r['z_hi'], L)
        S.lt(f'axial.region_has_coolant[{i}]', 0, r['vf_coolant'])
        S.le(f'axial.hydraulic_diameter_nonnegative[{i}]', 0, r['hydraulic_diameter'])
        S.le(f'axial.roughness_nonnegative[{i}]', 0, r['epsilon'])
        # no overlap with the bundle and with the other regions; contiguous with the bundle or the core ends
        below = (r['z_hi'] <= rods['z_lo'])
        above = (r['z_lo'] >= rods['z_hi'])
        S.holds(f'axial.region_does_not_overlap_bundle[{i}]', (below | above) if sym else bool(below or above))
        for j in range(i + 1, n_reg):
            q = regs[f'r{j}']
            a_, b_ = (r['z_hi'] <= q['z_lo']), (q['z_hi'] <= r['z_lo'])
            S.holds(f'axial.regions_do_not_overlap[{i},{j}]', (a_ | b_) if sym else bool(a_ or b_))
    # the regions and the bundle tile the core: total height = core length
    total = (rods['z_hi'] - rods['z_lo'])
    for i in range(n_reg):
        total = total + (regs[f'r{i}']['z_hi'] - regs[f'r{i}']['z_lo'])
    S.eq('axial.regions_and_bundle_tile_the_core', total, L)
    S.lt('canary.axial_bundle_longer_than_core', L, rods['z_hi'] - rods['z_lo'], canary=True)


check_axial.cname = 'DASSH_Input.check_unrodded_regions'
check_axial.run_kw = dict(max_paths=1500, check_div=False, pool_size=12, budget_ms=6000)
check_axial.need_exit = True


def _bc_stages():
    """the methods DASSH_Input.__init__ calls (in source order, power_only False) that read or rewrite the
    boundary-condition keywords of an assignment - taken from the real constructor on every run"""
    import ast
    import inspect
    import textwrap
    from dassh import read_input
    tree = ast.parse(textwrap.dedent(inspect.getsource(read_input.DASSH_Input.__init__)))
    calls = [n for n in ast.walk(tree) if isinstance(n, ast.Call) and isinstance(n.func, ast.Attribute)
             and isinstance(n.func.value, ast.Name) and n.func.value.id == 'self' and not n.args and not n.keywords]
    calls.sort(key=lambda n: (n.lineno, n.col_offset))
    out = []
    for c in calls:
        m = getattr(read_input.DASSH_Input, c.func.attr, None)
        if m is None or not callable(m):
            continue
        try:
            src = inspect.getsource(m)
        except (OSError, TypeError):
            continue
        if "'delta_temp'" in src or '"delta_temp"' in src:
            out.append(c.func.attr)
    return out


def check_bc(S, cfg):
    """boundary condition of one assigned position through the constructor's own sequence of stages: accepted only
    if exactly one keyword is given, its value is positive, a temperature rise is positive and an outlet temperature
    lies above the inlet temperature; what is left for the solver is a flow rate or an outlet temperature"""
    inp = _inp(S)
    t_in = S.pos('coolant_inlet_temp', 300.0, 900.0)
    given = {k: S.real(k, -500.0, 1500.0) for k in cfg['keys']}
    bc = dict(given)
    inp.data = {'Core': {'coolant_inlet_temp': t_in}, 'Assignment': {'ByPosition': [[], ['fuel', 1, bc], []]}}
    stages = _bc_stages()
    S.holds('bc.constructor_checks_and_converts', len(stages) >= 2)
    for st in stages:
        getattr(inp, st)()
    # ---- accepted
    S.holds('bc.exactly_one_keyword', len(given) == 1)
    left = inp.data['Assignment']['ByPosition'][1][2]
    S.holds('bc.solver_gets_flowrate_or_outlet_temp', sorted(left) in (['flowrate'], ['outlet_temp']))
    for k, v in given.items():
        S.lt(f'bc.value_positive[{k}]', 0, v)
    if 'flowrate' in given and 'flowrate' in left:
        S.eq('bc.flowrate_kept', left['flowrate'], given['flowrate'])
    if 'delta_temp' in given and 'outlet_temp' in left and len(given) == 1:
        S.eq('bc.outlet_is_inlet_plus_rise', left['outlet_temp'], t_in + given['delta_temp'])
    if 'outlet_temp' in left:
        S.lt('bc.outlet_above_inlet', t_in, left['outlet_temp'])
        S.lt('canary.bc_outlet_far_above_inlet', t_in + 100, left['outlet_temp'], canary=True)
    if 'flowrate' in left:
        S.lt('canary.bc_flowrate_above_one', 1, left['flowrate'], canary=True)


check_bc.cname = 'DASSH_Input.__init__ assignment boundary-condition stages'
check_bc.run_kw = dict(check_div=False, pool_size=8)
check_bc.need_exit = True


def configs(tier):
    out = [(check_bc, dict(keys=['flowrate'])), (check_bc, dict(keys=['outlet_temp'])), (check_bc, dict(keys=['delta_temp'])),
           (check_bc, dict(keys=['delta_temp', 'outlet_temp'])), (check_bc, dict(keys=['flowrate', 'delta_temp'])),
           (check_bc, dict(keys=[])),
           (check_pin, dict(n_ring=2)), (check_pin, dict(n_ring=5, n_duct=2)), (check_pin, dict(n_ring=3, low_fidelity=True)),
           (check_duct, dict(n_asm=2, n_duct=[1, 1])), (check_duct, dict(n_asm=2, n_duct=[1, 2])),
           (check_core, dict(gap_model='flow')), (check_core, dict(gap_model='no_flow')), (check_core, dict(gap_model='none')),
           (check_axial, dict(n_regions=1)), (check_axial, dict(n_regions=2))]
    if tier == 'thorough':
        out += [(check_axial, dict(n_regions=3)), (check_duct, dict(n_asm=3, n_duct=[2, 1, 2]))]
    return out


# ---------------------------------------------------------------------------------------
# bounded: outcome class of perturbed and valid generated inputs
_RUNNER = r'''
import sys, os
sys.path.insert(0, os.environ.get('DASSH_REPO', '/repo'))
import numpy as np
import dassh
path = sys.argv[1]
stage = 'read'
try:
    inp = dassh.DASSH_Input(path)
    stage = 'setup'
    r = dassh.Reactor(inp, path=os.path.dirname(path), write_output=False)
    stage = 'sweep'
    r.temperature_sweep()
    stage = 'postprocess'
    r.postprocess()
    ok = all(np.all(np.isfinite(a.temp_coolant)) and np.all(np.isfinite(a.temp_duct_mw)) for a in r.assemblies)
    print('OUTCOME accepted_and_swept' if ok else 'OUTCOME nonfinite_result')
except SystemExit:
    print('OUTCOME rejected stage=' + stage)
except BaseException as e:
    print('OUTCOME exception stage=%s %s: %s' % (stage, type(e).__name__, str(e)[:150]))
'''


def _sub(txt, pat, rep):
    new, n = re.subn(pat, rep, txt, count=1, flags=re.M)
    if n != 1:
        raise ValueError(f'perturbation pattern not found: {pat}')
    return new


def _ftf(t, which):
    lines = re.findall(r'duct_ftf        = (.*)', t)
    return lines[which], [float(x) for x in lines[which].split(',')]


def _set_ftf(t, which, vals):
    old, _ = _ftf(t, which)
    return t.replace('duct_ftf        = ' + old + '\n', 'duct_ftf        = ' + ', '.join(repr(v) for v in vals) + '\n', 1)


FAULTS = {
    'pins_do_not_fit': lambda t: _sub(t, r'pin_pitch       = 0.004', 'pin_pitch       = 0.012'),
    'wire_thicker_than_gap': lambda t: _sub(t, r'wire_diameter   = 0.0004', 'wire_diameter   = 0.002'),
    'clad_thicker_than_radius': lambda t: _sub(t, r'clad_thickness  = 0.0003', 'clad_thickness  = 0.005'),
    'zero_pin_pitch': lambda t: _sub(t, r'pin_pitch       = 0.004', 'pin_pitch       = 0.0'),
    'negative_pin_diameter': lambda t: _sub(t, r'pin_diameter    = 0.0032', 'pin_diameter    = -0.0032'),
    'zero_wire_pitch': lambda t: _sub(t, r'wire_pitch      = 0.15', 'wire_pitch      = 0.0'),
    'negative_wire_diameter': lambda t: _sub(t, r'wire_diameter   = 0.0004', 'wire_diameter   = -0.0004'),
    'zero_clad': lambda t: _sub(t, r'clad_thickness  = 0.0003', 'clad_thickness  = 0.0'),
    'zero_length': lambda t: _sub(t, r'length             = 1.0', 'length             = 0.0'),
    'negative_length': lambda t: _sub(t, r'length             = 1.0', 'length             = -1.0'),
    'pitch_smaller_than_duct': lambda t: _sub(t, r'assembly_pitch     = [0-9.]+', 'assembly_pitch     = 0.005'),
    'pitch_equal_duct': lambda t: _sub(t, r'assembly_pitch     = [0-9.]+', 'assembly_pitch     = ' + repr(_ftf(t, 0)[1][-1])),
    'unequal_outer_ducts': lambda t: _set_ftf(t, 0, [_ftf(t, 0)[1][0], _ftf(t, 0)[1][1] + 0.0005]),
    'duct_zero_thickness': lambda t: _set_ftf(t, 0, [_ftf(t, 0)[1][1], _ftf(t, 0)[1][1]]),
    'duct_ftf_odd': lambda t: _set_ftf(t, 0, _ftf(t, 0)[1] + [_ftf(t, 0)[1][1] + 0.001]),
    'duct_ftf_zero': lambda t: _set_ftf(t, 0, [0.0, _ftf(t, 0)[1][1]]),
    'axial_overlap': lambda t: _sub(t, r'z_hi       = 0.2', 'z_hi       = 0.9'),
    'axial_inverted': lambda t: _sub(t, r'z_lo       = 0.8', 'z_lo       = 1.2'),
    'axial_inverted_first': lambda t: _sub(t, r'z_lo       = 0.0\n(\s+)z_hi       = 0.2', r'z_lo       = 0.3\n\1z_hi       = 0.2'),
    'axial_beyond_core': lambda t: _sub(t, r'z_hi       = 1.0', 'z_hi       = 1.5'),
    'axial_zero_height': lambda t: _sub(t, r'z_lo       = 0.8', 'z_lo       = 1.0'),
    'axial_covers_core': lambda t: _sub(t, r'z_hi       = 0.2', 'z_hi       = 0.8'),
    'vf_coolant_zero': lambda t: _sub(t, r'vf_coolant = 0.3', 'vf_coolant = 0.0'),
    'vf_coolant_gt1': lambda t: _sub(t, r'vf_coolant = 0.3', 'vf_coolant = 1.3'),
    'missing_bc': lambda t: _sub(t, r', FLOWRATE=0.25', ''),
    'negative_flowrate': lambda t: _sub(t, r'FLOWRATE=0.25', 'FLOWRATE=-0.25'),
    'zero_flowrate': lambda t: _sub(t, r'FLOWRATE=0.25', 'FLOWRATE=0.0'),
    # a coolant temperature rise that is not positive, or given together with an outlet temperature
    'negative_delta_temp': lambda t: _sub(t, r'FLOWRATE=0.25', 'DELTA_TEMP=-50.0'),
    'zero_delta_temp': lambda t: _sub(t, r'FLOWRATE=0.25', 'DELTA_TEMP=0.0'),
    'delta_temp_and_outlet_temp': lambda t: _sub(t, r'FLOWRATE=0.25', 'DELTA_TEMP=50.0, OUTLET_TEMP=700.0'),
    'flowrate_and_outlet_temp': lambda t: _sub(t, r'FLOWRATE=0.25', 'FLOWRATE=0.25, OUTLET_TEMP=700.0'),
    'negative_outlet_temp': lambda t: _sub(t, r'FLOWRATE=0.25', 'OUTLET_TEMP=-700.0'),
    'outlet_temp_below_inlet': lambda t: _sub(t, r'FLOWRATE=0.25', 'OUTLET_TEMP=600.0'),
    'outlet_temp_equal_inlet': lambda t: _sub(t, r'FLOWRATE=0.25', 'OUTLET_TEMP=623.15'),
    'unknown_coolant': lambda t: _sub(t, r'coolant_material   = sodium_fixed', 'coolant_material   = unobtainium'),
    'unknown_duct_material': lambda t: _sub(t, r'duct_material   = ss316', 'duct_material   = kryptonite'),
    'unknown_friction': lambda t: _sub(t, r'corr_friction   = CTD', 'corr_friction   = XYZ'),
    'unknown_flowsplit': lambda t: _sub(t, r'corr_flowsplit  = CTD', 'corr_flowsplit  = XYZ'),
    'unknown_mixing': lambda t: _sub(t, r'corr_mixing     = CTD', 'corr_mixing     = XYZ'),
    'unknown_nusselt': lambda t: _sub(t, r'corr_nusselt    = DB', 'corr_nusselt    = XYZ'),
    # names that are only PARTS or near misses of a valid name are unknown too
    'unknown_nusselt_truncated': lambda t: _sub(t, r'corr_nusselt    = DB', 'corr_nusselt    = dittus'),
    'unknown_nusselt_one_letter': lambda t: _sub(t, r'corr_nusselt    = DB', 'corr_nusselt    = D'),
    'unknown_friction_truncated': lambda t: _sub(t, r'corr_friction   = CTD', 'corr_friction   = CT'),
    'unknown_flowsplit_truncated': lambda t: _sub(t, r'corr_flowsplit  = CTD', 'corr_flowsplit  = TD'),
    'unknown_mixing_truncated': lambda t: _sub(t, r'corr_mixing     = CTD', 'corr_mixing     = C'),
    'unknown_coolant_truncated': lambda t: _sub(t, r'coolant_material   = sodium_fixed', 'coolant_material   = sodium_fix'),
    'unknown_duct_material_truncated': lambda t: _sub(t, r'duct_material   = ss316', 'duct_material   = ss31'),
    'unknown_gap_model': lambda t: _sub(t, r'gap_model          = flow', 'gap_model          = turbo'),
    'zero_gap_fraction_flow': lambda t: _sub(t, r'bypass_fraction    = 0.05', 'bypass_fraction    = 0.0'),
    'tiny_gap_fraction': lambda t: _sub(t, r'bypass_fraction    = 0.05', 'bypass_fraction    = 1e-13'),
    'gap_fraction_gt1': lambda t: _sub(t, r'bypass_fraction    = 0.05', 'bypass_fraction    = 1.5'),
    'negative_inlet_temp': lambda t: _sub(t, r'coolant_inlet_temp = 623.15', 'coolant_inlet_temp = -5.0'),
    'htc_params_short': lambda t: _sub(t, r'htc_params_duct = 0.025, 0.8, 0.8, 7.0', 'htc_params_duct = 0.025, 0.8'),
    'byp_fraction_gt1': lambda t: _sub(t, r'bypass_gap_flow_fraction = 0.05', 'bypass_gap_flow_fraction = 1.5'),
    'byp_fraction_negative': lambda t: _sub(t, r'bypass_gap_flow_fraction = 0.05', 'bypass_gap_flow_fraction = -0.1'),
    'negative_mesh_size': lambda t: t.replace('[Setup]\n', '[Setup]\n    axial_mesh_size = -0.01\n', 1),
    'zero_mesh_size': lambda t: t.replace('[Setup]\n', '[Setup]\n    axial_mesh_size = 0.0\n', 1),
    'power_file_missing': lambda t: _sub(t, r'user_power  = power_0.csv', 'user_power  = nothere.csv'),
    'negative_total_power': lambda t: _sub(t, r'power_scaling_factor = 1.0', 'power_scaling_factor = 1.0\n    total_power = -5.0'),
    'negative_scaling': lambda t: _sub(t, r'power_scaling_factor = 1.0', 'power_scaling_factor = -1.0'),
    'fuel_r_frac_decreasing': lambda t: _sub(t, r'r_frac   =  0.0, 0.33333, 0.66667', 'r_frac   =  0.0, 0.7, 0.3'),
    'fuel_pu_frac_gt1': lambda t: _sub(t, r'pu_frac  = 0.20,    0.20,    0.20', 'pu_frac  = 1.20,    0.20,    0.20'),
    'fuel_gap_gt_radius': lambda t: _sub(t, r'gap_thickness = 0.0', 'gap_thickness = 0.01'),
    'num_rings_zero': lambda t: _sub(t, r'num_rings       = 2', 'num_rings       = 0'),
    'num_rings_one': lambda t: _sub(t, r'num_rings       = 2', 'num_rings       = 1'),
    'num_rings_negative': lambda t: _sub(t, r'num_rings       = 2', 'num_rings       = -3'),
    'hotspot_input_sigma_zero': lambda t: _sub(t, r'subfactors = fftf_clad_mw', 'subfactors = fftf_clad_mw\n                input_sigma = 0'),
    'hotspot_unknown_table': lambda t: _sub(t, r'subfactors = fftf_clad_mw', 'subfactors = no_such_table.csv'),
    'position_twice': lambda t: _sub(t, r'a1 = 2, 2, 2', 'a1 = 2, 1, 1'),
    'assignment_unknown_assembly': lambda t: _sub(t, r'        a1 = 2, 2, 2', '        zz = 2, 2, 2'),
}
POWER_FAULTS = {
    'power_negative_coeff': lambda rows: [r if i != 3 else r[:5] + ['-' + r[5]] + r[6:] for i, r in enumerate(rows)],
    'power_missing_item': lambda rows: [r for i, r in enumerate(rows) if i != 2],
    'power_axial_gap': lambda rows: [r[:3] + ['0.45' if r[3] == '0.5' else r[3]] + r[4:] for r in rows],
    'power_beyond_core': lambda rows: [r[:3] + ['1.3' if r[3] == '1.0' else r[3]] + r[4:] for r in rows],
    'power_short_of_core': lambda rows: [r[:3] + ['0.9' if r[3] == '1.0' else r[3]] + r[4:] for r in rows],
    # the profile must start at the bottom of the core: not above it, and not below it either
    'power_starts_above_core_bottom': lambda rows: [r[:2] + ['0.1' if r[2] == '0.0' else r[2]] + r[3:] for r in rows],
    'power_starts_below_core_bottom': lambda rows: [r[:2] + ['-0.2' if r[2] == '0.0' else r[2]] + r[3:] for r in rows],
    'power_starts_just_below_core_bottom': lambda rows: [r[:2] + ['-0.004' if r[2] == '0.0' else r[2]] + r[3:] for r in rows],
    'power_wrong_asm_index': lambda rows: [[str(int(r[0]) + 5)] + r[1:] for r in rows],
    'power_nan': lambda rows: [r if i != 1 else r[:5] + ['nan'] + r[6:] for i, r in enumerate(rows)],
    'power_text': lambda rows: [r if i != 1 else r[:5] + ['abc'] + r[6:] for i, r in enumerate(rows)],
    'power_extra_pin': lambda rows: rows + [rows[0][:4] + ['99'] + rows[0][5:]],
    # item numbers with a hole (pins 1..6 and 8 of a 7-pin bundle), the same in every axial region
    'power_item_numbering_hole': lambda rows: [r[:4] + ['8'] + r[5:] if (r[0], r[1], r[4]) == ('1', '1', '7') else r
                                               for r in rows],
    'power_item_numbered_from_zero': lambda rows: [r[:4] + [str(int(r[4]) - 1)] + r[5:] if (r[0], r[1]) == ('1', '1') else r
                                                   for r in rows],
    'power_empty_file': lambda rows: [],
}
_B = dict(n_ring=2, pitch=0.0022, dpin=0.0018, wire=0.0002, n_duct=2)
VALID = {
    'base': None,
    'bare_rods': lambda t: _sub(_sub(t, r'wire_pitch      = 0.15', 'wire_pitch      = 0.0'), r'wire_diameter   = 0.0004',
                                'wire_diameter   = 0.0'),
    'gap_none': lambda t: _sub(t, r'gap_model          = flow', 'gap_model          = none'),
    'gap_no_flow': lambda t: _sub(t, r'gap_model          = flow', 'gap_model          = no_flow'),
    'gap_duct_average': lambda t: _sub(t, r'gap_model          = flow', 'gap_model          = duct_average'),
    'delta_temp_bc': lambda t: _sub(t, r'FLOWRATE=0.25', 'DELTA_TEMP=50.0'),
    'outlet_temp_bc': lambda t: _sub(t, r'FLOWRATE=0.25', 'OUTLET_TEMP=700.0'),
    'total_power_zero': lambda t: _sub(t, r'power_scaling_factor = 1.0', 'power_scaling_factor = 1.0\n    total_power = 0.0'),
    # spacer grids: user loss coefficient; loss correlation with the default solidity (input written in metres)
    'spacer_grid_loss_coefficient': 'grid_loss',
    'spacer_grid_correlation_default_solidity': 'grid_corr',
    'triple_duct': 'triple_duct',
    'low_fidelity': 'low_fidelity',
    'six_node': 'six_node',
}


def _base(wd, kind=None):
    from pvc import geninput as G
    a1 = dict(pin_model='fuel', hotspot=True, unrodded=[('lower', 0.0, 0.2, 'simple'), ('upper', 0.8, 1.0, 'simple')])
    b = dict(_B)
    if kind in ('grid_loss', 'grid_corr'):
        a1 = dict(a1, grid=[0.3, 0.6])
    if kind == 'triple_duct':
        a1, b = dict(n_duct=3), dict(n_duct=3)
    elif kind == 'low_fidelity':
        b = dict(low_fidelity='simple')
        a1 = dict()
    elif kind == 'six_node':
        a1 = dict(unrodded=[('lower', 0.0, 0.2, '6node'), ('upper', 0.8, 1.0, '6node')])
        b = dict()
    pos = [('a1', 1, 1, 0.3), ('b', 2, 1, 0.3), ('a1', 2, 2, 0.25)]
    return G.write_problem(wd, asms={'a1': a1, 'b': b}, positions=pos, gap_model='flow')


def _outcome(name):
    import shutil
    import subprocess
    import tempfile
    wd = tempfile.mkdtemp(prefix='c18_')
    try:
        if name in VALID and isinstance(VALID[name], str):
            p = _base(wd, VALID[name])
        else:
            p = _base(wd)
        t = open(p).read()
        if VALID.get(name) == 'grid_corr':
            t = t.replace('            loss_coeff = 1.2\n', '            corr = CDD\n')
            open(p, 'w').write(t)
        if name in POWER_FAULTS:
            pf = os.path.join(wd, 'power_0.csv')
            rows = [ln.strip().split(',') for ln in open(pf)]
            rows = POWER_FAULTS[name](rows)
            open(pf, 'w').write('\n'.join(','.join(r) for r in rows) + ('\n' if rows else ''))
        else:
            f = FAULTS.get(name) or VALID.get(name)
            if callable(f):
                t = f(t)
                open(p, 'w').write(t)
        runner = os.path.join(wd, '_runner.py')
        open(runner, 'w').write(_RUNNER)
        env = dict(os.environ, DASSH_REPO=os.environ.get('DASSH_REPO', '/repo'))
        try:
            out = subprocess.run(['/venv/bin/python', runner, p], capture_output=True, text=True, timeout=180, cwd=wd, env=env)
            lines = [ln for ln in out.stdout.splitlines() if ln.startswith('OUTCOME')]
            res = lines[-1][8:] if lines else 'crash ' + out.stderr[-200:].replace('\n', ' | ')
        except subprocess.TimeoutExpired:
            res = 'hang (no result within 180 s)'
        return name, res
    except BaseException as e:
        return name, f'harness error {type(e).__name__}: {e}'
    finally:
        shutil.rmtree(wd, ignore_errors=True)


def extra_checks(tier, seed):
    import multiprocessing as mp
    import time
    t0 = time.time()
    names = list(FAULTS) + list(POWER_FAULTS) + list(VALID)
    with mp.get_context('fork').Pool(16) as pool:
        out = dict(pool.map(_outcome, names, chunksize=1))
    secs = time.time() - t0
    results = []
    for nm in names:
        res = out[nm]
        if nm in VALID:
            ok = res.startswith('accepted_and_swept')
            label = f'runtime.accepted[{nm}]'
        else:
            ok = res.startswith('rejected')
            label = f'runtime.rejected[{nm}]'
        if res.startswith('harness error'):
            results.append(dict(name=label, status='fault', backend='bounded:run-time contract', seconds=0.0, detail=res))
            continue
        results.append(dict(name=label, status='proved' if ok else 'refuted', backend='bounded:run-time contract',
                            seconds=secs / len(names), detail=res, sample=nm in ('axial_overlap', 'base'),
                            witness=dict(values=dict(case=nm)),
                            replay=dict(reproduced=not ok, point=dict(values=dict(case=nm)), native=res)))
    return [dict(name='outcome class of generated inputs (run-time contracts)', results=results,
                 notes=[f'BOUNDED: {len(FAULTS) + len(POWER_FAULTS)} single-fault perturbations and {len(VALID)} valid variants of a '
                        'generated two-type three-assembly core'])]


def replay(doc):
    w = (doc.get('witness') or {}).get('values') or {}
    nm = w.get('case')
    if nm is None:
        print('replay: symbolic obligation - re-run ./check C18; witness:', str(doc.get('witness'))[:600])
        return 0
    _, res = _outcome(nm)
    print(f'replay: {nm}: {res}')
    bad = not (res.startswith('accepted_and_swept') if nm in VALID else res.startswith('rejected'))
    print('REPRODUCED' if bad else 'not reproduced')
    return 1 if bad else 0
