"""C19 - hot-spot temperatures reduce to nominal and grow with uncertainty.

Functions under contract: dassh.hotspot.calculate_temps, _get_peak_dt,
_split_clad_subfactors, _evaluate_hcf_expr (constant tables).
"""
from __future__ import annotations
import sys
import numpy as np
from . import common
from pvc import core
from pvc.core import Sym

MODULES = ['dassh.hotspot', 'dassh.assembly']
PROPERTY = 'C19'
FUNCTIONS = ['dassh.hotspot:analyze', 'dassh.hotspot:calculate_temps', 'dassh.hotspot:_get_peak_dt', 'dassh.hotspot:_split_clad_subfactors',
             'dassh.hotspot:_evaluate_hcf_expr',
             'dassh.assembly:Assembly._update_peak_pin_temps (the contract of C15: the profile that _get_peak_dt reads is '
             'the row of the pin, at the height, of the nominal peak)']
ASSUMPTIONS = ['precondition of calculate_temps: IN_sigma > 0 - established at the call site since hotspot._setup_postprocess '
               'rejects input_sigma <= 0 (run-time contract runtime.rejected[hotspot_input_sigma_zero] of C18)',
               'sizes: 1-2 assemblies, 1-3 direct and 1-2 statistical subfactors, 1-5 temperature terms (the function is '
               'array arithmetic without size-dependent control flow)']
NOT_DECIDED = ['user expressions in subfactor tables evaluated with eval() (arbitrary code)',
               'reading of the CSV tables (_read_hcf_table: string handling)']
BOUNDED = ['runtime.builtin_table[<table>,<location>]: the five built-in subfactor tables read by the real _read_hcf_table '
           '(CSV parsing and eval of their dT expressions are outside the symbolic part), for every location the table has '
           'columns for, 3 assemblies with different rises, output sigma 0..4 and input sigma 1..4: >= nominal, monotone in the '
           'output sigma, statistical allowance inversely proportional to the input sigma, cumulative sequence']


def _tables(S, n_asm, n_dir, n_stat, n_term, unity=False):
    mk = (lambda nm: 1) if unity else (lambda nm: 1 + S.nonneg(nm, 0.0, 0.3))
    shape_d, shape_s = (n_asm, n_dir, n_term), (n_asm, n_stat, n_term)
    d = np.empty(shape_d, dtype=object if S.mode == 'sym' else float)
    s = np.empty(shape_s, dtype=object if S.mode == 'sym' else float)
    for idx in np.ndindex(shape_d):
        d[idx] = mk(f'dir{list(idx)}')
    for idx in np.ndindex(shape_s):
        s[idx] = mk(f'stat{list(idx)}')
    return {'direct': d, 'statistical': s}


def temps(S, cfg):
    from dassh import hotspot
    n_asm, n_dir, n_stat, n_term = cfg['n_asm'], cfg['n_dir'], cfg['n_stat'], cfg['n_term']
    T_in = S.pos('T_in', 500.0, 700.0)
    dT = S.vec('dT', (n_asm, n_term), 'nonneg', 0.0, 200.0)
    IN = S.pos('IN_sigma', 1.0, 4.0)
    OUT = S.nonneg('OUT_sigma', 0.0, 4.0)
    nominal = np.array([[T_in + sum(dT[a, :j + 1]) for j in range(n_term)] for a in range(n_asm)],
                       dtype=object if S.mode == 'sym' else float)
    # all subfactors equal to one: nominal temperatures
    T1 = hotspot.calculate_temps(T_in, dT, _tables(S, n_asm, n_dir, n_stat, n_term, unity=True), IN_sigma=IN,
                                 OUT_sigma=OUT)
    S.eq('unity.nominal', T1, nominal)
    hcf = _tables(S, n_asm, n_dir, n_stat, n_term)
    T = hotspot.calculate_temps(T_in, dT, hcf, IN_sigma=IN, OUT_sigma=OUT)
    S.le('ge.nominal', nominal, T)
    # monotone in the output confidence level
    dO = S.nonneg('dOUT', 0.0, 2.0)
    T_hi = hotspot.calculate_temps(T_in, dT, hcf, IN_sigma=IN, OUT_sigma=OUT + dO)
    S.le('mono.out_sigma', T, T_hi)
    # statistical increment scales inversely with the stated input confidence level
    T0 = hotspot.calculate_temps(T_in, dT, hcf, IN_sigma=IN, OUT_sigma=0)
    IN2 = S.pos('IN_sigma2', 1.0, 4.0)
    T2 = hotspot.calculate_temps(T_in, dT, hcf, IN_sigma=IN2, OUT_sigma=OUT)
    S.eq('inv.in_sigma', (T - T0) * IN, (T2 - T0) * IN2)
    S.eq('zero_sigma.is_direct_only', T0, np.array(
        [[T_in + sum(dT[a, t] * _prod(hcf['direct'][a, :, t]) for t in range(j + 1)) for j in range(n_term)]
         for a in range(n_asm)], dtype=object if S.mode == 'sym' else float))
    # cumulative: each location adds (at least) its own rise
    for a in range(n_asm):
        for j in range(1, n_term):
            S.le(f'cumulative[{a},{j}]', dT[a, j], T[a, j] - T[a, j - 1])
    # the sequence is cumulative in the strict sense: what is reported for location j is what a calculation that stops at
    # location j reports - uncertainties of deeper locations (gap, fuel) do not leak into the coolant / clad values
    for j in range(n_term - 1):
        hj = {k: v[:, :, :j + 1] for k, v in hcf.items()}
        Tj = hotspot.calculate_temps(T_in, dT[:, :j + 1], hj, IN_sigma=IN, OUT_sigma=OUT)
        for a in range(n_asm):
            S.eq(f'cumulative.prefix_consistent[{a},{j}]', T[a, j], Tj[a, j])
    S.eq('canary.stat_independent_of_out_sigma', T, T0, canary=True)
temps.cname = 'hotspot.calculate_temps'
temps.run_kw = dict(budget_ms=10000)


def _prod(xs):
    r = 1
    for x in xs:
        r = r * x
    return r


class _Asm:
    def __init__(self, name, peak):
        self.name = name
        self._peak = peak
        self.id = 0


class _R:
    pass


def peak_dt(S, cfg):
    """the rises used are differences of the stored radial profile of the peak pin
    (columns 3.. of the row kept by Assembly._update_peak_pin_temps) above the inlet"""
    from dassh import hotspot
    value = cfg['value']
    T_in = S.pos('T_in', 500.0, 700.0)
    r = _R()
    r.inlet_temp = T_in
    idx = {'clad_od': 5, 'clad_mw': 6, 'clad_id': 7, 'fuel_od': 8, 'fuel_cl': 9}
    asms = []
    for a in range(2):
        row = list(S.vec(f'row{a}', 9, 'pos', 700.0, 1500.0))
        pk = {'cool': (S.pos(f'cool{a}', 700.0, 900.0), 1.0),
              'pin': {k: [row[i + 4], i + 4, list(row)] for i, k in enumerate(idx)}}
        asms.append(_Asm('fuel', pk))
    other = _Asm('refl', {'cool': (S.pos('cool_other', 700.0, 900.0), 1.0), 'pin': {}})
    r.assemblies = [asms[0], other, asms[1]]
    dt = hotspot._get_peak_dt(r, 'fuel', value)
    S.holds('dt.shape', dt.shape[0] == 2)
    for a in range(2):
        if value == 'coolant':
            S.eq(f'dt.telescopes[{a}]', sum(dt[a]), asms[a]._peak['cool'][0] - T_in)
        else:
            prof = asms[a]._peak['pin'][value][2]
            col = idx[value] - 1
            S.eq(f'dt.telescopes[{a}]', sum(dt[a]), prof[col] - T_in)
            S.eq(f'dt.first_is_coolant_rise[{a}]', dt[a][0], prof[3] - T_in)
            for j in range(1, dt.shape[1]):
                S.eq(f'dt.radial_step[{a},{j}]', dt[a][j], prof[3 + j] - prof[3 + j - 1])
    S.eq('canary.dt_from_other_assembly', sum(dt[0]), other._peak['cool'][0] - T_in, canary=True)
peak_dt.cname = 'hotspot._get_peak_dt'


def split_clad(S, cfg):
    from dassh import hotspot
    n_sf, n_col = cfg['n_sf'], cfg['n_col']
    subf = {'direct': S.vec('d', (n_sf, n_col), 'pos', 1.0, 1.3), 'statistical': S.vec('s', (n_sf, n_col), 'pos', 1.0, 1.3)}
    expr = {('direct', 0, 1): 'e1', ('direct', 0, 2): 'e2', ('statistical', 0, 3): 'e3'}
    new, enew = hotspot._split_clad_subfactors(subf, dict(expr))
    for k in subf:
        S.holds(f'split.shape[{k}]', new[k].shape == (n_sf, n_col + 1))
        S.eq(f'split.kept[{k}]', new[k][:, :3], subf[k][:, :3])
        S.eq(f'split.clad_duplicated[{k}]', new[k][:, 3], subf[k][:, 2])
        S.eq(f'split.shifted[{k}]', new[k][:, 4:], subf[k][:, 3:])
    S.holds('split.expr', enew == {('direct', 0, 1): 'e1', ('direct', 0, 2): 'e2', ('direct', 0, 3): 'e2',
                                   ('statistical', 0, 4): 'e3'})
    S.eq('canary.split_clad_not_duplicated', new['direct'][0, 3], subf['direct'][0, 3], canary=True)
split_clad.cname = 'hotspot._split_clad_subfactors'


def expand(S, cfg):
    from dassh import hotspot
    subf = {'direct': S.vec('d', (2, 3), 'pos', 1.0, 1.3), 'statistical': S.vec('s', (1, 3), 'pos', 1.0, 1.3)}
    dT = S.vec('dT', (2, 3), 'nonneg', 0.0, 200.0)
    orig = {k: v.copy() for k, v in subf.items()}
    out = hotspot._evaluate_hcf_expr(subf, {}, dT)
    for k in orig:
        for a in range(2):
            S.eq(f'expand.same_table_for_each_assembly[{k},{a}]', out[k][a], orig[k])
    S.eq('canary.expand_scaled', out['direct'][1], 2 * orig['direct'], canary=True)
expand.cname = 'hotspot._evaluate_hcf_expr'


def expand_expr(S, cfg):
    """tables with dT-dependent expressions, for a location that uses fewer columns than the table has: an expression in
    a used column is evaluated, per assembly, on that assembly's rise of that column; an expression in a column
    beyond the location's rises is not needed (the caller crops the column) and must not make the evaluation fail;
    every other entry is the table's. The user's expression itself (eval) is an uninterpreted function."""
    from dassh import hotspot
    from .common import patched
    n_used = cfg['n_used']                                 # number of temperature rises of the requested location
    subf = {'direct': S.vec('d', (2, 3), 'pos', 1.0, 1.3), 'statistical': S.vec('s', (1, 3), 'pos', 1.0, 1.3)}
    dT = S.vec('dT', (2, n_used), 'nonneg', 0.0, 200.0)
    orig = {k: v.copy() for k, v in subf.items()}
    g = S.function('user_expr', lambda x: 1.0 + x / 1000.0, sign='>0')
    # the clad split copies one expression text into two columns of a row (OD-MW and MW-ID): same text, own rise each
    exprs = {('direct', 0, 0): 'expr0', ('direct', 0, 1): 'expr0', ('direct', 1, 2): 'expr2', ('statistical', 0, 1): 'expr1',
             ('statistical', 0, 0): 'expr1'}
    seen = []

    def ev(expr, dT_col):
        seen.append(expr)
        return np.array([g(v) for v in dT_col], dtype=object if S.mode == 'sym' else float)
    with patched((hotspot, '_eval_expr', ev)):
        out = hotspot._evaluate_hcf_expr(subf, dict(exprs), dT)
    for k in orig:
        for a in range(2):
            for r in range(orig[k].shape[0]):
                for c in range(n_used):
                    if (k, r, c) in exprs:
                        S.eq(f'expr.evaluated_on_own_rise[{k},{a},{r},{c}]', out[k][a, r, c], g(dT[a, c]))
                    else:
                        S.eq(f'expr.other_entries_kept[{k},{a},{r},{c}]', out[k][a, r, c], orig[k][r, c])
    S.holds('expr.only_used_columns_evaluated', sorted(seen) == sorted(e for (k, r, c), e in exprs.items() if c < n_used))
    S.eq('canary.expr_ignored', out['direct'][0, 0, 0], orig['direct'][0, 0], canary=True)
expand_expr.cname = 'hotspot._evaluate_hcf_expr/expressions'


def analyze(S, cfg):
    """hotspot.analyze: every row of the result belongs to the assembly whose id stands next to it.
    Callees (their own contracts above) are stubbed by recorders: _get_peak_dt returns one recognisable row of
    rises per assembly of the type, calculate_temps returns T_in + OUT_sigma * dT + IN_sigma (row-wise), so that a
    row of the result identifies its assembly, its region and the options it was computed with."""
    from dassh import hotspot
    from .common import patched
    T_in = S.pos('T_in', 500.0, 700.0)
    names = cfg['names']                       # assembly type per core position, ids = positions
    types = sorted(set(names), key=names.index)
    if cfg.get('reverse_types'):
        types = types[::-1]
    regs = cfg.get('regions', ['coolant', 'clad_mw', 'fuel_cl'])
    r = _R()
    r.inlet_temp = T_in
    r.assemblies = []
    for i, nm in enumerate(names):
        a = _Asm(nm, None)
        a.id = i
        r.assemblies.append(a)
    if cfg.get('shuffled'):
        r.assemblies = r.assemblies[1::2] + r.assemblies[0::2]
    sig = {}
    r._options = {'hotspot': {}}
    for t in types:
        r._options['hotspot'][t] = {}
        for k in regs:
            if cfg.get('partial') and t == types[-1] and k == regs[-1]:
                continue
            sig[(t, k)] = (S.pos(f'in_sigma[{t},{k}]', 1.0, 4.0), S.nonneg(f'out_sigma[{t},{k}]', 0.0, 4.0))
            r._options['hotspot'][t][k] = {'subfactors': f'table:{t}:{k}', 'input_sigma': sig[(t, k)][0],
                                           'output_sigma': sig[(t, k)][1]}
    nterm = {'coolant': 1, 'clad_od': 2, 'clad_mw': 3, 'clad_id': 4, 'fuel_od': 5, 'fuel_cl': 6}
    rises = {}
    for a in r.assemblies:
        for k in regs:
            rises[(a.id, k)] = list(S.vec(f'dT[{a.id},{k}]', nterm[k], 'nonneg', 0.0, 200.0))

    def get_dt(r_obj, asm_name, k):
        rows = [rises[(a.id, k)] for a in r_obj.assemblies if a.name == asm_name]
        out = np.empty((len(rows), nterm[k]), dtype=object if S.mode == 'sym' else float)
        for i, row in enumerate(rows):
            for j, v in enumerate(row):
                out[i, j] = v
        return out

    def calc(T0, dT, subf, IN_sigma=3, OUT_sigma=2):
        return T0 + OUT_sigma * dT + IN_sigma

    def evaluate(subf, expr, dT):
        n = dT.shape[0]
        return {'direct': np.ones((n, 1, 8)), 'statistical': np.ones((n, 1, 8))}
    with patched((hotspot, '_get_peak_dt', get_dt), (hotspot, 'calculate_temps', calc),
                 (hotspot, '_read_hcf_table', lambda path, ncol: ({'path': path}, {})),
                 (hotspot, '_split_clad_subfactors', lambda subf, expr: (subf, expr)),
                 (hotspot, '_evaluate_hcf_expr', evaluate)):
        res = hotspot.analyze(r)
    S.holds('analyze.returns_tables', res is not None)
    temps_, ids = res
    for k in regs:
        want = [a.id for a in sorted(r.assemblies, key=lambda a: a.id)
                if a.name in r._options['hotspot'] and k in r._options['hotspot'][a.name]]
        S.holds(f'analyze.ids_sorted_and_complete[{k}]', list(ids.get(k, [])) == want)
        if not want:
            S.holds(f'analyze.no_table_without_input[{k}]', k not in temps_)
            continue
        S.holds(f'analyze.row_count[{k}]', temps_[k].shape == (len(want), nterm[k]))
        for i, aid in enumerate(want):
            t = names[aid]
            for j in range(nterm[k]):
                S.eq(f'analyze.row_belongs_to_its_id[{k},{i},{j}]', temps_[k][i, j],
                     T_in + sig[(t, k)][1] * rises[(aid, k)][j] + sig[(t, k)][0])
    k0 = regs[0]
    S.eq('canary.analyze_rows_equal', temps_[k0][1, 0], temps_[k0][0, 0], canary=True)
analyze.cname = 'hotspot.analyze'


def configs(tier):
    out = [(temps, dict(n_asm=1, n_dir=1, n_stat=1, n_term=1)),
           (temps, dict(n_asm=1, n_dir=2, n_stat=2, n_term=3)),
           (temps, dict(n_asm=2, n_dir=3, n_stat=1, n_term=2)),
           (peak_dt, dict(value='coolant')), (peak_dt, dict(value='clad_mw')), (peak_dt, dict(value='fuel_cl')),
           (split_clad, dict(n_sf=2, n_col=5)), (expand, dict()),
           (expand_expr, dict(n_used=1)), (expand_expr, dict(n_used=2)), (expand_expr, dict(n_used=3)),
           (analyze, dict(names=['fuel', 'blanket', 'fuel', 'blanket', 'fuel'])),
           (analyze, dict(names=['fuel', 'blanket', 'fuel', 'fuel', 'blanket', 'refl', 'fuel'], partial=True,
                          reverse_types=True)),
           (analyze, dict(names=['a', 'b', 'c', 'a', 'b', 'c', 'a'], shuffled=True, regions=['clad_od', 'fuel_od']))]
    # last sentence of the property: the rises come from the pin and height of the nominal peak - the contract on
    # Assembly._update_peak_pin_temps (shared with C15), whose stored profile is what _get_peak_dt takes its rises from
    from . import c15
    out.append((c15.pins, dict(n_pin=2, n_keys=2)))
    out.append((c15.step_glue, dict()))         # ... and that profile is recorded from THIS step's pin temperatures
    if tier == 'thorough':
        out += [(temps, dict(n_asm=2, n_dir=3, n_stat=2, n_term=5)), (peak_dt, dict(value='clad_id')),
                (peak_dt, dict(value='fuel_od')), (peak_dt, dict(value='clad_od'))]
    return out


def _builtin_case(args):
    name, loc = args
    import os
    sys.path.insert(0, os.environ.get('DASSH_REPO', '/repo'))
    from dassh import hotspot
    path = os.path.join(os.path.dirname(hotspot.__file__), 'data', f'hcf_{name}.csv')
    ncol = {'coolant': 1, 'clad_od': 2, 'clad_mw': 3, 'clad_id': 4, 'fuel_od': 5, 'fuel_cl': 6}[loc]
    rng = np.random.default_rng(19)
    dT = rng.uniform(5.0, 150.0, size=(3, ncol))
    T_in = 623.15
    try:
        def temps(i_s, o_s):
            subf, expr = hotspot._read_hcf_table(path, hotspot._COLS_NEEDED[loc])
            if loc in ('clad_id', 'fuel_od', 'fuel_cl'):
                subf, expr = hotspot._split_clad_subfactors(subf, expr)
            subf = hotspot._evaluate_hcf_expr(subf, expr, dT)
            for t in subf:
                subf[t] = subf[t][:, :, :dT.shape[1]]
            return np.asarray(hotspot.calculate_temps(T_in, dT, subf, IN_sigma=i_s, OUT_sigma=o_s), dtype=float)
        nominal = T_in + np.cumsum(dT, axis=1)
        bad = []
        for i_s in (1, 2, 3, 4):
            prev = None
            t0 = temps(i_s, 0)
            for o_s in (0, 1, 2, 3, 4):
                t = temps(i_s, o_s)
                if not np.all(np.isfinite(t)) or np.any(t < nominal - 1e-9):
                    bad.append(f'IN={i_s} OUT={o_s}: below nominal or not finite')
                if prev is not None and np.any(t < prev - 1e-9):
                    bad.append(f'IN={i_s}: decreases from OUT={o_s - 1} to {o_s}')
                if np.any(np.diff(t, axis=1) < -1e-9):
                    bad.append(f'IN={i_s} OUT={o_s}: sequence not cumulative')
                if o_s > 0:
                    ref = (temps(1, o_s) - temps(1, 0)) / i_s
                    if not np.allclose(t - t0, ref, rtol=1e-9, atol=1e-9):
                        bad.append(f'IN={i_s} OUT={o_s}: allowance not inversely proportional to the input sigma')
                prev = t
        return args, not bad, '; '.join(bad[:4])
    except SystemExit:
        return args, True, 'table has too few columns for this location: rejected with a message'
    except BaseException as e:
        return args, False, f'{type(e).__name__}: {e}'


def extra_checks(tier, seed):
    import multiprocessing as mp
    import time
    t0 = time.time()
    names = ['crbr_blanket_clad_mw', 'crbr_fuel_clad_mw', 'ebrii_markv_fuel_cl', 'fftf_clad_mw', 'fftf_fuel_cl']
    jobs = [(n, loc) for n in names for loc in ('coolant', 'clad_od', 'clad_mw', 'clad_id', 'fuel_od', 'fuel_cl')]
    with mp.get_context('fork').Pool(10) as pool:
        out = pool.map(_builtin_case, jobs, chunksize=2)
    secs = time.time() - t0
    results = []
    for (n, loc), ok, d in out:
        results.append(dict(name=f'runtime.builtin_table[{n},{loc}]', status='proved' if ok else 'refuted',
                            backend='bounded:run-time contract', seconds=secs / len(out), detail=d,
                            witness=dict(values=dict(table=n, location=loc)),
                            replay=dict(reproduced=not ok, point=dict(values=dict(table=n, location=loc)), native=d)))
    return [dict(name='built-in subfactor tables (run-time contracts)', results=results,
                 notes=['BOUNDED: runtime.builtin_table[*] on the five built-in tables'])]


def replay(doc):
    w = (doc.get('witness') or {}).get('values') or {}
    if 'table' in w:
        a, ok, d = _builtin_case((w['table'], w['location']))
        print('replay:', a, d)
        print('not reproduced' if ok else 'REPRODUCED')
        return 0 if ok else 1
    print(doc.get('verifier_output'))
    return 0
