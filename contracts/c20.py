"""C20 - orifice grouping partitions the assemblies; flow distribution conserves flow.

Functions under contract (dassh.orificing.Orificing): _check_new_group, _group (the
outer while loop is cut from the real source: body, suffix), distribute (its while
loop body and the statements after it), with _estimate_optvar as a dependency with
an assumed interface (returns one positive value per assembly).
"""
from __future__ import annotations
import numpy as np
from . import common
from pvc import core, loopcut
from pvc.core import Sym

MODULES = ['dassh.orificing']
PROPERTY = 'C20'
FUNCTIONS = ['dassh.orificing:Orificing._check_new_group', 'dassh.orificing:Orificing._group (loop body + suffix, cut)',
             'dassh.orificing:Orificing.distribute (loop body + suffix, cut)']
ASSUMPTIONS = ['division safety inside distribute (the update factor (group_max - t_in)/(avg_max - t_in) needs positive '
               'flows and estimates above the inlet temperature) is NOT checked: it concerns the quality of the iteration',
               '_estimate_optvar / np.interp (response curves) are dependencies: any positive estimate per assembly',
               'the grouping sweep is verified for ANY outcome of the cut-off test (the test is replaced by free booleans), '
               'so the partition/order facts do not depend on the powers; 4 assemblies / up to 4 groups enumerated']
NOT_DECIDED = ['convergence quality of the fixed-point iteration', 'the DASSH sub-runs driven by the optimiser (need flux files)']
BOUNDED = ['native examples of _group on concrete power lists (ties, clusters) - run-time contract, listed inputs only']


def _orif(S, n_groups, cutoff=None, delta=None):
    from dassh import orificing
    import dassh
    o = orificing.Orificing.__new__(orificing.Orificing)
    dassh.logged_class.LoggedClass.__init__(o, 0, 'dassh.Orificing')
    o.orifice_input = {'n_groups': n_groups,
                       'group_cutoff': cutoff if cutoff is not None else 0.05,
                       'group_cutoff_delta': delta if delta is not None else 0.001,
                       'pressure_drop_limit': None, 'bulk_coolant_temp': 800.0}
    return o


def check_new_group(S, cfg):
    from dassh import orificing
    n = cfg['n']
    grp = list(S.vec('g', n, 'pos', 1.0, 10.0))
    nxt = S.pos('next', 1.0, 10.0)
    delta = S.pos('delta', 0.01, 0.5)
    r = orificing.Orificing._check_new_group(list(grp), nxt, delta)
    vals = grp + [nxt]
    # spec: spread of the tentative group relative to its mean exceeds the cut-off
    mx, mn = vals[0], vals[0]
    for v in vals[1:]:
        mx = v if v > mx else mx
        mn = v if v < mn else mn
    spread_exceeds = (mx - mn) * len(vals) > delta * sum(vals)
    S.holds('check.is_spread_test', bool(spread_exceeds) == bool(r))
    S.holds('canary.check_always_new', bool(r), canary=True)
check_new_group.cname = 'Orificing._check_new_group'
check_new_group.run_kw = dict(max_paths=300, pool_size=12)


def group_body(S, cfg):
    """one iteration of the outer while loop of _group with the cut-off test replaced by free
    booleans: whatever the test answers, the groups are consecutive non-empty runs of the
    descending list covering every assembly exactly once"""
    from dassh import orificing
    n, n_groups = cfg['n'], cfg['n_groups']
    o = _orif(S, n_groups)
    decisions = []

    def free_check(group_param, next_param, cutoff):
        b = S.real(f'free{len(decisions)}', -1.0, 1.0) > 0 if S.mode == 'sym' else (S.real(f'free{len(decisions)}', -1.0, 1.0) > 0)
        decisions.append(bool(b))
        return decisions[-1]
    o._check_new_group = free_check
    vals = [10 * n - i for i in range(n)]           # strictly descending placeholders (values are irrelevant here)
    params = np.array([[i, vals[i]] for i in range(n)], dtype=object if S.mode == 'sym' else float)
    cut = loopcut.Cut(orificing.Orificing._group, 0, kind='While')
    cutoff0 = S.pos('cutoff', 0.01, 0.5)
    delta = S.pos('cutoff_delta', 0.001, 0.01)
    env = dict(self=o, params=params, cutoff=cutoff0, cutoff_delta=delta, n_grp=n_groups + 1, iter=0)
    S.note(f'loop cut from source: `{cut.source.splitlines()[0]}`; assigned in body: {cut.assigned}')
    cut.run_body(env)
    grp = env['grp_param']
    flat = [x for g in grp for x in g]
    S.holds('group.covers_all_in_order', flat == vals)
    S.holds('group.nonempty', all(len(g) > 0 for g in grp))
    S.holds('group.count_is_len', env['n_grp'] == len(grp) and env['iter'] == 1)
    S.holds('group.count_matches_decisions', len(grp) == 1 + sum(1 for d in decisions if d))
    # cut-off adaptation: moves towards the requested count
    if len(grp) > n_groups:
        S.lt('group.cutoff_relaxed_when_too_many', cutoff0, env['cutoff'])
    if len(grp) < n_groups:
        S.lt('group.cutoff_tightened_when_too_few', env['cutoff'], cutoff0)
    if len(grp) == n_groups:
        S.holds('group.loop_exits_on_success', not bool(cut.run_test(env)))
    S.holds('canary.group_single', len(grp) == 1, canary=True)
group_body.cname = 'Orificing._group/loop-body'
group_body.run_kw = dict(max_paths=300)


def group_prefix(S, cfg):
    """the statements of _group before the while loop, on arbitrary (unsorted, possibly nearly equal) parameters: what
    enters the loop is a permutation of the rows handed in - every assembly with its own value - in descending order of
    the parameter itself (exactly: values that differ by any amount are ordered), which is what the loop's contract
    assumes and what makes the groups ordered"""
    from dassh import orificing
    n = cfg['n']
    o = _orif(S, cfg.get('n_groups', 2))
    # any real values, any order; small mutual distances are not excluded
    vals = [S.pos(f'param[{i}]', 1e4, 1e6) for i in range(n)]
    if cfg.get('near'):
        # the second value lies within a small distance above the first (no lower bound on the distance)
        eps = S.pos('eps', 1e-7, 1e-4)
        vals[1] = vals[0] + eps
    params = np.array([[i, vals[i]] for i in range(n)], dtype=object if S.mode == 'sym' else float)
    cut = loopcut.Cut(orificing.Orificing._group, 0, kind='While')
    loc = cut.run_prefix(self=o, params=params)
    out = loc['params']
    S.holds('sort.shape_kept', tuple(out.shape) == (n, 2))
    ids = [int(out[k, 0]) for k in range(n)]
    S.holds('sort.permutation_of_assemblies', sorted(ids) == list(range(n)))
    for k in range(n):
        S.eq(f'sort.row_keeps_its_value[{k}]', out[k, 1], vals[ids[k]])
    for k in range(n - 1):
        S.le(f'sort.descending[{k}]', out[k + 1, 1], out[k, 1])
    S.holds('canary.sort_keeps_input_order', ids == list(range(n)), canary=True)
group_prefix.cname = 'Orificing._group/prefix'
group_prefix.run_kw = dict(max_paths=400, check_div=False)


def group_suffix(S, cfg):
    """the statements after the while loop, from every state in which the loop can stop:
    either exactly the requested number of groups is returned or the run stops with an error"""
    from dassh import orificing
    n, n_groups, n_grp = cfg['n'], cfg['n_groups'], cfg['n_grp']
    o = _orif(S, n_groups)
    cut = loopcut.Cut(orificing.Orificing._group, 0, kind='While')
    vals = [10.0 * n - i for i in range(n)]
    params = np.array([[i, vals[i]] for i in range(n)], dtype=float)
    # a partition of the n assemblies into n_grp consecutive groups
    sizes = [1] * (n_grp - 1) + [n - (n_grp - 1)]
    grp, k = [], 0
    for sz in sizes:
        grp.append(vals[k:k + sz])
        k += sz
    it = cfg['iter']
    env = dict(self=o, params=params, cutoff=0.05, cutoff_delta=0.001, n_grp=n_grp, iter=it, grp_param=grp,
               g=n_grp - 1, i=n - 1)
    stopped = not bool(cut.run_test(dict(env)))
    S.holds('suffix.state_is_a_loop_exit', stopped)
    try:
        out = cut.run_suffix(env)
        groups = len(set(float(x) for x in out[:, 2]))
        S.holds('group.n_groups_or_error', groups == n_groups)
        S.holds('group.partition_labels', [int(x) for x in out[:, 2]] == [i for i, g in enumerate(grp) for _ in g])
    except SystemExit:
        S.holds('group.n_groups_or_error', True)
    S.holds('canary.suffix_never_returns', False, canary=True)
group_suffix.cname = 'Orificing._group/suffix'


def distribute_body(S, cfg):
    """one iteration of the while loop of distribute from any state with conserved,
    group-uniform flows: conservation, uniformity and the pressure-drop limit are kept"""
    from dassh import orificing
    n_groups = cfg['n_groups']
    labels = cfg['labels']
    n = len(labels)
    o = _orif(S, n_groups)
    o.group_data = np.zeros((n, 3))
    o.group_data[:, 2] = labels
    o.t_in = S.pos('t_in', 600.0, 650.0)
    o._dp_limit = np.zeros(n_groups)
    types = cfg.get('types', [0] * n)        # assembly type of each assembly: each type has its own flow at the limit
    o._parametric = {'asm_ids': np.array([[i, types[i]] for i in range(n)]), 'data': []}
    # estimates of the optimisation variable (a peak temperature): above the inlet temperature
    exc = S.vec('optvar_excess', n, 'pos', 50.0, 250.0)
    est = np.array([o.t_in + e for e in exc], dtype=object if S.mode == 'sym' else float)
    o._estimate_optvar = lambda m, xy, res_prev, ratio: est
    m_total = S.pos('m_total', 50.0, 100.0)
    # state: group-uniform flows summing to m_total
    per_group = [S.pos(f'mg{g}', 1.0, 10.0) for g in range(n_groups - 1)]
    counts = [labels.count(g) for g in range(n_groups)]
    last = (m_total - sum(per_group[g] * counts[g] for g in range(n_groups - 1))) / counts[-1]
    m = np.array([per_group[l] if l < n_groups - 1 else last for l in labels], dtype=object if S.mode == 'sym' else float)
    d_optvar = S.vec('d_optvar', n_groups, 'pos', 0.8, 1.2)
    limited = cfg.get('limit', False)
    m_lim = None
    if limited:
        m_lim = np.array([S.pos('m_lim' if t == 0 else f'm_lim{t}', 5.0, 12.0) for t in range(max(types) + 1)],
                         dtype=object if S.mode == 'sym' else float)
    cut = loopcut.Cut(orificing.Orificing.distribute, 0, kind='While')
    S.note(f'loop cut from source: `{cut.source.splitlines()[0]}`')
    env = dict(self=o, m=m, m_total=m_total, m_lim=m_lim, d_optvar=d_optvar, xy=[], res_prev=None, ratio=1.0,
               convergence=2.0, iter=0, tol=1.0, iter_lim=50)
    cut.run_body(env)
    m2 = env['m']
    S.eq('distribute.mass', sum(m2), m_total)
    for g in range(n_groups):
        idx = [i for i, l in enumerate(labels) if l == g]
        for i in idx[1:]:
            S.eq(f'distribute.group_uniform[{g},{i}]', m2[i], m2[idx[0]])
    if limited:
        for i, l in enumerate(labels):
            if l < n_groups - 1:
                S.le(f'distribute.dp_limit[{i}]', m2[i], m_lim[types[i]])
            else:
                # the last group receives the remainder
                S.le(f'distribute.dp_limit_last_group[{i}]', m2[i], m_lim[types[i]])
    S.holds('distribute.iter_advances', env['iter'] == 1)
    S.eq('canary.mass_lost', sum(m2) + m2[0], m_total, canary=True)
distribute_body.cname = 'Orificing.distribute/loop-body'
distribute_body.run_kw = dict(max_paths=400, pool_size=10, check_div=False)


def distribute_suffix(S, cfg):
    """after the loop: a result is returned only if mass is conserved (to 1e-6), at most one group
    sits on the pressure-drop limit and the number of distinct flows equals the number of groups"""
    from dassh import orificing
    o = _orif(S, 2)
    o._dp_limit = np.array(cfg['dp_limit'], dtype=float)
    cut = loopcut.Cut(orificing.Orificing.distribute, 0, kind='While')
    m_total = 10.0
    m = np.array(cfg['m'], dtype=float)
    env = dict(self=o, m=m, m_total=m_total, group_max=np.array([800.0, 810.0]), m_lim=None, d_optvar=None, xy=[],
               res_prev=None, ratio=1.0, convergence=0.5, iter=3, tol=1.0, iter_lim=50, avg_max=805.0,
               group_total_fr=None, optvar=None, last_idx=None, m_remaining=0.0, t_out_prev=None, dp_limit=None)
    ok_expected = cfg['ok']
    try:
        out = cut.run_suffix(env)
        S.holds('distribute.returns_only_when_consistent', ok_expected)
        S.holds('distribute.returns_flows', list(out[0]) == list(m))
    except SystemExit:
        S.holds('distribute.returns_only_when_consistent', not ok_expected)
    S.holds('canary.suffix_trivial', False, canary=True)
distribute_suffix.cname = 'Orificing.distribute/suffix'


def distribute_prefix(S, cfg):
    """the total flow the distribution starts from: first pass - the flow that takes the total power at the bulk
    outlet temperature target (the real Q_equals_mCdT, recorded); later passes - the previous total rescaled so that
    m_new (T_target - T_in) = m_prev (T_out_prev - T_in)"""
    from dassh import orificing
    import dassh
    later = cfg.get('later', False)
    n = 4
    o = _orif(S, 2)
    o.t_in = S.pos('t_in', 600.0, 650.0)
    rise = S.pos('target_rise', 100.0, 200.0)
    o.orifice_input['bulk_coolant_temp'] = o.t_in + rise
    class _Coolant:
        # the shared coolant object in whatever state earlier calls left it: its current heat capacity is NOT the one
        # the energy balance over (t_in, target) needs - only Q_equals_mCdT evaluates that
        heat_capacity = S.pos('cp_as_left_behind', 1200.0, 1300.0)
        temperature = S.pos('T_as_left_behind', 300.0, 900.0)
    o.coolant = _Coolant()
    o.group_data = np.zeros((n, 3))
    o.group_data[:, 2] = [0, 0, 1, 1]
    o._power = np.array([[i, S.pos(f'P{i}', 1e5, 5e5)] for i in range(n)], dtype=object if S.mode == 'sym' else float)
    o._parametric = {'data': [], 'asm_ids': np.array([[i, 0] for i in range(n)])}
    o._calc_corrective_ratio = lambda xy, res_prev: 1.0
    rec = {}

    def q_equals(power, t_in, coolant, t_out=None, mfr=None):
        rec.update(power=power, t_in=t_in, t_out=t_out, m=S.pos('m_first_pass', 50.0, 500.0))
        return rec['m']
    cut = loopcut.Cut(orificing.Orificing.distribute, 0, kind='While')
    if later:
        flows = S.vec('m_prev', n, 'pos', 10.0, 50.0)
        res_prev = np.zeros((2 * n, 5), dtype=object if S.mode == 'sym' else float)
        for t in range(2):                       # two time points; the first one carries the flows that count
            for i in range(n):
                res_prev[t * n + i, 0] = t
                res_prev[t * n + i, 3] = flows[i] if t == 0 else flows[i] * 2
        t_out_prev = o.t_in + S.pos('prev_rise', 80.0, 220.0)
    else:
        res_prev, t_out_prev = None, None
    interp_calls = []
    if cfg.get('dp'):
        # a pressure-drop limit and TWO assembly types with their own response curves (flow column 2, pressure-drop
        # column 3, stored with descending flow): the limit of type i is read off type i's OWN curve
        o.orifice_input['pressure_drop_limit'] = 0.5
        curves = [np.array([[0.0, 0.0, 30.0 - 3.0 * k, (30.0 - 3.0 * k) ** 2 * 1.0e3] for k in range(8)]),
                  np.array([[0.0, 0.0, 24.0 - 2.0 * k, (24.0 - 2.0 * k) ** 2 * 2.5e3] for k in range(8)])]
        o._parametric['data'] = curves
        lims = [S.pos('m_lim_type0', 15.0, 25.0), S.pos('m_lim_type1', 8.0, 15.0)]

        real_np = orificing.np

        class _NP:
            def __getattr__(self, k):
                return getattr(real_np, k)

            def interp(self, x, xp, fp):
                which = [i for i, c in enumerate(curves) if np.array_equal(np.asarray(xp, dtype=float), c[:, 3][::-1])]
                interp_calls.append((x, np.asarray(xp, dtype=float), np.asarray(fp, dtype=float), which))
                return lims[which[0]] if which else S.pos('m_lim_unknown', 1.0, 2.0)

            def zeros(self, n, **k):
                z = np.zeros(n)
                return z.astype(object) if S.mode == 'sym' else z
    with common.patched((dassh, 'Q_equals_mCdT', q_equals), *([(orificing, 'np', _NP())] if cfg.get('dp') else [])):
        loc = cut.run_prefix(self=o, res_prev=res_prev, t_out_prev=t_out_prev)
    m_total = loc['m_total']
    if cfg.get('dp'):
        S.holds('prefix.one_limit_per_type', len(interp_calls) == 2 and [c[3] for c in interp_calls] == [[0], [1]])
        for i, c in enumerate(interp_calls[:2]):
            S.holds(f'prefix.limit_read_at_the_pressure_drop_limit[{i}]', float(c[0]) == 0.5e6)
            S.holds(f'prefix.limit_from_own_flow_column[{i}]', bool(np.array_equal(c[2], curves[i][:, 2][::-1])))
            S.holds(f'prefix.limit_from_own_pressure_column[{i}]', bool(np.array_equal(c[1], curves[i][:, 3][::-1])))
            S.eq(f'prefix.limit_of_type[{i}]', loc['m_lim'][i], lims[i])
    if later:
        S.eq('prefix.total_rescaled_by_temperature_rises', m_total * rise, sum(flows) * (t_out_prev - o.t_in))
        S.holds('prefix.no_first_pass_estimate', not rec)
    else:
        # the energy balance over (t_in, target) is the one Q_equals_mCdT evaluates (heat capacity at the mean
        # temperature); the total is its result, not a value built from the coolant's left-over state
        S.holds('prefix.first_pass_uses_power_and_target', bool(rec))
        if rec:
            S.eq('prefix.first_pass_power', rec['power'], sum(o._power[i, 1] for i in range(n)))
            S.eq('prefix.first_pass_inlet', rec['t_in'], o.t_in)
            S.eq('prefix.first_pass_target', rec['t_out'], o.orifice_input['bulk_coolant_temp'])
            S.eq('prefix.first_pass_total_is_the_energy_balance', m_total, rec['m'])
    # the loop starts from equal flows that sum to the total
    S.eq('prefix.initial_flows_sum_to_total', sum(loc['m']), m_total)
    if not cfg.get('dp'):
        S.holds('prefix.no_limit_without_input', loc['m_lim'] is None)
    S.eq('canary.prefix_total_is_one', m_total, 1 + 0 * m_total, canary=True)


distribute_prefix.cname = 'Orificing.distribute/prefix'
distribute_prefix.run_kw = dict(check_div=False)


def configs(tier):
    out = [(check_new_group, dict(n=2)),
           (group_prefix, dict(n=3)), (group_prefix, dict(n=3, near=True)),
           (group_body, dict(n=4, n_groups=2)), (group_body, dict(n=4, n_groups=3)),
           (group_suffix, dict(n=4, n_groups=3, n_grp=3, iter=5)),
           (group_suffix, dict(n=4, n_groups=3, n_grp=4, iter=1000)),
           (group_suffix, dict(n=4, n_groups=3, n_grp=2, iter=1000)),
           (group_suffix, dict(n=4, n_groups=3, n_grp=1, iter=1000)),
           (distribute_body, dict(n_groups=2, labels=[0, 0, 1])),
           (distribute_body, dict(n_groups=2, labels=[0, 0, 1], limit=True)),
           (distribute_body, dict(n_groups=3, labels=[0, 1, 1, 2])),
           (distribute_body, dict(n_groups=2, labels=[0, 0, 1], types=[0, 1, 0], limit=True)),
           (distribute_body, dict(n_groups=3, labels=[0, 0, 1, 1, 2], types=[1, 0, 0, 2, 1], limit=True)),
           (distribute_prefix, dict()), (distribute_prefix, dict(later=True)), (distribute_prefix, dict(dp=True)),
           (distribute_prefix, dict(later=True, dp=True)),
           (distribute_suffix, dict(m=[4.0, 4.0, 2.0], dp_limit=[0, 0], ok=True)),
           (distribute_suffix, dict(m=[6.0, 6.0, 3.0], dp_limit=[0, 0], ok=False)),
           (distribute_suffix, dict(m=[4.0, 4.0, 2.0], dp_limit=[1, 1], ok=False)),
           (distribute_suffix, dict(m=[4.0, 4.0, 2.0], dp_limit=[1, 0], ok=True)),
           (distribute_suffix, dict(m=[10.0 / 3, 10.0 / 3, 10.0 / 3], dp_limit=[0, 0], ok=False))]
    if tier == 'thorough':
        out += [(check_new_group, dict(n=3)), (group_body, dict(n=5, n_groups=4)),
                (distribute_body, dict(n_groups=3, labels=[0, 0, 1, 1, 2, 2], limit=True))]
    return out


# ---------------------------------------------------------------------------------------
def _native_group(powers, n_groups, cutoff=0.05, delta=0.001):
    from dassh import orificing
    import dassh
    o = orificing.Orificing.__new__(orificing.Orificing)
    dassh.logged_class.LoggedClass.__init__(o, 0, 'dassh.Orificing')
    o.orifice_input = {'n_groups': n_groups, 'group_cutoff': cutoff, 'group_cutoff_delta': delta}
    p = np.array([[i, v] for i, v in enumerate(powers)], dtype=float)
    try:
        out = o._group(p)
    except SystemExit:
        return 'error', None
    return 'ok', out


EXAMPLES = [([10.0, 10.0, 1.0], 3), ([5.0, 4.0, 3.0, 2.0, 1.0], 3), ([7.0, 7.0, 7.0, 7.0], 2),
            ([100.0, 99.0, 50.0, 49.0, 10.0, 9.0], 3), ([3.0, 2.0, 1.0], 1), ([8.0, 4.0, 2.0, 1.0], 4)]


def extra_checks(tier, seed):
    import time
    import logging
    logging.getLogger('dassh').setLevel(logging.CRITICAL)
    res = []
    for powers, ng in EXAMPLES:
        t0 = time.time()
        st, out = _native_group(powers, ng)
        ok, detail = True, ''
        if st == 'ok':
            labels = [int(x) for x in out[:, 2]]
            vals = [float(x) for x in out[:, 1]]
            n_found = len(set(labels))
            ordered = all(vals[i] >= vals[i + 1] for i in range(len(vals) - 1))
            mono = all(labels[i] <= labels[i + 1] for i in range(len(labels) - 1))
            ok = n_found == ng and ordered and mono and sorted(vals) == sorted(powers)
            detail = f'powers {powers}, {ng} groups requested -> labels {labels}'
        res.append(dict(name=f'group.native_example[{powers},{ng}]', status='proved' if ok else 'refuted',
                        backend='bounded:run-time contract', seconds=time.time() - t0, detail=detail,
                        witness=dict(values=dict(powers=powers, n_groups=ng)), sample=True,
                        replay=dict(reproduced=not ok, point=dict(values=dict(powers=powers, n_groups=ng)),
                                    native=detail)))
    return [dict(name='native grouping examples', results=res,
                 notes=['BOUNDED: Orificing._group is additionally run natively on the listed concrete power lists'])]


def replay(doc):
    w = (doc.get('witness') or {}).get('values') or {}
    if 'powers' in w:
        st, out = _native_group(w['powers'], w['n_groups'])
        if st == 'ok':
            labels = [int(x) for x in out[:, 2]]
            bad = len(set(labels)) != w['n_groups']
            print(f"replay: _group({w['powers']}, n_groups={w['n_groups']}) -> labels {labels}")
            print('REPRODUCED' if bad else 'not reproduced')
            return 1 if bad else 0
        print('replay: stopped with an error (allowed)')
        return 0
    print(doc.get('verifier_output'))
    return 0
