"""Shared scenario builders: real dassh objects whose numeric fields are atoms."""
from __future__ import annotations
import logging
import numpy as np
import dassh
from dassh import region_rodded, region_unrodded, material, pin, subchannel
from pvc import core
from pvc.core import Sym
from pvc.npshim import unshimmed

logging.getLogger('dassh').setLevel(logging.CRITICAL)

RR_MODULES = ['dassh.region_rodded', 'dassh.region', 'dassh.material']
_SQ3 = 3 ** 0.5


# ----------------------------------------------------------------------------
# materials: the REAL Material class, its property tables replaced by atoms
# ----------------------------------------------------------------------------
def make_material(S, name, props, tdep=False, T0=None):
    """real dassh.material.Material whose properties are positive atoms
    (tdep=False) or uninterpreted positive functions of temperature."""
    m = material.Material.__new__(material.Material)
    dassh.logged_class.LoggedClass.__init__(m, 0, f'dassh.Material.{name}')
    m._name = name
    m._data = {}
    defaults = dict(density=(800.0, 900.0), viscosity=(2e-4, 4e-4), heat_capacity=(1200.0, 1300.0),
                    thermal_conductivity=(20.0, 70.0))
    for p in props:
        lo, hi = defaults[p]
        if tdep:
            a = (lo + hi) / 2

            def impl(T, a=a):
                return a * (1.0 + 1e-4 * (T - 600.0))
            m._data[p] = S.function(f'{name}_{p}', impl, sign='>0')
        else:
            v = S.pos(f'{name}.{p}', lo, hi)
            m._data[p] = material._MatPoly([v])
    if T0 is None:
        T0 = S.pos(f'{name}.T0', 600.0, 700.0)
    m.update(T0)
    return m


# ----------------------------------------------------------------------------
# topology stub: PinLattice / Subchannel do not depend on the dimensions
# (hypothesis checked by C08's run-time contracts), so under proxies they are
# built by the real classes from nominal concrete dimensions.
# ----------------------------------------------------------------------------
_TOPO_CACHE = {}


def _nominal_dims(n_ring, n_duct):
    P, D = 0.01, 0.008
    inner = _SQ3 * (n_ring - 1) * P + D + 0.004
    ftf = []
    x = inner
    for i in range(n_duct):
        ftf.append([x, x + 0.004])
        x += 0.008
    return P, D, ftf


class TopoPinLattice:
    def __new__(cls, n_ring, pitch, diam):
        key = ('pl', n_ring)
        if key not in _TOPO_CACHE:
            P, D, _ = _nominal_dims(n_ring, 1)
            with unshimmed(['dassh.pin', 'dassh.subchannel']):
                _TOPO_CACHE[key] = pin.PinLattice(n_ring, P, D)
        return _TOPO_CACHE[key]


class TopoSubchannel:
    def __new__(cls, n_ring, pitch, diam, pmap, pxy, duct_ftf):
        n_duct = len(duct_ftf)
        key = ('sc', n_ring, n_duct)
        if key not in _TOPO_CACHE:
            P, D, ftf = _nominal_dims(n_ring, n_duct)
            with unshimmed(['dassh.pin', 'dassh.subchannel']):
                pl = pin.PinLattice(n_ring, P, D)
                _TOPO_CACHE[key] = subchannel.Subchannel(n_ring, P, D, pl.map, pl.xy, ftf)
        return _TOPO_CACHE[key]


class patched:
    """temporarily replace attributes of modules/objects"""

    def __init__(self, *triples):
        self.triples = triples

    _MISSING = object()

    def __enter__(self):
        self.saved = [(o, a, getattr(o, a, self._MISSING)) for o, a, _ in self.triples]
        for o, a, v in self.triples:
            setattr(o, a, v)

    def __exit__(self, *exc):
        for o, a, v in self.saved:
            if v is self._MISSING:
                delattr(o, a)
            else:
                setattr(o, a, v)


def bundle_dims(S, n_ring, n_duct, wire=True):
    """admissible bundle dimensions, parametrised by positive atoms so that every
    ordering precondition (P > D, ducts nested, pins fit) holds by construction"""
    D = S.pos('D', 0.005, 0.009)
    gap = S.pos('gap_pp', 0.0008, 0.002)          # P - D
    P = D + gap
    if wire:
        Dw = S.pos('Dw', 0.0005, 0.0008)
        Pw = S.pos('Pw', 0.15, 0.3)
    else:
        Dw, Pw = 0.0, 0.2
    clr = S.nonneg('clr', 0.0, 0.0005)            # clearance beyond D + 2 Dw
    sq3 = Sym(core.C(core.Q3(0, 1))) if S.mode == 'sym' else _SQ3
    inner = sq3 * (n_ring - 1) * P + D + 2 * Dw + clr
    ftf = []
    x = inner
    for i in range(n_duct):
        t = S.pos(f'wall{i}', 0.002, 0.004)
        ftf += [x, x + 2 * t]
        x = x + 2 * t
        if i < n_duct - 1:
            b = S.pos(f'bypgap{i}', 0.002, 0.004)
            x = x + 2 * b
    return dict(P=P, D=D, Pw=Pw, Dw=Dw, ftf=ftf)


def make_rodded(S, n_ring=2, n_duct=1, wire=True, tdep=False, wwdir='clockwise', se2=False,
                topo_stub=True, byp_stagnant=False, abstract_geometry=True):
    """REAL RoddedRegion.__init__ on atoms.  Correlations are not imported
    (ff/fs/mix None); their outputs are set by the scenarios as positive atoms."""
    dims = bundle_dims(S, n_ring, n_duct, wire)
    cool = make_material(S, 'cool', ['density', 'viscosity', 'heat_capacity', 'thermal_conductivity'], tdep)
    duct = make_material(S, 'duct', ['thermal_conductivity'], tdep)
    fr = S.pos('flow', 5.0, 30.0)
    byp_ff = None
    if n_duct > 1:
        if byp_stagnant:
            byp_ff = 0.0
        else:
            a = S.pos('bypfrac_a', 0.02, 0.1)      # fraction = a / (1 + a) in (0, 1)
            byp_ff = a / (1 + a)
    triples = []
    if topo_stub and S.mode == 'sym':
        triples = [(region_rodded, 'PinLattice', TopoPinLattice),
                   (region_rodded, 'Subchannel', TopoSubchannel)]
    if abstract_geometry:
        real_geom = region_rodded.calculate_geometry

        def geom_stub(*a, **k):
            return geometry_contract_stub(S, real_geom(*a, **k), a[1], a[6])
        triples.append((region_rodded, 'calculate_geometry', geom_stub))
    with patched(*triples):
        rr = region_rodded.RoddedRegion(
            'asm', n_ring, dims['P'], dims['D'], dims['Pw'], dims['Dw'], dims['D'] / 10,
            list(dims['ftf']), fr, cool, duct, None, None, None, None, 'DB', None,
            spacer_grid=None, byp_ff=byp_ff, byp_k=None, wwdir=wwdir, sf=S.pos('shape_factor', 0.8, 1.5), se2=se2)
    rr._dims = dims
    return rr


def geometry_relations(P, n_sc, g):
    """Derived entries of calculate_geometry's result as functions of its
    primitive entries.  Used twice: the stub rebuilds the derived entries from
    atoms (what a caller may assume), and the geometry contract (C08) proves
    that the REAL result satisfies every one of these relations."""
    n_duct = len(g['duct_params']['thickness'])
    thk = g['duct_params']['thickness']
    wc = g['d']['wcorner']
    rel = {}
    rel['L.1.1'] = P
    rel['L.1.0'] = g['L'][0][1]
    rel['L.2.1'] = g['L'][1][2]
    for i in range(n_duct):
        rel[f'duct.thickness.{i}'] = g['d']['wall'][i]
        rel[f'duct.area.{i}.0'] = P * thk[i]
        rel[f'duct.area.{i}.1'] = thk[i] * (wc[i][1] + wc[i][0])
        rel[f'duct.L/2.{i}'] = thk[i] / 2
        rel[f'duct.L^2/4.{i}'] = thk[i] * thk[i] / 4
        rel[f'duct.L^2/8.{i}'] = thk[i] * thk[i] / 8
        rel[f'duct.q_area.{i}.0'] = P * thk[i]
        rel[f'duct.q_area.{i}.1'] = 2 * thk[i] * wc[i][1]
    area = 0
    wp = 0
    for i in range(3):
        k = n_sc[i] if isinstance(n_sc[i], Sym) else int(n_sc[i])
        area = area + g['params']['area'][i] * k
        wp = wp + g['params']['wp'][i] * k
        rel[f'params.de.{i}'] = 4 * g['params']['area'][i] / g['params']['wp'][i]
    rel['bundle.area'] = area
    rel['bundle.wp'] = wp
    rel['bundle.de'] = 4 * area / wp
    if 'bypass_params' in g:
        for i in range(n_duct - 1):
            rel[f'L.5.5.{i}'] = P
            rel[f'L.6.5.{i}'] = g['L'][5][6][i]
            rel[f'byp.area.{i}.0'] = P * g['d']['bypass'][i]
            rel[f'byp.area.{i}.1'] = g['d']['bypass'][i] * (wc[i + 1][0] + wc[i][1])
            rel[f'byp.de.{i}.0'] = 2 * g['d']['bypass'][i]
            rel[f'byp.de.{i}.1'] = 2 * g['d']['bypass'][i]
    return rel


def geometry_get(g, key):
    """value of the derived entry `key` (as named by geometry_relations) in g"""
    k = key.split('.')
    if k[0] == 'L':
        v = g['L'][int(k[1])][int(k[2])]
        return v[int(k[3])] if len(k) > 3 else v
    if k[0] == 'duct':
        v = g['duct_params'][k[1]]
        for idx in k[2:]:
            v = v[int(idx)]
        return v
    if k[0] == 'params':
        return g['params'][k[1]][int(k[2])]
    if k[0] == 'bundle':
        return g['bundle_params'][k[1]]
    if k[0] == 'byp':
        return g['bypass_params'][k[1]][int(k[2])][int(k[3])]
    raise KeyError(key)


def geometry_set(g, key, val):
    k = key.split('.')
    if k[0] == 'L':
        if len(k) > 3:
            g['L'][int(k[1])][int(k[2])][int(k[3])] = val
        else:
            g['L'][int(k[1])][int(k[2])] = val
    elif k[0] == 'duct':
        if len(k) == 3:
            g['duct_params'][k[1]][int(k[2])] = val
        else:
            g['duct_params'][k[1]][int(k[2])][int(k[3])] = val
    elif k[0] == 'params':
        g['params'][k[1]][int(k[2])] = val
    elif k[0] == 'bundle':
        g['bundle_params'][k[1]] = val
    elif k[0] == 'byp':
        g['bypass_params'][k[1]][int(k[2])][int(k[3])] = val
    else:
        raise KeyError(key)


def geometry_contract_stub(S, g, P, n_sc):
    """What a caller may assume about calculate_geometry: opaque atoms for the
    primitive lengths/areas (flow areas and wetted perimeters positive by the
    region's validity precondition), and the derived entries rebuilt from those
    atoms by geometry_relations - exactly the facts the geometry contract proves."""
    if S.mode != 'sym':
        # native: only the validity preconditions are evaluated
        for key in ('params', 'bypass_params'):
            if key in g:
                for sub in ('area', 'wp', 'de', 'total area', 'total de'):
                    if sub in g[key] and not np.all(np.asarray(g[key][sub], dtype=float) > 0):
                        raise core.Reject(f'validity precondition {key}.{sub} > 0 false at sample')
        for key, val in geometry_relations(P, n_sc, g).items():
            S.eq(f'callee.calculate_geometry.{key}', geometry_get(g, key), val)
        return g
    # the facts handed to the caller are obligations on the real callee result in
    # every scenario that uses the stub (callee checked against its contract)
    for key, val in geometry_relations(P, n_sc, g).items():
        S.eq(f'callee.calculate_geometry.{key}', geometry_get(g, key), val)
    # L[6][5] is L[5][6] etc. are shared objects: unshare lists so that entries can be set
    if isinstance(g['L'][5][6], list):
        g['L'][6][5] = list(g['L'][5][6])
    for key in ('d', 'L', 'duct_params'):
        g[key] = S.abstract_tree(f'g.{key}', g[key])
    for key in ('params', 'bypass_params'):
        if key in g:
            for sub in g[key]:
                if sub == 'theta':
                    continue
                g[key][sub] = S.abstract_tree(f'g.{key}.{sub}', g[key][sub], kind='pos')
    g['edge_pitch'] = S.abstract('g.edge_pitch', g['edge_pitch'])
    for key, val in geometry_relations(P, n_sc, g).items():
        geometry_set(g, key, val)
    return g


def set_int_params(S, rr, conv_approx=False):
    """correlation outputs of the interior coolant: positive atoms (assumed
    contract of the correlation modules: finite and positive, see C12)"""
    rr.coolant_int_params['htc'] = S.vec('htc', 3, 'pos', 1e4, 1e5)
    rr.coolant_int_params['fs'] = S.vec('fs', 3, 'pos', 0.8, 1.2)
    rr.coolant_int_params['eddy'] = S.nonneg('eddy', 0.0, 1e-3)
    sw = S.nonneg('swirl', 0.0, 0.5)
    if S.mode == 'sym':
        rr.coolant_int_params['swirl'] = np.array([0, sw, sw], dtype=object)
    else:
        rr.coolant_int_params['swirl'] = np.array([0.0, sw, sw])
    rr._conv_approx = conv_approx
    if rr.n_bypass > 0:
        rr.coolant_byp_params['htc'] = S.vec('htc_byp', (rr.n_bypass, 2), 'pos', 1e4, 1e5)


def set_temps(S, rr, lo=600.0, hi=900.0):
    nd = rr.subchannel.n_sc['duct']['total']
    rr.temp['coolant_int'] = S.vec('Tc', rr.subchannel.n_sc['coolant']['total'], 'pos', lo, hi)
    rr.temp['duct_mw'] = S.vec('Tmw', (rr.n_duct, nd), 'pos', lo, hi)
    rr.temp['duct_surf'] = S.vec('Ts', (rr.n_duct, 2, nd), 'pos', lo, hi)
    if rr.n_bypass > 0:
        rr.temp['coolant_byp'] = S.vec('Tb', (rr.n_bypass, nd), 'pos', lo, hi)


UR_MODULES = ['dassh.region_unrodded', 'dassh.region', 'dassh.material', 'dassh.subchannel', 'dassh.pin']


def make_unrodded(S, model='simple', tdep=False, lowflow=False, mratio='atom', de_given=True, gravity=None):
    """REAL SingleNodeHomogeneous / MultiNodeHomogeneous constructor on atoms"""
    ftf_in = S.pos('ftf_in', 0.10, 0.12)
    thk = S.pos('wall', 0.002, 0.004)
    ftf = [ftf_in, ftf_in + 2 * thk]
    a = S.pos('vf_a', 0.2, 3.0)
    vf = a / (1 + a)                      # coolant volume fraction in (0, 1)
    cool = make_material(S, 'cool', ['density', 'viscosity', 'heat_capacity', 'thermal_conductivity'], tdep)
    duct = make_material(S, 'duct', ['thermal_conductivity'], tdep)
    fr = S.pos('flow', 5.0, 30.0)
    if mratio == 'atom':
        b = S.pos('cf_b', 0.1, 5.0)
        cf = 1 / (1 + b)                  # convection factor in (0, 1)
    else:
        cf = mratio
    cls = region_unrodded.SingleNodeHomogeneous if model == 'simple' else region_unrodded.MultiNodeHomogeneous
    de = S.pos('de', 0.003, 0.01) if de_given else 0.0
    kw = {} if gravity is None else dict(gravity=gravity)
    ur = cls('refl', 0.0, 1.0, ftf, vf, fr, cool, duct, None, eps=0.0, de=de,
             convection_factor=cf, rr_equiv=None, lowflow=lowflow, **kw)
    ur._ftf = ftf
    ur._cf = cf
    return ur
