/-
Ghost lemmas: the induction / composition steps that turn the per-step, per-cell and
per-generator contracts proved on the real code into the whole-sweep statements of the
properties.  They do not mention the code.  Checked by `lean` (Lean 4 + Mathlib) in the
thorough tier; scanned for sorry / axiom / admit.
-/
import Mathlib

namespace Ghost

open Finset

/-- C10: overlaps of one interval with a partition telescope to the interval's length
    (T = closed form of the partial sums; base and step are the SMT-proved facts). -/
theorem telescope (ov T : ℕ → ℝ) (n : ℕ) (h0 : T 0 = 0)
    (hs : ∀ k, k < n → T k + ov k = T (k + 1)) :
    (range n).sum ov = T n := by
  induction n with
  | zero => simp [h0]
  | succ m ih =>
    rw [sum_range_succ, ih (fun k hk => hs k (Nat.lt_succ_of_lt hk))]
    exact hs m (Nat.lt_succ_self m)

/-- C01 / C02 / C03: the per-step balance summed over the steps is the sweep balance. -/
theorem sweep_balance (rise heat out : ℕ → ℝ) (n : ℕ)
    (h : ∀ k, k < n → rise k = heat k - out k) :
    (range n).sum rise = (range n).sum heat - (range n).sum out := by
  rw [← sum_sub_distrib]
  exact sum_congr rfl (fun k hk => h k (mem_range.mp hk))

/-- C02: per-assembly balances summed over the assemblies plus the gap balance close the core balance. -/
theorem core_balance {ι : Type} (s : Finset ι) (rise heat out : ι → ℝ) (gap : ℝ)
    (ha : ∀ a ∈ s, rise a = heat a - out a) (hg : gap = s.sum out) :
    s.sum rise + gap = s.sum heat := by
  rw [hg, sum_congr rfl ha, sum_sub_distrib]
  ring

/-- C05: positive steps give a strictly increasing mesh. -/
theorem mesh_increasing (z d : ℕ → ℝ) (h : ∀ k, z (k + 1) = z k + d k) (hd : ∀ k, 0 < d k) :
    StrictMono z :=
  strictMono_nat_of_lt_succ (fun k => by rw [h k]; linarith [hd k])

/-- C15: a running maximum dominates every value seen so far. -/
theorem running_max_ge (x pk : ℕ → ℝ) (hstep : ∀ k, pk (k + 1) = max (pk k) (x k)) :
    ∀ n k, k < n → x k ≤ pk n := by
  intro n
  induction n with
  | zero => intro k hk; exact absurd hk (Nat.not_lt_zero k)
  | succ m ih =>
    intro k hk
    rw [hstep m]
    rcases Nat.lt_succ_iff_lt_or_eq.mp hk with h | h
    · exact le_trans (ih k h) (le_max_left _ _)
    · rw [h]; exact le_max_right _ _

/-- C15: the running maximum is attained (it is the initial value or one of the values seen). -/
theorem running_max_attained (x pk : ℕ → ℝ) (hstep : ∀ k, pk (k + 1) = max (pk k) (x k)) :
    ∀ n, pk n = pk 0 ∨ ∃ k, k < n ∧ pk n = x k := by
  intro n
  induction n with
  | zero => exact Or.inl rfl
  | succ m ih =>
    rw [hstep m]
    rcases max_choice (pk m) (x m) with h | h
    · rw [h]
      rcases ih with h0 | ⟨k, hk, hk'⟩
      · exact Or.inl h0
      · exact Or.inr ⟨k, Nat.lt_succ_of_lt hk, hk'⟩
    · rw [h]; exact Or.inr ⟨m, Nat.lt_succ_self m, rfl⟩

/-- C04: non-negative weights summing to one cannot produce a value below the smallest input
    (no new minimum; the maximum statement is symmetric). -/
theorem convex_lower {ι : Type} (s : Finset ι) (w x : ι → ℝ) (m : ℝ)
    (hw : ∀ i ∈ s, 0 ≤ w i) (hs : s.sum w = 1) (hx : ∀ i ∈ s, m ≤ x i) :
    m ≤ s.sum (fun i => w i * x i) := by
  calc m = s.sum (fun i => w i * m) := by rw [← sum_mul, hs, one_mul]
    _ ≤ s.sum (fun i => w i * x i) :=
        sum_le_sum (fun i hi => mul_le_mul_of_nonneg_left (hx i hi) (hw i hi))

theorem convex_upper {ι : Type} (s : Finset ι) (w x : ι → ℝ) (M : ℝ)
    (hw : ∀ i ∈ s, 0 ≤ w i) (hs : s.sum w = 1) (hx : ∀ i ∈ s, x i ≤ M) :
    s.sum (fun i => w i * x i) ≤ M := by
  calc s.sum (fun i => w i * x i) ≤ s.sum (fun i => w i * M) :=
        sum_le_sum (fun i hi => mul_le_mul_of_nonneg_left (hx i hi) (hw i hi))
    _ = M := by rw [← sum_mul, hs, one_mul]

/-- C04: the self weight 1 - dz * S stays non-negative for every step up to a limit with S * limit ≤ 1. -/
theorem diag_nonneg (S dz limit : ℝ) (hS : 0 ≤ S) (hdz : dz ≤ limit) (h : S * limit ≤ 1) :
    0 ≤ 1 - dz * S := by
  have : dz * S ≤ limit * S := mul_le_mul_of_nonneg_right hdz hS
  nlinarith [this, h]

/-- C07: a map that commutes with two transformations commutes with their composition
    (equivariance under the generators gives equivariance under the group). -/
theorem equivariant_comp {X : Type} (f g h : X → X) (hg : ∀ x, f (g x) = g (f x))
    (hh : ∀ x, f (h x) = h (f x)) : ∀ x, f (g (h x)) = g (h (f x)) := by
  intro x; rw [hg, hh]

/-- C07: equivariance of one step gives equivariance of any number of steps. -/
theorem equivariant_iterate {X : Type} (f g : X → X) (hg : ∀ x, f (g x) = g (f x)) :
    ∀ n x, f^[n] (g x) = g (f^[n] x) := by
  intro n
  induction n with
  | zero => intro x; rfl
  | succ m ih =>
    intro x
    simp only [Function.iterate_succ, Function.comp]
    rw [hg, ih]

/-- C10 / C02: reciprocity w_i F_ij = u_j G_ji makes the two ways of computing the exchanged heat equal. -/
theorem exchange {ι κ : Type} (I : Finset ι) (J : Finset κ) (w : ι → ℝ) (u : κ → ℝ)
    (F : ι → κ → ℝ) (G : κ → ι → ℝ) (h : κ → ℝ) (t : ι → ℝ)
    (hr : ∀ i ∈ I, ∀ j ∈ J, w i * F i j = u j * G j i) :
    I.sum (fun i => w i * (J.sum (fun j => F i j * h j)) * t i)
      = J.sum (fun j => u j * h j * (I.sum (fun i => G j i * t i))) := by
  simp only [mul_sum, sum_mul]
  rw [sum_comm]
  refine sum_congr rfl (fun j hj => sum_congr rfl (fun i hi => ?_))
  have := hr i hi j hj
  calc w i * (F i j * h j) * t i = (w i * F i j) * h j * t i := by ring
    _ = (u j * G j i) * h j * t i := by rw [this]
    _ = u j * h j * (G j i * t i) := by ring

end Ghost
