"""per-property MANIFEST entries (source of truth for tools_manifest.py)"""
_ASSUME = ('IEEE arithmetic treated as real arithmetic; material properties and correlation outputs are positive atoms '
           '(assumed contracts of dependencies); NumPy/CPython/sympy/z3 trusted; the pvc engine is guarded by native '
           'cross-checks and canaries on every run. ')
CLAIMED = {
 'C11': dict(category='proof',
   text='Post-conditions of the real RoddedRegion._calc_duct_temp (1-3 ducts, adiabatic or coupled, heated or not, '
        'per-cell or per-type gap film coefficient) and SingleNodeHomogeneous._calc_duct_temp (simple and six-node) '
        'are proved for ALL real temperatures, powers, film coefficients, conductivities and dimensions: inner and '
        'outer boundary conditions, wall energy balance, parabola relation, ordering without heating.',
   note=_ASSUME + 'Per enumerated configuration (ring count 2 quick / 2-4 thorough; the function has no control flow '
        'depending on the ring count). Flow areas > 0 is a validity precondition.',
   technique='contract-based deductive verification (proxy execution of the real function + exact normaliser / sign certificates / z3)'),
}
CLAIMED['C01'] = dict(category='proof',
   text='Energy identities of the real kernels are proved for ALL real temperatures, powers, flows, film coefficients, '
        'properties and (through the geometry contract) dimensions: pin-bundle interior kernel (mass-flow weighted enthalpy '
        'rise = pin + coolant heating + wall heat, wall heat being the same boundary flux C11 proves for the wall; '
        'conduction, mixing and swirl cancel), flowing bypass kernel, single-node and six-node kernels, the tallies, '
        'mass-flow weights, and mixed-mean carry-over across region changes (with and without bypass gaps).',
   note=_ASSUME + 'Proved per enumerated configuration (ring counts 2,3 quick / 2-6 thorough, 1-3 ducts, low-flow '
        'approximation on/off, both wire directions, power components present/absent). Geometry enters through its '
        'contract; its facts are re-proved as callee obligations in every scenario. Not decided: first-order shrinkage of '
        'the property-lag residual with the step size.',
   technique='contract-based deductive verification (proxy execution of the real kernels + exact affine/rational normaliser)')
CLAIMED['C08'] = dict(category='proof',
   text='calculate_geometry is proved, with the ring count a symbolic integer and all dimensions real, to tile the inner '
        'hexagon (flow areas + pins + wires), every duct and bypass annulus and the perimeters, and to satisfy every '
        'relation its callers assume. Topology (buildable, symmetric adjacency, neighbour counts, duct/bypass rings, pin '
        'fractions summing to one, inverse incidence, centroid distances, six-fold symmetry, independence of dimensions) is '
        'checked by run-time contracts on the real constructors, exhaustively for ring counts 2..20 x 1..3 ducts.',
   note=_ASSUME + 'The topology half is a BOUNDED stand-in (exhaustive over the range the property states, not a proof '
        'for all ring counts); pi is an uninterpreted constant.',
   technique='contract-based deductive verification for geometry (symbolic ring count); bounded run-time contracts for integer topology')
CLAIMED['C04'] = dict(category='proof',
   text='Each real update kernel (pin-bundle interior incl. the composite wall-solve+update for adiabatic walls, flowing '
        'and stagnant bypass, single-node and six-node regions) is decomposed exactly into weights on the previous-level '
        'temperatures: weights sum to one, off-diagonal and heating weights are >= 0, and the self weight is 1 - dz*S with '
        'S*limit_class <= 1 for the limit the REAL step-limit functions (_calculate_int_dz, _calculate_byp_dz, '
        'region_unrodded.calculate_min_dz, all _cons*) compute for that cell\'s neighbour class; the returned limit is <= '
        'every class limit. With the arithmetic lemma this gives non-negative weights for every dz <= limit, for all real '
        'inputs. Inter-assembly gap: the flowing-gap update of the real Core._flow_model on the topology of loaded cores '
        'is exactly a combination with off-diagonal weights >= 0 and self weight 1 - dz S_i, and S_i x (the candidate '
        'limit core.calculate_min_dz hands to min() for cell i) <= 1 at both temperatures; the no-flow and duct-average '
        'models return convex combinations of the adjacent duct-wall (and neighbouring gap) temperatures. The bundle- and '
        'assembly-level calculate_min_dz return the minimum of the interior and bypass limits at both temperatures and of '
        'all axial regions (<= each, equal to one of them) and restore the coolant state.',
   note=_ASSUME + 'Enumerated ring counts 2,3,4 cover every neighbour class the code distinguishes (7-pin special cases, '
        '19-pin, >19-pin); constant properties within a step. Not decided: the limit for temperature-dependent coolants '
        'is evaluated at the two end temperatures only.',
   technique='contract-based deductive verification (exact affine decomposition of the real kernels + normaliser / sign certificates / z3)')
CLAIMED['C14'] = dict(category='proof',
   text='Post-conditions of the real pressure-drop methods for all real inputs: friction and gravity increments equal '
        'the closed forms f dz rho v^2/(2 De) and rho g dz, are non-negative and additive in dz (hence step-size '
        'independent), the region total is the sum of its parts and only grows, a spacer grid anywhere in two consecutive '
        'steps (za, zb], (zb, zc] - including exactly on the plane zb - is charged exactly once; two grids listed in either order are '
        'each charged once by the real calculate_pressure_drop - also when both lie in one step, at one position, or on the lower '
        'bound of the bundle in its first step or on its upper bound in its last step. The planes are integer multiples of the '
        '1e-12 m raster and the position and step handed to the region carry a bounded floating-point drift (assumed below a '
        'quarter raster unit); grids lie anywhere and are read on the raster. The step that ends on a plane belongs to the '
        'region below it also when the region bound carries unit-conversion noise of either sign. The real '
        'PressureDropTable.make prints the assembly total, friction and gravity summed over all regions, the bundle\'s grid '
        'losses and one column per region, and the parts as well as the regions add up to the total. The assembly total '
        'accumulates a finished region exactly once across a region change.',
   note=_ASSUME + 'Friction factor, velocity and density are the static values held by the region (positive atoms).',
   technique='contract-based deductive verification (proxy execution, path enumeration over the grid comparisons, exact normaliser)')
CLAIMED['C15'] = dict(category='proof',
   text='The running-maximum updates of the real Assembly methods are proved as fold steps for arbitrary real '
        'temperatures on every comparison path: new peak is attained and bounds the old peak and all cells, the height '
        'changes iff the old peak is strictly exceeded, region duct d of n writes entry len-n+d and nothing else, and '
        'the stored pin profile is the complete row (with this plane\'s z) of a pin attaining the new peak, owned by the peak record. '
        'The real CoolantTempTable.make, DuctTempTable.make and PeakPinTempTable.make are run on a reactor whose assemblies '
        'answer with distinct atoms and their printed cells are read back: bulk outlet = mixed-mean outlet temperature, peak '
        'outlet = maximum of the final-plane interior field, peak and height = the running peak; one duct row per duct of '
        'the last region with that duct\'s faces, peak and height; the pin, height and radial profile stored with the peak '
        'of the requested location, that pin\'s linear power there, hot-spot values by assembly id; in the requested units. '
        'Bounded: the duct temperature table lists, for each duct it shows, the peak of that duct (4 generated problems).',
   note=_ASSUME + 'Small array sizes (3 cells, 2-3 pins, 1-3 ducts) - the methods use only max/argmax over the arrays; '
        'the whole-sweep claim is the induction over steps (Lean lemmas running_max_ge / running_max_attained, thorough tier). '
        'The rounding of printed numbers to two decimals and the other printed tables are not decided.',
   technique='contract-based deductive verification (proxy execution with exhaustive path enumeration over comparisons)')
CLAIMED['C05'] = dict(category='proof',
   text='The real mesh construction is verified with all lengths on the 1e-12 m rounding grid (integer atoms, np.around and '
        'np.floor as integer atoms with their defining inequalities): boundaries are merged to a strictly increasing grid '
        'sequence ending at the core length; one iteration of the while loop of _setup_zpts (cut mechanically from the '
        'source) from ANY grid state below L makes strict progress of at least one grid unit, never skips a boundary, never '
        'passes L, returns a step <= the required step; the required step is exactly: a request <= the smallest limit (floored '
        'to the micrometre) is honoured, a larger one ignored, no request gives min(limit, 1 cm); it is >= one grid unit or the '
        'construction stops with an error; boundaries are collected from every assembly\'s power mesh; each assembly\'s '
        'limit is the minimum over its axial regions, each asked at the inlet and the estimated outlet temperature '
        '(contract on the real assembly.calculate_min_dz, shared with C04).',
   note=_ASSUME + 'Real-arithmetic model of rounding (ties unspecified). Boundary counts 2-3 quick / up to 5 thorough (the '
        'loop body only tests each boundary independently). Termination and exact-on-boundaries are the induction over '
        'iterations of the proved step facts (variant: grid points in (z, L]).',
   technique='contract-based deductive verification (loop cut from the real source, loop-body VCs over mixed integer/real linear arithmetic, z3)')
CLAIMED['C17'] = dict(category='proof',
   text='All scalar converters are proved to be mutually inverse over the reals with the defining factors (inch, foot, '
        'Celsius, Fahrenheit, minute, hour), and for a schema-shaped input whose every numeric leaf is a distinct symbolic '
        'value the real reader functions (convert_assn_deltaT_to_outletT, convert_units -> convert_temperature / '
        'convert_length / convert_mass_flow_rate) are proved to apply the converter exactly once to every length, '
        'temperature, temperature-difference and flow-rate leaf of every section and to leave every other leaf unchanged, '
        'without raising, for every unit combination (quick: 9 combinations covering every unit; thorough: all 90); the same on the '
        'Assignment section as the real parser builds it from multi-position lines; defaults the reader fills in (dump interval) '
        'are the same in every unit system and no dimensional key has a dimensional default in input_template.txt.',
   note=_ASSUME + 'The dimension table (which key is a length / temperature / flow) is ours, written from the property '
        'statement and input_template.txt. Output-side conversions are not decided.',
   technique='contract-based deductive verification (proxy execution of the real reader functions on a symbolic input tree, exact normaliser)')
CLAIMED['C19'] = dict(category='proof',
   text='For the real hotspot.calculate_temps with symbolic rises, subfactors (1 + non-negative excess), sigma levels and '
        'inlet temperature: unit subfactors give exactly the nominal cumulative temperatures; with factors >= 1 the result '
        'is >= nominal, non-decreasing in the output sigma, its statistical increment times the input sigma is independent '
        'of the input sigma, each location adds at least its own rise (square-root monotonicity certificate), and the sequence '
        'is cumulative in the strict sense: column j equals the result of the calculation that stops at location j. '
        '_get_peak_dt is proved to return the telescoping differences of the stored peak-pin profile above the inlet, '
        '_split_clad_subfactors to duplicate the clad column and shift the later ones; analyze keeps every row with its assembly id; '
        'the profile the rises are read from is the row of the peak pin at the peak height (contract on '
        'Assembly._update_peak_pin_temps, shared with C15).',
   note=_ASSUME + 'Precondition IN_sigma > 0. Sizes 1-2 assemblies x 1-3 subfactors x 1-5 terms. eval() expressions and CSV '
        'parsing are not decided symbolically; the five built-in tables are run through the real reader as a BOUNDED run-time contract.',
   technique='contract-based deductive verification (proxy execution, exact normaliser with sqrt relations, sign certificates)')
CLAIMED['C20'] = dict(category='proof',
   text='Orificing._check_new_group is proved to be the spread test; the statements of _group before its loop turn arbitrary '
        '(also nearly equal) parameters into the same rows in exactly descending order; one iteration of the grouping loop (cut from the real '
        'source) is proved, for ANY outcome of the cut-off test, to split the descending list into consecutive non-empty '
        'groups covering every assembly once and to move the cut-off towards the requested count; the code after the loop '
        'returns exactly the requested number of groups or stops with an error from every loop-exit state. One iteration of '
        'the flow redistribution loop conserves the total flow, keeps group members equal and keeps groups 0..N-2 within '
        'the pressure-drop limit (per assembly type); the code after it returns only a conserved, consistent allocation. The code '
        'before the loop starts from the flow that removes the total power at the target outlet temperature (first pass) or '
        'from the previous total rescaled by the ratio of temperature rises (later passes).',
   note=_ASSUME + 'Response-curve interpolation is a dependency (any positive estimates). 4-6 assemblies, 2-4 groups '
        'enumerated. Known finding: the last group is not limited by the pressure-drop limit. Native grouping examples are '
        'a bounded supplement.',
   technique='contract-based deductive verification (loops cut from the real source; body/suffix executed on proxies with free decision variables)')
CLAIMED['C16'] = dict(category='proof',
   text='Frame contract readonly(dassh_input.data) on Reactor.__init__, _run_dassh, run_dassh, Orificing._get_power and on '
        'every dassh function they (transitively) hand an input-derived reference to: a taint-based frame analyser over '
        'the AST of the real sources proves, function by function, that no statement stores through a reference derived '
        'from the parsed input, including references that escaped into object attributes (self.<path>) and are written '
        'by other methods later. Every finding is replayed by run-time frame contracts on the real constructors (deep '
        'comparison before/after construction and sweep, second construction bitwise identical) on generated problems. '
        'Ghost file system around the real Reactor._data_setup + _data_open (one unconstrained boolean per possibly existing '
        'file): every dump file later opened for append is absent when set-up returns, nothing else is removed. '
        'RoddedRegion._update_coolant_int_params + _MatTracker: the reference state of the property tracker is the state of '
        'the last parameter calculation (never the construction-time state of the shared input material), and parameters '
        'are recalculated iff a property moved by more than the tolerance. Real check_parallel + __main__.run_dassh with a ghost '
        'process pool and a recording worker (1-4 time points, serial / parallel, symbolic worker count): every time point is '
        'handed exactly once to the same worker function with the same input object and arguments and its own directory; a '
        'pool is used only for several time points and more than one worker; every asynchronous result is awaited.',
   note='Analyser assumptions (listed in the evidence): over-approximate call resolution, unresolved library calls assumed '
        'non-mutating, complete-copy detection uses a run-time type probe on sample inputs. The run-time contracts and the '
        'serial=parallel comparison are BOUNDED. Bitwise identity across processes / file-system layout not decided.',
   technique='contract-based verification of frame conditions (static effect analysis of the real sources) + bounded run-time frame contracts')
CLAIMED['C06'] = dict(category='proof',
   text='Ownership contract on every clone method (Assembly, RoddedRegion, SingleNodeHomogeneous, MultiNodeHomogeneous, '
        '_RREquivalent, Material): the attributes a clone still shares with its template (computed from the AST of the '
        'real clone methods and of the set-up methods they call on the clone) are disjoint from the attributes whose '
        'object the sweep methods modify in place (stores below the attribute, mutator calls, calls of dassh methods that '
        'assign attributes of their own object); no module-level state is written. Hence advancing one assembly cannot '
        'change what another one reads. Metamorphic run-time contracts (alone = in company, order independence) on '
        'generated adiabatic cores with temperature-dependent sodium replay every finding.',
   note='Attribute-level, syntactic effect analysis (assumptions in the evidence); shared read-only structures are allowed. '
        'The metamorphic run-time contracts are BOUNDED (four generated cores). Cross-talk through the inter-assembly gap '
        'is intended and belongs to C02.',
   technique='contract-based verification of ownership/frame conditions (static effect analysis of the real clone and sweep methods) + bounded metamorphic run-time contracts')
CLAIMED['C13'] = dict(category='proof',
   text='With constant conductivities the real PinModel.calculate_temperatures (solid and annular pellets, real radial '
        'geometry from PinModel.__init__) is run to completion on symbolic inputs and proved: film drop = q\'/(2 pi r_o h), '
        'clad drops = q\' ln(r_o/r)/(2 pi k), closed gap, fuel shells sum of q\'\'\'(r_o^2-r_i^2)/(4k), ordering coolant <= '
        '... <= centre line, zero power gives the coolant temperature everywhere, monotone in power. With conductivities '
        'as uninterpreted positive functions of temperature each of the three iteration loops is cut from the source and '
        'ONE arbitrary iteration proved to re-establish the conduction relation with k averaged over the two iterates '
        '(clad, gap with radiation term, each fuel shell), and the iteration limit raises an error. The coolant temperature '
        'handed to each pin is the average of ALL its adjacent subchannels weighted by the share of its circumference facing '
        'each; the stages of calculate_temperatures are chained on the right temperatures (clad from the coolant, gap from the '
        'clad inner wall, fuel from the fuel surface); the emissivity of the gap radiation is the one handed to the real '
        'PinModel.__init__ (zero included: then the iterate is pure conduction), 0.9 only when none is given.',
   note=_ASSUME + 'log/sqrt handled by monotonicity certificates; the exit-state argument (iterates within atol) is the '
        'stated loop contract. Ring counts 2,3 (4 thorough) for the coolant weights.',
   technique='contract-based deductive verification (proxy execution, loops cut from the real source, exact normaliser, monotone-function certificates)')
CLAIMED['C12'] = dict(category='proof',
   text='For the real Cheng-Todreas (CTD/UCTD) constant flow splits built by the real calc_constants / '
        '_calc_regime_ratio_constants / _calc_constant_flowsplits and the real friction_ctd._calc_cfb, with geometry through '
        'its contract and fitted constants as positive atoms: mass conservation, positivity, equal subchannel pressure '
        'gradients Cf x^(2-m) De^-(1+m) in laminar (m=1) and turbulent (m=0.18) flow, and equality with the bundle gradient '
        'Cf_b De_b^-(1+m) - proved with exact power-law algebra over rational exponents. NOV and MIT splits: mass '
        'conservation and positivity. The transition / spacer-grid iteration (_iterate, loop cut from the source): every '
        'returned triple conserves mass, is positive and equalises friction+grid gradients, and the friction terms of the '
        'iteration are those of the true subchannel Reynolds numbers (only the intermittency factor is clipped to [0,1]); '
        'the set-up functions hand the iteration the regime-boundary quantities of the paper; _calc_ffb_tr is positive with '
        'the right limits; subchannel mass flows are area share x split. Bounded: all 120 accepted correlation triples x 7 '
        'Reynolds numbers incl. regime boundaries x spacer grid on/off evaluate without exception, conserve mass, give '
        'positive finite friction and non-negative finite mixing parameters.',
   note=_ASSUME + 'Float exponents are read as exact ratios (59/91 etc.). Known finding (open): with a spacer-grid correlation the '
        'CTD split iteration does not converge within about 5 % of the laminar boundary and set-up aborts (StopIteration); '
        'listed by its six failing points of the bounded family total.grid_split_near_laminar_boundary[*]. '
        'The total.evaluates[*] and total.grid_split_near_laminar_boundary[*] obligations are BOUNDED '
        'run-time contracts; SE2 symbolically and convergence of the iteration are not decided.',
   technique='contract-based deductive verification (proxy execution, generalised-monomial normaliser with rational exponents, loop cut from source) + bounded run-time contracts')
CLAIMED['C10'] = dict(category='proof',
   text='The nested loops of the real _map_asm2gap are cut from the source and verified with arrays of SYMBOLIC length '
        '(contents = uninterpreted strictly increasing functions): loop invariant established / preserved / sufficient, '
        'every array index in bounds, all stores in the current row, variant decreasing; so every entry of the overlap '
        'matrix is the length of the intersection of the two cells, for every mesh size and every real boundary value. A '
        'ghost lemma (telescoping step) gives row sums = duct cell widths and column sums = gap cell widths. The rest of '
        'the real function (normalisation, merge of the split corner, trimming, zero padding, identity shortcut) is '
        'executed on symbolic boundary values at fixed small sizes, all interleavings of the two meshes: weights >= 0, '
        'unit row sums in both directions, the perimeter-weighted integral is preserved in both directions (also with '
        'corner halves of different length), coinciding meshes give the identity. The producers of the two meshes '
        '(RoddedRegion/unrodded calculate_xbnds, Core._calculate_gap_xbnds) satisfy the preconditions.',
   note=_ASSUME + 'The post-loop part is proved per size (2-4 duct cells x 2-5 gap cells: BOUNDED in the number of cells, '
        'exact in the values) and checked by run-time contracts on reactor-built maps for ring counts 2..15 x 2..15 '
        '(quick tier: 6 x 6 subset), unequal pitches, unrodded regions, double ducts, empty positions (BOUNDED). '
        'numpy.searchsorted has an assumed contract. Meshes that coincide only within numpy.allclose tolerance are '
        'mapped by the identity, i.e. conservative to that tolerance.',
   technique='contract-based deductive verification: loop invariants over symbolic-length arrays (VCs from the real loop '
             'bodies, z3 with uninterpreted functions + linear integer/real arithmetic), proxy execution of the whole '
             'function at fixed sizes; bounded run-time contracts for reactor-built meshes')
CLAIMED['C03'] = dict(category='proof',
   text='For all real step sizes, power-cell sizes and polynomial coefficients (positive on the cells): the sum over the '
        'axial steps of step length x the linear power the real get_power_sweep returns after the real presweep_setup '
        'equals the sum over the power cells of cell length x average linear power, for pin-bundle bounds aligned with '
        'the power cells or falling inside one; _integrate returns the analytic cell integral for 1-4 polynomial terms and '
        'any subset of components; Reactor._setup_scale_asm_power scales every total, profile and average profile of '
        'every assembly by the same factor and the totals sum to requested power x scaling factor (normalisation on / '
        'off, empty positions); the real Reactor._setup_asm_power assigns a user-power assembly the integral of its cell '
        'averages over power cells of unequal (symbolic) widths and the core their sum; AssemblyPower.__init__ applies its '
        'scale to every profile.',
   note=_ASSUME + 'Enumerated structures: 1-3 power cells, 1-3 steps per cell, 1-3 polynomial terms in the sweep identity '
        '(the code has no other size dependence). Preconditions: mesh planes on every power-cell boundary and bundle '
        'bound (C05), positive linear power (input check; negative values are clipped by the sweep). Bounded run-time '
        'contracts on ten generated problems tie Assembly._power_delivered and Assembly.total_power to an independent '
        'integration of the CSV and check that temperature rises are linear in the scaling factor for constant '
        'properties. Not decided: binary-flux (VARPOW) power.',
   technique='contract-based deductive verification (proxy execution of the real AssemblyPower methods, exact rational '
             'normaliser, path enumeration); bounded run-time contracts for the Assembly tally and CSV parsing')
CLAIMED['C09'] = dict(category='proof',
   text='The real Core.load is executed on symbolic dimensions (outer flat-to-flat, assembly pitch, pin pitches) for '
        'enumerated layouts and mesh-type assignments; proved for ALL real dimensions: the gap cells around every assembly '
        'cover its duct perimeter exactly once with positive widths, both assemblies of a shared side see the pitch, '
        'corner length and cell count of the finer mesh, a shared edge cell has the same width from both sides, the total '
        'flow area equals a closed form computed from an independent hexagonal-grid model of the layout (so it cannot '
        'depend on the meshes), areas are positive, the flow is split in proportion to the area and sums to the gap flow, '
        'centroid distances and conduction constants are symmetric, convection constants are the cell widths. The integer '
        'topology (cell count, 1-3 bordering assemblies as in the independent model, count-once indexing, adjacency = '
        'geometric adjacency, symmetric cell adjacency, reversed traversal for the neighbour) is checked by run-time '
        'contracts on all 127 subsets of the 7-position core x 6 type assignments and on random subsets of 19 / 37 positions.',
   note=_ASSUME + 'Layout space: the deductive part is per enumerated layout (9 quick / 11 thorough); the topology part is a '
        'BOUNDED stand-in (exhaustive for 7 positions as the property states, sampled beyond). Gap film coefficients are '
        'positive atoms.',
   technique='contract-based deductive verification of Core.load on symbolic dimensions (proxy execution, exact normaliser, '
             'z3) against an independent layout model; bounded run-time contracts for the integer topology')
CLAIMED['C02'] = dict(category='proof',
   text='Chain of contracts on the real code, all real temperatures, powers, film coefficients, properties and (through '
        'the geometry contracts) dimensions: (1) one axial step of RoddedRegion.calculate (1-3 ducts) and of the single-node '
        'region: enthalpy rise of all coolant of the region = step x heating - Q_out with Q_out = sum over the outer duct '
        'cells of step x face width x h_gap x (new outer surface temperature - gap temperature); 0 with the adiabatic '
        'option; for six-node regions the same with the one-level lag the model builds in; the outer faces are the cells of '
        'calculate_xbnds. (2) Reactor.axial_step / _calculate_asm_temperatures hand the region the h-weighted gap '
        'temperature and the mapped film coefficient, and the gap model the mapped outer surface temperature, of the active '
        'region; nothing with the adiabatic option. (3) exchange lemma on the real maps of _map_asm2gap: Q_out computed on '
        'the duct mesh equals the heat credited on the gap mesh, for unequal meshes and unequal corner halves. (4) '
        'Core.calculate_gap_temperatures on the topology of really loaded cores: ebal[asm] grows by exactly those credits, '
        'the enthalpy rise of every gap cell is its credits plus conduction, conduction sums to zero.',
   note=_ASSUME + 'Per enumerated configuration (ring counts 2-3, 1-3 ducts, map sizes 2-3 x 2-4 cells, four core '
        'layouts); constant properties within a step; gap_step uses the facts C09 proves about Core.load as assumed '
        'contract (cell widths, symmetric conduction constants, positive flows). Summation over steps and assemblies is '
        'the meta-argument; bounded run-time contracts check the closure of the core balance (1e-10), per-assembly '
        'agreement of assembly side and gap credit (1e-9) and the adiabatic case on eight generated 7-position cores. '
        'No-flow and duct-average gap models are excluded by the property.',
   technique='contract-based deductive verification (proxy execution of the real region / reactor / core methods, exact '
             'affine normaliser); bounded run-time contracts for the whole-sweep closure')
CLAIMED['C07'] = dict(category='proof',
   text='For the generators of the symmetry group (rotation by 60 degrees; mirror with the wire-wrap direction reversed) '
        'the real RoddedRegion.calculate (interior kernel with conduction, mixing and swirl, wall solve, bypass gaps, pin '
        'power partition; 1-2 ducts, ring counts 2-3, both wire directions) and the six-node region satisfy '
        'result(g.X) = g.result(X) for ALL real states X (temperatures, powers, gap boundary values, film coefficients, '
        'properties, dimensions), with the cell permutations derived from the published centroid coordinates. A negative '
        'control proves that the mirrored state without reversing the wire is NOT the mirror image (edge cells) while '
        'interior cells do not feel the wire direction.',
   note=_ASSUME + 'Per enumerated ring / duct count (2-3 quick, 2-4 thorough). Whole-assembly and whole-core equivariance '
        '(7 and 19 positions, all three gap models, two assembly types, per-assembly power maps turned with the core) are '
        'BOUNDED metamorphic run-time contracts on nine generated problems; for them the relative sense of position and '
        'cell numbering is taken as the one for which the identity holds. Errors that are themselves symmetric (e.g. a '
        'uniform index shift) are invisible to this property by nature (C02 / C10 cover them).',
   technique='contract-based deductive verification (relational post-condition on two proxy executions of the real region '
             'methods, exact affine normaliser); bounded metamorphic run-time contracts for whole problems')
CLAIMED['C18'] = dict(category='proof',
   text='The real semantic checks check_pin, check_duct, check_core_specifications and check_unrodded_regions are executed '
        'on data dictionaries whose numeric entries are unconstrained real atoms (only the bounds ConfigObj itself '
        'enforces are assumed); rejection is the SystemExit outcome of a path. On EVERY accepted path the validity predicate '
        'of the property is proved: positive dimensions, pitch >= diameter, clad <= radius, wire <= gap and a pitch for '
        'every wire, bundle fits in every duct, walls of non-zero thickness inside the assembly pitch, equal outer ducts, '
        'non-negative bypass fraction, flowing gap only with gap flow, axial regions of positive height inside the core, no '
        'overlap, coolant in every region, exactly one pin-bundle region of positive height with the stored bounds, regions '
        '+ bundle tile the core. The boundary condition of an assigned position goes through '
        'check_assignment_boundary_conditions and convert_assn_deltaT_to_outletT in the order the real constructor calls '
        'them (read from its AST on every run): accepted only with exactly one keyword, a positive value, an outlet '
        'temperature above the inlet temperature; what the solver gets is a flow rate or outlet = inlet + rise. '
        'Each contract demands at least one accepted and one rejected path.',
   note=_ASSUME + 'Numeric keys only; 1-2 assemblies, 1-2 ducts, 1-2 axial regions (3 in the thorough tier). The other '
        'half of the property - every class of bad input ends in a logged error before the sweep, every accepted input '
        'can be set up and swept - is a BOUNDED run-time contract: 64 single-fault perturbations across the input keys '
        'and the power file, and 9 valid variants, of a generated two-type core, each classified as rejected / accepted '
        'and swept / unhandled exception / hang / non-finite result in a subprocess.',
   technique='contract-based deductive verification of the input checks (proxy execution on unconstrained atoms, path '
             'enumeration with SystemExit as rejection, z3 linear real arithmetic); bounded run-time contracts for the '
             'outcome class of whole inputs')
NOT_APPLICABLE = {f'C{i:02d}': 'check not built yet in this round (see DESIGN.md section 12 build order)' for i in range(1, 21)}
