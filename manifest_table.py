"""per-property MANIFEST entries (source of truth for tools_manifest.py)"""
_ASSUME = ('IEEE arithmetic treated as real arithmetic; material properties and correlation outputs are positive atoms '
           '(assumed contracts of dependencies); NumPy/CPython/sympy/z3 trusted; the pvc engine is guarded by native '
           'cross-checks and canaries on every run. ')
CLAIMED = {
 'C11': dict(category='proof',
   text='Post-conditions of the real RoddedRegion._calc_duct_temp (1-3 ducts, adiabatic or coupled, heated or not, '
        'per-cell or per-type gap film coefficient) and SingleNodeHomogeneous._calc_duct_temp (simple and six-node) '
        'are proved for ALL real temperatures, powers, film coefficients, conductivities and dimensions: inner and '
        'outer boundary conditions, wall energy balance, parabola relation, ordering without heating.',
   note=_ASSUME + 'Per enumerated configuration (ring count 2 quick / 2-4 thorough; the function has no control flow '
        'depending on the ring count). Flow areas > 0 is a validity precondition.',
   technique='contract-based deductive verification (proxy execution of the real function + exact normaliser / sign certificates / z3)'),
}
NOT_APPLICABLE = {f'C{i:02d}': 'check not built yet in this round (see DESIGN.md section 12 build order)' for i in range(1, 21)}
