"""Arrays of SYMBOLIC length for loop contracts on array code.

SymArr    1-D read-only array a[0..len-1] with a[i] = f(i), f an uninterpreted
          function (the array contents are arbitrary: a counter-model of the
          solver IS a concrete array).  Every read generates an index-in-bounds
          obligation with Python's negative-index semantics.
GhostMat  2-D array being written by the code under contract.  The verification
          condition is stated for ONE generic entry (i0, j0) (skolemised forall):
          a store to (i, j) updates the tracked value when (i, j) = (i0, j0) - the
          comparison is decided by the path controller, so both cases are explored.
searchsorted  contract of numpy.searchsorted(a, v, side='left') on a strictly
          increasing array: the result k satisfies 0 <= k <= len,
          a[k-1] < v (k > 0) and v <= a[k] (k < len).  (assumed contract of the
          dependency; numpy itself is executed in native mode.)
"""
from __future__ import annotations
from . import core
from .core import Sym, SymBool


def _is_sym(x):
    return isinstance(x, Sym)


class SymArr:
    def __init__(self, S, name, f, length, last=None):
        self.S, self.name, self.f, self.length, self.last = S, name, f, length, last
        self.reads = 0
        self.index_terms = []

    @property
    def shape(self):
        return (self.length,)

    def at(self, i):
        """spec-level element (no obligation): a[i] for 0 <= i < len"""
        if self.last is not None:
            if i == self.length - 1:
                return self.last
        return self.f(i)

    def _norm(self, i, what):
        self.reads += 1
        L = self.length
        self.S.holds(f'index.{self.name}.{what}#{self.reads}.lower', i >= -L)
        self.S.holds(f'index.{self.name}.{what}#{self.reads}.upper', i < L)
        if i < 0:
            i = i + L
        return i

    def __getitem__(self, i):
        if isinstance(i, (slice, tuple)):
            raise core.EngineLimit('SymArr: only scalar indexing is modelled')
        i = self._norm(i, 'read')
        self.index_terms.append(i)
        return self.at(i)

    def _pvc_searchsorted(self, v, side='left'):
        if side not in ('left', 'right'):
            raise core.EngineLimit(f'searchsorted contract: side={side!r}')
        S = self.S
        vid = core.lift(v).id
        k = S.int(f'searchsorted[{self.name},{vid},{side}]', 0, 12)
        S.assume(k <= self.length, 'searchsorted result <= len')
        if side == 'left':
            # a[k-1] < v  when k > 0 ;  v <= a[k]  when k < len
            S.assume((k <= 0) | (self.at_total(k - 1) < v), 'searchsorted: left neighbour below')
            S.assume((k >= self.length) | (v <= self.at_total(k)), 'searchsorted: right neighbour not below')
        else:
            S.assume((k <= 0) | (self.at_total(k - 1) <= v), 'searchsorted(right): left neighbour not above')
            S.assume((k >= self.length) | (v < self.at_total(k)), 'searchsorted(right): right neighbour above')
        self.index_terms += [k - 1, k]
        return k

    def at_total(self, i):
        """element as a total term (no branching): used inside assumed facts"""
        if self.last is not None:
            # a[len-1] is `last`: the fact is stated for the function f with f(len-1) == last assumed separately
            pass
        return self.f(i)


class GhostMat:
    def __init__(self, S, name, shape, i0, j0, value):
        self.S, self.name, self.shape = S, name, shape
        self.i0, self.j0, self.value = i0, j0, value
        self.stores = 0
        self.rows = []

    def __setitem__(self, key, v):
        i, j = key
        self.stores += 1
        R, C = self.shape
        t = f'index.{self.name}.store#{self.stores}'
        self.S.holds(t + '.row_lower', i >= -R)
        self.S.holds(t + '.row_upper', i < R)
        self.S.holds(t + '.col_lower', j >= -C)
        self.S.holds(t + '.col_upper', j < C)
        if i < 0:
            i = i + R
        if j < 0:
            j = j + C
        self.rows.append(i)
        if i == self.i0:
            if j == self.j0:
                self.value = v

    def __getitem__(self, key):
        raise core.EngineLimit('GhostMat: the code under contract reads the matrix it is building')


def monotone_instances(S, f, terms, what):
    """instances of  forall a < b: f(a) < f(b)  at the given index terms (sound: a subset of the
    instances of an assumed precondition)"""
    seen = []
    for t in terms:
        tid = core.lift(t).id
        if all(tid != core.lift(u).id for u in seen):
            seen.append(t)
    for a in seen:
        for b in seen:
            if core.lift(a).id == core.lift(b).id:
                continue
            c = a < b
            if isinstance(c, SymBool):
                S.assume((a >= b) | (f(a) < f(b)), f'{what} strictly increasing')
            elif c:
                S.assume(f(a) < f(b), f'{what} strictly increasing')


import numpy as _np


class MaskArr(_np.ndarray):
    """object array whose comparison with a number yields a BOOLEAN mask (each element
    comparison is decided by the path controller), so that `a[a > 0]` works on symbolic data"""

    def _mask(self, o, op):
        out = _np.zeros(self.shape, dtype=bool)
        for idx in _np.ndindex(self.shape):
            x = _np.ndarray.__getitem__(self, idx)
            out[idx] = bool(getattr(x, op)(o)) if isinstance(x, Sym) else bool(getattr(float(x), op)(o))
        return out

    def __gt__(self, o):
        return self._mask(o, '__gt__')

    def __lt__(self, o):
        return self._mask(o, '__lt__')

    def __ge__(self, o):
        return self._mask(o, '__ge__')

    def __le__(self, o):
        return self._mask(o, '__le__')


def mask_array(values):
    a = _np.empty(len(values), dtype=object)
    for i, v in enumerate(values):
        a[i] = v
    return a.view(MaskArr)
