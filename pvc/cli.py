"""command line: ./check Cxx [--tier quick|thorough] [--replay file] [--update-ledger]"""
import argparse
import json
import os
import sys
import traceback

ROOT = os.path.dirname(os.path.dirname(os.path.abspath(__file__)))
sys.path.insert(0, ROOT)


def main():
    ap = argparse.ArgumentParser()
    ap.add_argument('prop')
    ap.add_argument('--tier', default=os.environ.get('VERIF_TIER', 'quick'))
    ap.add_argument('--replay')
    ap.add_argument('--update-ledger', action='store_true')
    ap.add_argument('--jobs', type=int, default=None)
    a = ap.parse_args()
    seed = int(os.environ.get('VERIF_SEED', '0') or 0)
    from pvc import driver
    if a.replay:
        sys.exit(driver.replay(a.replay))
    prop = a.prop.upper()
    modname = f'contracts.{prop.lower()}'
    try:
        code, names = driver.run_property(prop, modname, a.tier, seed, jobs=a.jobs)
    except Exception:
        traceback.print_exc()
        print(f'CHECKER-FAULT property={prop} :: driver crashed')
        sys.exit(3)
    if a.update_ledger:
        # read-modify-write under a lock, replaced atomically: several checks may update their own entry at once
        import fcntl
        path = os.path.join(ROOT, 'ledger.json')
        with open(path + '.lock', 'w') as lk:
            fcntl.flock(lk, fcntl.LOCK_EX)
            led = {}
            if os.path.exists(path):
                with open(path) as f:
                    led = json.load(f)
            led[f'{prop}:{a.tier}'] = driver.ledger_names(names)
            tmp = path + f'.tmp{os.getpid()}'
            with open(tmp, 'w') as f:
                json.dump(led, f, indent=0, sort_keys=True)
            os.replace(tmp, path)
        print(f'ledger updated: {len(driver.ledger_names(names))} obligation names for {prop}:{a.tier}')
    sys.exit(code)


if __name__ == '__main__':
    main()
