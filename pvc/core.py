"""PVC core: expression DAG, number proxies (Sym/SymBool) and the path controller.

The real dassh functions are executed by CPython on `Sym` objects; every
arithmetic operation builds a node of a hash-consed DAG, every comparison asks
the path controller.  Nothing here knows about dassh.
"""
from __future__ import annotations
import math
import random
import time
from fractions import Fraction

SQRT3F = math.sqrt(3.0)


class EngineLimit(Exception):
    """The engine cannot represent what the code asked for (never a verdict)."""


class Reject(Exception):
    """A sample does not satisfy the scenario's preconditions (native mode)."""


# ----------------------------------------------------------------------------
# Constants live in Q(sqrt 3): a + b*sqrt(3), a, b rational
# ----------------------------------------------------------------------------
class Q3:
    __slots__ = ('a', 'b')

    def __init__(self, a=0, b=0):
        self.a = Fraction(a)
        self.b = Fraction(b)

    def __add__(self, o):
        return Q3(self.a + o.a, self.b + o.b)

    def __sub__(self, o):
        return Q3(self.a - o.a, self.b - o.b)

    def __mul__(self, o):
        return Q3(self.a * o.a + 3 * self.b * o.b, self.a * o.b + self.b * o.a)

    def __neg__(self):
        return Q3(-self.a, -self.b)

    def inv(self):
        d = self.a * self.a - 3 * self.b * self.b
        if d == 0:
            raise ZeroDivisionError('Q3 inverse of zero')
        return Q3(self.a / d, -self.b / d)

    def __eq__(self, o):
        return isinstance(o, Q3) and self.a == o.a and self.b == o.b

    def __hash__(self):
        return hash((self.a, self.b))

    def is_zero(self):
        return self.a == 0 and self.b == 0

    def is_one(self):
        return self.a == 1 and self.b == 0

    def is_rational(self):
        return self.b == 0

    def __float__(self):
        return float(self.a) + float(self.b) * SQRT3F

    def sign(self):
        """exact sign of a + b sqrt3"""
        a, b = self.a, self.b
        if b == 0:
            return (a > 0) - (a < 0)
        if a == 0:
            return (b > 0) - (b < 0)
        if a > 0 and b > 0:
            return 1
        if a < 0 and b < 0:
            return -1
        # opposite signs: compare a^2 with 3 b^2
        d = a * a - 3 * b * b
        if a > 0:   # b < 0: positive iff a^2 > 3b^2
            return 1 if d > 0 else -1
        return 1 if d < 0 else -1

    def __repr__(self):
        if self.b == 0:
            return str(self.a)
        if self.a == 0:
            return f'{self.b}*sqrt3'
        return f'({self.a}+{self.b}*sqrt3)'


_SNAP_DEN = (3, 6, 7, 9, 11, 12, 13, 24)


def lift_float(x: float) -> Q3:
    """Exact constant for a float literal / module constant.

    Shortest decimal repr, except values within 1e-13 (relative) of k/n for the
    listed n or of (p/q)*sqrt3 with small p, q: those are read as the closed form.
    """
    x = float(x)          # numpy scalars print as 'np.float64(...)'
    if x != x or x in (float('inf'), float('-inf')):
        raise EngineLimit(f'non-finite constant {x!r}')
    if x == int(x) and abs(x) < 1e15:
        return Q3(int(x))
    r = repr(x)
    digits = len(r.replace('-', '').replace('.', '').lstrip('0').split('e')[0])
    if digits >= 13:
        for n in _SNAP_DEN:
            k = round(x * n)
            if k != 0 and abs(x - k / n) <= 1e-13 * abs(x):
                SNAPS.add((r, f'{k}/{n}'))
                return Q3(Fraction(k, n))
        y = x / SQRT3F
        for q in (1, 2, 3, 4, 6, 8, 12):
            p = round(y * q)
            if p != 0 and abs(p) <= 48 and abs(y - p / q) <= 1e-13 * abs(y):
                SNAPS.add((r, f'{p}/{q}*sqrt3'))
                return Q3(0, Fraction(p, q))
        y = x / math.pi
        for q in (1, 2, 3, 4, 6, 8, 12, 24):
            p = round(y * q)
            if p != 0 and abs(p) <= 48 and abs(y - p / q) <= 1e-13 * abs(y):
                SNAPS.add((r, f'{p}/{q}*pi'))
                return ('pi', Fraction(p, q))
    return Q3(Fraction(r))


SNAPS = set()


# ----------------------------------------------------------------------------
# DAG nodes
# ----------------------------------------------------------------------------
class Node:
    __slots__ = ('op', 'args', 'val', 'id', '__weakref__')

    def __repr__(self):
        return show(self)


class Context:
    """All per-run state: node table, atoms, assumptions, side obligations."""

    def __init__(self, seed=0):
        self.table = {}
        self.nodes = []
        self.atoms = {}      # name -> dict(kind, lo, hi, defn)
        self.assume = []     # boolean nodes (preconditions)
        self.div_obl = []    # (denominator node, pc snapshot)
        # name -> python callable (for numeric evaluation); elementary functions built in
        self.fn_impl = {'log': math.log, 'log10': math.log10, 'exp': math.exp, 'sin': math.sin, 'cos': math.cos,
                        'tan': math.tan, 'arccos': math.acos, 'arcsin': math.asin, 'arctan': math.atan,
                        'pow': lambda a, b: a ** b}
        self.seed = seed
        self.sqrt_cache = {}
        self.fresh_n = 0

    def mk(self, op, args=(), val=None):
        key = (op, tuple(a.id for a in args), val)
        n = self.table.get(key)
        if n is None:
            n = Node()
            n.op, n.args, n.val, n.id = op, tuple(args), val, len(self.nodes)
            self.nodes.append(n)
            self.table[key] = n
        return n

    def const(self, q):
        if not isinstance(q, Q3):
            q = Q3(q)
        return self.mk('c', (), q)

    def var(self, name, kind='real', lo=None, hi=None, defn=None):
        if name not in self.atoms:
            self.atoms[name] = dict(kind=kind, lo=lo, hi=hi, defn=defn)
        return self.mk('v', (), name)

    def fresh(self, base, **kw):
        self.fresh_n += 1
        return self.var(f'{base}#{self.fresh_n}', **kw)


CTX: Context = None


def new_context(seed=0):
    global CTX
    CTX = Context(seed)
    return CTX


def C(x):
    return CTX.const(x)


def is_const(n):
    return n.op == 'c'


def add(a, b):
    if is_const(a) and is_const(b):
        return C(a.val + b.val)
    if is_const(a) and a.val.is_zero():
        return b
    if is_const(b) and b.val.is_zero():
        return a
    return CTX.mk('+', (a, b))


def neg(a):
    if is_const(a):
        return C(-a.val)
    return mul(C(-1), a)


def sub(a, b):
    if a is b:
        return C(0)
    return add(a, neg(b))


def mul(a, b):
    if is_const(a) and is_const(b):
        return C(a.val * b.val)
    if is_const(a):
        if a.val.is_zero():
            return a
        if a.val.is_one():
            return b
        if b.op == '*' and is_const(b.args[0]):
            return mul(C(a.val * b.args[0].val), b.args[1])
        return CTX.mk('*', (a, b))
    if is_const(b):
        return mul(b, a)
    if a.id > b.id:
        a, b = b, a
    return CTX.mk('*', (a, b))


def div(a, b):
    if is_const(b):
        if b.val.is_zero():
            raise ZeroDivisionError('division by constant zero')
        return mul(C(b.val.inv()), a)
    if CTRL is not None:
        CTRL.note_division(b)
    if a is b:
        return C(1)
    if is_const(a) and a.val.is_zero():
        return a
    return CTX.mk('/', (a, b))


def powi(a, n: int):
    if n == 0:
        return C(1)
    if n < 0:
        return div(C(1), powi(a, -n))
    if n == 1:
        return a
    if is_const(a):
        r = Q3(1)
        for _ in range(n):
            r = r * a.val
        return C(r)
    return CTX.mk('^', (a,), n)


def rpow(a, e: Fraction):
    """a ** e, e a non-integer rational; a must be positive (recorded)."""
    if e.denominator == 1:
        return powi(a, int(e))
    if is_const(a) and a.val.is_one():
        return a
    return CTX.mk('rpow', (a,), e)


def fn(name, *args):
    return CTX.mk('fn', tuple(args), name)


def sqrt_node(x):
    if is_const(x):
        v = x.val
        if v.is_rational() and v.a >= 0:
            num, den = v.a.numerator, v.a.denominator
            rn, rd = math.isqrt(num), math.isqrt(den)
            if rn * rn == num and rd * rd == den:
                return C(Fraction(rn, rd))
            if num % 3 == 0:
                m = num // 3
                rm = math.isqrt(m)
                if rm * rm == m and rd * rd == den:
                    return C(Q3(0, Fraction(rm, rd)))
    r = CTX.sqrt_cache.get(x.id)
    if r is None:
        # one atom per radicand *value*: key on the exact normal form
        from . import normal
        try:
            nf = normal.convert(x)
            key = (frozenset(nf.n.items()), frozenset(nf.den_poly().items()))
        except Exception:
            key = ('id', x.id)
        r = CTX.sqrt_cache.get(key)
        if r is None:
            r = CTX.var(f'sqrt@{x.id}', kind='nonneg', defn=('sqrt', x))
            CTX.sqrt_cache[key] = r
        CTX.sqrt_cache[x.id] = r
    return r


# boolean nodes --------------------------------------------------------------
def cmp(op, a, b):
    return CTX.mk(op, (a, b))


def bnot(b):
    if b.op == 'not':
        return b.args[0]
    flip = {'lt': 'ge', 'ge': 'lt', 'le': 'gt', 'gt': 'le', 'eq': 'ne', 'ne': 'eq'}
    if b.op in flip:
        return CTX.mk(flip[b.op], b.args)
    if b.op == 'true':
        return CTX.mk('false')
    if b.op == 'false':
        return CTX.mk('true')
    return CTX.mk('not', (b,))


def band(*bs):
    return CTX.mk('and', tuple(bs))


def bor(*bs):
    return CTX.mk('or', tuple(bs))


# ----------------------------------------------------------------------------
# traversal helpers
# ----------------------------------------------------------------------------
def defn_nodes(d):
    """nodes mentioned by an atom definition"""
    if d is None:
        return ()
    if d[0] == 'min':
        return tuple(d[1])
    return (d[1],)


def topo(roots, defs=False):
    """post-order list of all nodes reachable from roots (iterative).
    defs=True also follows the definitions of defined atoms."""
    seen = set()
    out = []
    stack = [(r, False) for r in roots]
    while stack:
        n, done = stack.pop()
        if done:
            out.append(n)
            continue
        if n.id in seen:
            continue
        seen.add(n.id)
        stack.append((n, True))
        for a in n.args:
            if a.id not in seen:
                stack.append((a, False))
        if defs and n.op == 'v':
            for dn in defn_nodes(CTX.atoms[n.val].get('defn')):
                if dn.id not in seen:
                    stack.append((dn, False))
    return out


def variables(roots):
    return sorted({n.val for n in topo(roots, defs=True) if n.op == 'v'})


def show(n, depth=6):
    if n.op == 'c':
        return repr(n.val)
    if n.op == 'v':
        return n.val
    if depth == 0:
        return '…'
    if n.op in ('+', '*', '/'):
        return '(' + f' {n.op} '.join(show(a, depth - 1) for a in n.args) + ')'
    if n.op == '^':
        return f'{show(n.args[0], depth - 1)}^{n.val}'
    if n.op == 'rpow':
        return f'{show(n.args[0], depth - 1)}^({n.val})'
    if n.op == 'fn':
        return f'{n.val}(' + ', '.join(show(a, depth - 1) for a in n.args) + ')'
    sym = {'lt': '<', 'le': '<=', 'gt': '>', 'ge': '>=', 'eq': '==', 'ne': '!='}
    if n.op in sym:
        return f'{show(n.args[0], depth - 1)} {sym[n.op]} {show(n.args[1], depth - 1)}'
    return f'{n.op}(' + ', '.join(show(a, depth - 1) for a in n.args) + ')'


# ----------------------------------------------------------------------------
# numeric evaluation (floats) at a sample point
# ----------------------------------------------------------------------------
class Point:
    """A lazily extended assignment atom name -> float."""

    def __init__(self, seed, given=None):
        self.seed = seed
        self.v = dict(given or {})
        self.cache = {}

    def atom(self, name):
        if name in self.v:
            return self.v[name]
        info = CTX.atoms[name]
        d = info.get('defn')
        if d is not None:
            if d[0] == 'sqrt':
                x = self.eval(d[1])
                if x < 0:
                    raise Reject(f'sqrt of negative at sample: {name}')
                val = math.sqrt(x)
            elif d[0] == 'expr':
                val = self.eval(d[1])
            elif d[0] == 'min':
                val = min(self.eval(x) for x in d[1])
            elif d[0] == 'round':
                val = float(round(self.eval(d[1])))
            elif d[0] == 'floor':
                val = float(math.floor(self.eval(d[1])))
            else:
                raise EngineLimit(f'unknown definition {d[0]}')
        else:
            rnd = random.Random(f'{self.seed}|{name}')
            lo, hi = info.get('lo'), info.get('hi')
            kind = info['kind']
            if kind == 'int':
                lo = 2 if lo is None else lo
                hi = lo + 6 if hi is None else hi
                val = float(rnd.randint(int(lo), int(hi)))
            else:
                if lo is None:
                    lo = 0.5 if kind in ('pos', 'nonneg') else -2.0
                if hi is None:
                    hi = lo + 2.0 if lo >= 0 else 2.0
                val = rnd.uniform(lo, hi)
        self.v[name] = val
        return val

    def mag(self, root):
        """conditioning-aware magnitude: like eval, but additions add absolute
        values; used to size numeric tolerances (|lhs - rhs| <= tol * mag)."""
        mc = self.__dict__.setdefault('mcache', {})
        if root.id in mc:
            return mc[root.id]
        self.eval(root)
        cache = self.cache
        for n in topo([root]):
            if n.id in mc:
                continue
            op = n.op
            if op == '+':
                r = mc[n.args[0].id] + mc[n.args[1].id]
            elif op == '*':
                r = mc[n.args[0].id] * mc[n.args[1].id]
            elif op == '/':
                r = mc[n.args[0].id] / abs(cache[n.args[1].id])
            elif op == '^':
                r = mc[n.args[0].id] ** n.val
            else:
                v = cache[n.id]
                r = abs(v) if isinstance(v, (int, float)) and not isinstance(v, bool) else 0.0
            mc[n.id] = r
        return mc[root.id]

    def eval_mp(self, root, dps=60):
        """high-precision evaluation (mpmath) of an arithmetic node at this point"""
        import mpmath
        mpmath.mp.dps = dps
        mc = {}
        s3 = mpmath.sqrt(3)

        def atom(name):
            info = CTX.atoms[name]
            d = info.get('defn')
            if d is not None:
                if d[0] == 'min':
                    return min(ev(x) for x in d[1])
                x = ev(d[1])
                if d[0] == 'round':
                    return mpmath.nint(x)
                if d[0] == 'floor':
                    return mpmath.floor(x)
                return mpmath.sqrt(x) if d[0] == 'sqrt' else x
            if name == 'PI':
                return mpmath.pi
            return mpmath.mpf(self.atom(name))

        def ev(r):
            for n in topo([r]):
                if n.id in mc:
                    continue
                op = n.op
                if op == 'c':
                    v = mpmath.mpf(n.val.a.numerator) / n.val.a.denominator
                    if n.val.b != 0:
                        v += mpmath.mpf(n.val.b.numerator) / n.val.b.denominator * s3
                elif op == 'v':
                    v = atom(n.val)
                elif op == '+':
                    v = mc[n.args[0].id] + mc[n.args[1].id]
                elif op == '*':
                    v = mc[n.args[0].id] * mc[n.args[1].id]
                elif op == '/':
                    v = mc[n.args[0].id] / mc[n.args[1].id]
                elif op == '^':
                    v = mc[n.args[0].id] ** n.val
                elif op == 'rpow':
                    v = mc[n.args[0].id] ** (mpmath.mpf(n.val.numerator) / n.val.denominator)
                elif op == 'fn':
                    v = mpmath.mpf(CTX.fn_impl[n.val](*[float(mc[a.id]) for a in n.args]))
                else:
                    raise EngineLimit(f'eval_mp: op {op}')
                mc[n.id] = v
            return mc[r.id]
        return ev(root)

    def eval(self, root):
        cache = self.cache
        if root.id in cache:
            return cache[root.id]
        for n in topo([root]):
            if n.id in cache:
                continue
            op = n.op
            if op == 'c':
                r = float(n.val)
            elif op == 'v':
                r = self.atom(n.val)
            elif op == '+':
                r = cache[n.args[0].id] + cache[n.args[1].id]
            elif op == '*':
                r = cache[n.args[0].id] * cache[n.args[1].id]
            elif op == '/':
                d = cache[n.args[1].id]
                if d == 0:
                    raise Reject('division by zero at sample')
                r = cache[n.args[0].id] / d
            elif op == '^':
                r = cache[n.args[0].id] ** n.val
            elif op == 'rpow':
                b = cache[n.args[0].id]
                if b <= 0:
                    raise Reject('non-positive base of rational power at sample')
                r = b ** float(n.val)
            elif op == 'fn':
                f = CTX.fn_impl.get(n.val)
                if f is None:
                    raise EngineLimit(f'no numeric implementation for {n.val}')
                r = f(*[cache[a.id] for a in n.args])
            elif op in ('lt', 'le', 'gt', 'ge', 'eq', 'ne'):
                a, b = cache[n.args[0].id], cache[n.args[1].id]
                scale = max(abs(a), abs(b), 1e-300)
                d = (a - b) / scale
                if a == b:
                    r = {'lt': False, 'le': True, 'gt': False, 'ge': True, 'eq': True, 'ne': False}[op]
                elif abs(d) < 1e-9:
                    r = None       # too close to call in floats
                else:
                    r = {'lt': d < 0, 'le': d < 0, 'gt': d > 0, 'ge': d > 0,
                         'eq': False, 'ne': True}[op]
            elif op == 'not':
                x = cache[n.args[0].id]
                r = None if x is None else (not x)
            elif op == 'and':
                xs = [cache[a.id] for a in n.args]
                r = False if any(x is False for x in xs) else (None if any(x is None for x in xs) else True)
            elif op == 'or':
                xs = [cache[a.id] for a in n.args]
                r = True if any(x is True for x in xs) else (None if any(x is None for x in xs) else False)
            elif op == 'true':
                r = True
            elif op == 'false':
                r = False
            else:
                raise EngineLimit(f'eval: unknown op {op}')
            cache[n.id] = r
        return cache[root.id]


# ----------------------------------------------------------------------------
# Proxies
# ----------------------------------------------------------------------------
def lift(x):
    """python / numpy scalar -> node, or None when x is not a scalar number."""
    if isinstance(x, Sym):
        return x.n
    if isinstance(x, bool):
        return C(int(x))
    if isinstance(x, int):
        return C(x)
    if isinstance(x, float):
        q = lift_float(x)
        if isinstance(q, tuple):
            return mul(C(q[1]), CTX.var('PI', kind='pos', lo=math.pi, hi=math.pi))
        return C(q)
    if isinstance(x, Fraction):
        return C(x)
    item = getattr(x, 'item', None)
    if item is not None and getattr(x, 'shape', None) == ():
        return lift(x.item())
    return None


class Sym:
    __slots__ = ('n',)
    # numpy: let ndarray operators treat us as an object scalar
    def __init__(self, n):
        self.n = n

    # arithmetic
    def __add__(self, o):
        b = lift(o)
        return NotImplemented if b is None else Sym(add(self.n, b))
    __radd__ = __add__

    def __sub__(self, o):
        b = lift(o)
        return NotImplemented if b is None else Sym(sub(self.n, b))

    def __rsub__(self, o):
        b = lift(o)
        return NotImplemented if b is None else Sym(sub(b, self.n))

    def __mul__(self, o):
        b = lift(o)
        return NotImplemented if b is None else Sym(mul(self.n, b))
    __rmul__ = __mul__

    def __truediv__(self, o):
        b = lift(o)
        return NotImplemented if b is None else Sym(div(self.n, b))

    def __rtruediv__(self, o):
        b = lift(o)
        return NotImplemented if b is None else Sym(div(b, self.n))

    def __neg__(self):
        return Sym(neg(self.n))

    def __pos__(self):
        return self

    def __pow__(self, e):
        if isinstance(e, Sym):
            if is_const(e.n) and e.n.val.is_rational():
                e = e.n.val.a
            else:
                return Sym(fn('pow', self.n, e.n))
        if hasattr(e, 'item') and getattr(e, 'shape', None) == ():
            e = e.item()
        if isinstance(e, bool):
            e = int(e)
        if isinstance(e, int):
            return Sym(powi(self.n, e))
        if isinstance(e, float):
            if e == int(e):
                return Sym(powi(self.n, int(e)))
            if e == 0.5:
                return Sym(sqrt_node(self.n))
            fq = Fraction(e).limit_denominator(2000)
            if abs(float(fq) - e) <= 1e-13 * max(1.0, abs(e)):
                # exponents such as (1 + m) / (2 - m) computed in floating point: read as the exact ratio
                if fq.denominator > 1 and len(repr(e)) > 8:
                    SNAPS.add((repr(e), f'{fq} (exponent)'))
                return Sym(rpow(self.n, fq))
            q = lift_float(e)
            if isinstance(q, tuple) or not q.is_rational():
                raise EngineLimit(f'irrational exponent {e}')
            return Sym(rpow(self.n, q.a))
        if isinstance(e, Fraction):
            return Sym(rpow(self.n, e))
        return NotImplemented

    def __rpow__(self, base):
        b = lift(base)
        if b is None:
            return NotImplemented
        if is_const(self.n) and self.n.val.is_rational():
            return Sym(b) ** self.n.val.a
        return Sym(fn('pow', b, self.n))

    def __abs__(self):
        return self if (self >= 0) else -self

    # numpy ufunc dispatch on object arrays calls these methods
    def sqrt(self):
        return Sym(sqrt_node(self.n))

    def log10(self):
        return Sym(fn('log10', self.n))

    def log(self):
        return Sym(fn('log', self.n))

    def exp(self):
        return Sym(fn('exp', self.n))

    def arccos(self):
        return Sym(fn('arccos', self.n))

    def arcsin(self):
        return Sym(fn('arcsin', self.n))

    def arctan(self):
        return Sym(fn('arctan', self.n))

    def tan(self):
        return Sym(fn('tan', self.n))

    def cos(self):
        if self.n.op == 'fn' and self.n.val == 'arccos':
            return Sym(self.n.args[0])
        return Sym(fn('cos', self.n))

    def sin(self):
        return Sym(fn('sin', self.n))

    def conjugate(self):
        return self

    # comparisons
    def _cmp(self, op, o):
        b = lift(o)
        if b is None:
            return NotImplemented
        return SymBool(cmp(op, self.n, b))

    def __lt__(self, o):
        return self._cmp('lt', o)

    def __le__(self, o):
        return self._cmp('le', o)

    def __gt__(self, o):
        return self._cmp('gt', o)

    def __ge__(self, o):
        return self._cmp('ge', o)

    def __eq__(self, o):
        return self._cmp('eq', o)

    def __ne__(self, o):
        return self._cmp('ne', o)

    def __hash__(self):
        return hash(('Sym', self.n.id))

    def __bool__(self):
        return bool(self != 0)

    def __float__(self):
        if is_const(self.n):
            return float(self.n.val)
        raise EngineLimit(f'float() of symbolic value {show(self.n, 3)}')

    def __int__(self):
        if is_const(self.n) and self.n.val.is_rational() and self.n.val.a.denominator == 1:
            return int(self.n.val.a)
        raise EngineLimit(f'int() of symbolic value {show(self.n, 3)}')

    __index__ = __int__

    def __round__(self, nd=None):
        # builtin round(x, nd): a nearest multiple of 10^-nd (ties unspecified), as numpy.around in the shim;
        # round(x) with no digits returns an int in Python - kept symbolic (an integer atom)
        scale = 10 ** int(nd or 0)
        return Sym(round_node(mul(C(scale), self.n))) / scale

    def __repr__(self):
        return f'Sym({show(self.n, 4)})'

    def __format__(self, spec):
        # a number formatted into text by the code under contract: with a numeric format spec the text carries a
        # token of the node (`parse_tokens` maps printed cells back to their values); plain '{}' keeps the repr
        if spec and spec[-1] in 'eEfFgG%':
            return f'\u27e8{self.n.id}\u27e9'
        return repr(self)


def parse_token(text):
    """the symbolic value a formatted cell stands for (see Sym.__format__), or None"""
    import re
    m = re.fullmatch(r'\s*\u27e8(\d+)\u27e9\s*', text)
    return Sym(CTX.nodes[int(m.group(1))]) if m else None


class SymBool:
    __slots__ = ('n',)

    def __init__(self, n):
        self.n = n

    def __bool__(self):
        return decide(self.n)

    def __and__(self, o):
        if isinstance(o, SymBool):
            return SymBool(band(self.n, o.n))
        return self if o else SymBool(CTX.mk('false'))
    __rand__ = __and__

    def __or__(self, o):
        if isinstance(o, SymBool):
            return SymBool(bor(self.n, o.n))
        return SymBool(CTX.mk('true')) if o else self
    __ror__ = __or__

    def __invert__(self):
        return SymBool(bnot(self.n))

    def __repr__(self):
        return f'SymBool({show(self.n, 4)})'


def const_truth(b):
    """truth value of a boolean node whose leaves are constants, else None."""
    if b.op in ('lt', 'le', 'gt', 'ge', 'eq', 'ne'):
        x, y = b.args
        if x is y:
            return b.op in ('le', 'ge', 'eq')
        if is_const(x) and is_const(y):
            s = (x.val - y.val).sign()
            return {'lt': s < 0, 'le': s <= 0, 'gt': s > 0, 'ge': s >= 0,
                    'eq': s == 0, 'ne': s != 0}[b.op]
        return None
    if b.op == 'true':
        return True
    if b.op == 'false':
        return False
    if b.op == 'not':
        t = const_truth(b.args[0])
        return None if t is None else not t
    if b.op == 'and':
        ts = [const_truth(a) for a in b.args]
        if any(t is False for t in ts):
            return False
        return True if all(t is True for t in ts) else None
    if b.op == 'or':
        ts = [const_truth(a) for a in b.args]
        if any(t is True for t in ts):
            return True
        return False if all(t is False for t in ts) else None
    return None


# ----------------------------------------------------------------------------
# Path controller
# ----------------------------------------------------------------------------
CTRL = None


def decide(b):
    if CTRL is not None and time.process_time() > CTRL.deadline:
        raise PathLimit(f'path exploration exceeded {CTRL.max_seconds} s of CPU time (possible non-termination of the code '
                        'under verification)')
    t = const_truth(b)
    if t is not None:
        return t
    if CTRL is None:
        raise EngineLimit('symbolic branch outside a controlled run: ' + show(b, 3))
    return CTRL.decide(b)


class PathLimit(Exception):
    pass


class Controller:
    """Depth-first enumeration of the feasible paths of a python callable.

    feasibility oracle: callable(list_of_bool_nodes) -> 'sat' | 'unsat' | 'unknown'
    """

    def __init__(self, oracle, max_paths=64, max_decisions=4000, max_seconds=600):
        self.oracle = oracle
        self.max_seconds = max_seconds
        # CPU time of this process, not wall-clock: the verdict must not depend on how busy the machine is
        self.deadline = time.process_time() + max_seconds
        self.max_paths = max_paths
        self.max_decisions = max_decisions
        self.stats = dict(paths=0, decisions=0, forced=0, oracle_calls=0,
                          unknown_as_feasible=0)
        self.div_seen = []

    def note_division(self, den):
        self.div_seen.append((den, tuple(self.pc)))

    def decide(self, b):
        # already decided on this path?
        k = self.known.get(b.id)
        if k is not None:
            return k
        nb = bnot(b)
        k = self.known.get(nb.id)
        if k is not None:
            return not k
        if self.pos < len(self.prefix):
            val = self.prefix[self.pos]
            if self.pos == len(self.prefix) - 1 or self.pos in self.prefix_free:
                self.free_pos.add(len(self.taken))
            self.pos += 1
            self._take(b, val)
            return val
        self.stats['decisions'] += 1
        if self.stats['decisions'] > self.max_decisions:
            raise PathLimit('too many decisions')
        if time.process_time() > self.deadline:
            raise PathLimit(f'path exploration exceeded {self.max_seconds} s of CPU time (possible non-termination of the code '
                            'under verification)')
        ft = self._feasible(b)
        ff = self._feasible(nb)
        if ft and ff:
            self.alts.append(self.taken + [False])
            val = True
            self.free_pos.add(len(self.taken))
        elif ft:
            val = True
            self.stats['forced'] += 1
        elif ff:
            val = False
            self.stats['forced'] += 1
        else:
            raise Infeasible('path condition became infeasible at ' + show(b, 3))
        self.pos += 1
        self._take(b, val)
        return val

    def assume_local(self, b):
        """a precondition stated after decisions have been taken: it becomes part of THIS path's condition (a forced
        decision with value True); a path on which it cannot hold is dropped"""
        k = self.known.get(b.id)
        if k is True:
            return
        nb = bnot(b)
        if k is False or self.known.get(nb.id) is True:
            raise Infeasible('precondition contradicts the path condition: ' + show(b, 3))
        # a precondition is not implied by the decisions before it: it is kept apart from the forced decisions, as a
        # hypothesis a counter-model of the path has to satisfy (like the global assumptions)
        if self.pos < len(self.prefix):
            self.local_pos.add(len(self.taken))
            self.pos += 1
            self._take(b, True)
            return
        if not self._feasible(b):
            raise Infeasible('precondition infeasible on this path: ' + show(b, 3))
        self.stats['forced'] += 1
        self.local_pos.add(len(self.taken))
        self.pos += 1
        self._take(b, True)

    def _take(self, b, val):
        self.taken.append(val)
        self.known[b.id] = val
        self.pc.append(b if val else bnot(b))

    def _feasible(self, b):
        self.stats['oracle_calls'] += 1
        r = self.oracle(CTX.assume + self.pc + [b])
        if r == 'unknown':
            self.stats['unknown_as_feasible'] += 1
        return r != 'unsat'

    def run(self, fn):
        """yield (path_condition, result_or_exception) for every feasible path."""
        global CTRL
        pending = [([], frozenset())]
        while pending:
            self.prefix, self.prefix_free = pending.pop()
            self.free_pos = set()
            self.local_pos = set()
            self.pos = 0
            self.taken = []
            self.known = {}
            self.pc = []
            self.alts = []
            prev = CTRL
            CTRL = self
            try:
                try:
                    out = ('ok', fn())
                except Infeasible as e:
                    out = ('infeasible', e)
                except SystemExit as e:
                    out = ('exit', e)
                except (EngineLimit, PathLimit):
                    raise
                except Exception as e:     # noqa: an exception on a feasible path
                    out = ('raise', e)
            finally:
                CTRL = prev
            pending.extend((alt, frozenset(p for p in self.free_pos if p < len(alt))) for alt in self.alts)
            self.last_free = [self.pc[i] for i in sorted(self.free_pos) if i < len(self.pc)]
            self.last_local = [self.pc[i] for i in sorted(self.local_pos) if i < len(self.pc)]
            if out[0] != 'infeasible':
                self.stats['paths'] += 1
                if self.stats['paths'] > self.max_paths:
                    raise PathLimit(f'more than {self.max_paths} paths')
                yield list(self.pc), out


class Infeasible(Exception):
    pass


def _int_atom(kind, x):
    """integer atom K = round(x) / floor(x) of a real node x (one atom per node)"""
    if is_const(x) and x.val.is_rational():
        q = x.val.a
        if kind == 'floor':
            return C(q.numerator // q.denominator)
        return C(int(round(q)))
    if int_valued(x):
        return x
    # x = I + r with I an integer-valued sum of addends: round(I + r) = I + round(r), floor likewise.  The atom then
    # stands for the small remainder only, which bound propagation settles (|r| < 1/2 gives 0) where branch and bound
    # on the unbounded integers of I does not terminate
    ints, rest = _split_integer_addends(x)
    if ints and rest:
        acc = ints[0]
        for t in ints[1:]:
            acc = add(acc, t)
        r = rest[0]
        for t in rest[1:]:
            r = add(r, t)
        return add(acc, _int_atom(kind, r))
    tab = CTX.__dict__.setdefault('_intatoms', {})
    key = (kind, x.id)
    if key not in tab:
        tab[key] = CTX.var(f'{kind}@{x.id}', kind='int', defn=(kind, x))
    return tab[key]


def _split_integer_addends(x):
    """addends of x (through sums and products with rational constants), split into the integer-valued ones and
    the others"""
    terms = []

    def walk(n, k, depth=0):
        if depth < 200 and n.op == '+':
            walk(n.args[0], k, depth + 1)
            walk(n.args[1], k, depth + 1)
        elif depth < 200 and n.op == '*' and is_const(n.args[0]) and n.args[0].val.is_rational():
            walk(n.args[1], k * n.args[0].val, depth + 1)
        else:
            terms.append(mul(C(k), n))
    walk(x, Q3(1))
    if len(terms) < 2:
        return [], terms
    ints, rest = [], []
    for t in terms:
        (ints if int_valued(t) else rest).append(t)
    return ints, rest


def int_valued(x):
    """x is an integer-coefficient polynomial in integer atoms (hence integer valued)"""
    from . import normal
    try:
        fr = normal.convert(x)
    except Exception:
        return False
    if fr.c != 1 or fr.m or fr.f:
        return False
    tab = CTX.__dict__.get('_vname', {})
    for m in fr.n:
        for v, e in m:
            nm = tab.get(v, '')
            if not nm.startswith('v_') or CTX.atoms[nm[2:]]['kind'] != 'int':
                return False
    return True


def round_node(x):
    """nearest integer (ties unspecified): |x - K| <= 1/2"""
    return _int_atom('round', x)


def floor_node(x):
    return _int_atom('floor', x)


def sym_min(*args, **kw):
    """min() for code under verification: with symbolic arguments the path
    controller decides which argument is the minimum (one path per feasible
    arg-min, path condition  x_k <= x_j for all j) and that argument itself is
    returned, so that the result is identical to one of the inputs."""
    import builtins
    seq = list(args[0]) if len(args) == 1 and not isinstance(args[0], Sym) else list(args)
    if not any(isinstance(x, Sym) for x in seq):
        return builtins.min(seq, **kw)
    nodes = [lift(x) for x in seq]
    for k in range(len(seq)):
        conj = [cmp('le', nodes[k], nodes[j]) for j in range(len(seq)) if j != k and nodes[j] is not nodes[k]]
        if not conj:
            return seq[k]
        q = band(*conj) if len(conj) > 1 else conj[0]
        # which argument is smallest is a genuine case split: no solver time is spent on it
        CTX.__dict__.setdefault('_cheap', set()).update((q.id, bnot(q).id))
        if decide(q):
            return seq[k]
    raise Infeasible('no argument is the minimum')
