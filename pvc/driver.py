"""Property-level driver: runs every (contract, configuration) of a property,
cross-checks the engine natively, replays refutations, applies the known-findings
file and the obligation ledger, writes the evidence file and decides the exit code.

exit 0 held | 1 violation (VIOLATION line) | 2 undecided | 3 checker/engine fault
"""
from __future__ import annotations
import importlib
import json
import multiprocessing as mp
import os
import re
import sys
import time
import traceback
from collections import Counter

ROOT = os.path.dirname(os.path.dirname(os.path.abspath(__file__)))
REPO = os.environ.get('DASSH_REPO', '/repo')


def _setup_paths():
    for p in (ROOT, REPO):
        if p not in sys.path:
            sys.path.insert(0, p)
    sys.setrecursionlimit(200000)
    _maybe_cover()


_COVER_SEEN = set()


def _maybe_cover():
    """VERIF_COVER=<dir>: record which functions of the real dassh sources are executed by a check (symbolically or
    natively) - used by tools/coverage.sh to list the functions no check ever enters. Off by default."""
    d = os.environ.get('VERIF_COVER')
    if not d or getattr(sys, '_verif_cover_on', False):
        return
    sys._verif_cover_on = True
    os.makedirs(d, exist_ok=True)
    root = os.path.join(os.path.realpath(REPO), 'dassh') + os.sep

    def prof(frame, event, arg):
        if event != 'call':
            return
        co = frame.f_code
        fn = co.co_filename
        if not fn.startswith(root) and not fn.startswith('<'):
            return
        key = (fn, co.co_firstlineno, co.co_name)
        if key in _COVER_SEEN:
            return
        _COVER_SEEN.add(key)
        if fn.startswith('<'):
            # code cut from the real source by pvc.loopcut is compiled under a name '<... of Qualified.name>'
            if ' of ' not in fn:
                return
        try:
            with open(os.path.join(d, f'{os.getpid()}.txt'), 'a') as f:
                f.write(f'{fn}\t{co.co_firstlineno}\t{co.co_name}\n')
        except OSError:
            pass
    sys.setprofile(prof)
    import threading
    threading.setprofile(prof)


def _point_dump(pt):
    if pt is None:
        return None
    d = dict(seed=str(pt.seed), values={k: v for k, v in pt.v.items()})
    if getattr(pt, 'fn_points', None):
        d['fn_points'] = [list(t) for t in pt.fn_points]
    return d


def _job(args):
    """one (module, contract index, tier, seed) in a worker process"""
    modname, idx, tier, seed, ncross = args
    _setup_paths()
    t0 = time.time()
    try:
        from pvc import scen, core
        mod = importlib.import_module(modname)
        fn, cfg = mod.configs(tier)[idx]
        kw = dict(getattr(fn, 'run_kw', {}))
        if tier == 'thorough':
            kw.setdefault('budget_ms', 20000)
            kw.setdefault('time_cap_s', 1500)
        run, S, pool = scen.run_symbolic(fn, cfg, mod.MODULES, seed=seed, **kw)
        out = dict(name=run.name, cfg=cfg, contract=fn.__name__, error=run.error, stats=run.stats,
                   paths=run.paths, exits=run.exits, notes=run.notes, div=run.div, results=[],
                   snaps=sorted(core.SNAPS), cross=dict(points=0, bad=[]),
                   need_exit=bool(getattr(fn, 'need_exit', False)))
        for r in run.results:
            d = {k: r[k] for k in ('name', 'status', 'backend', 'canary', 'detail', 'path') if k in r}
            d['seconds'] = round(r.get('seconds', 0.0), 4)
            d['kind'] = r.get('kind', 'safety')
            d['witness'] = _point_dump(r.get('witness'))
            out['results'].append(d)
        # ---- native cross-check + replay of witnesses ---------------------------
        if run.error is None or run.error.startswith('PathLimit'):
            pts = list(pool[:ncross])
            cross_bad = []
            npts = 0
            for pt in pts:
                fresh = core.Point(pt.seed, {k: v for k, v in pt.v.items()
                                             if core.CTX.atoms.get(k, {}).get('defn') is None})
                try:
                    nat = scen.run_native(fn, cfg, fresh)
                except Exception as e:      # native exception at a valid sample
                    nat = [dict(name='(native exception)', ok=False, canary=False, lhs=0, rhs=0,
                                note=''.join(traceback.format_exception_only(type(e), e)))]
                if nat is None:
                    continue
                npts += 1
                for nr in nat:
                    if nr['canary']:
                        continue
                    elif not nr['ok']:
                        cross_bad.append(dict(point=_point_dump(fresh), **nr))
            out['cross'] = dict(points=npts, bad=cross_bad[:20])
            # replay refuted obligations at their witness
            for d, r in zip(out['results'], run.results):
                if d['status'] == 'refuted' and not d['canary'] and r.get('witness') is not None:
                    w = r['witness']
                    fresh = core.Point(w.seed, {k: v for k, v in w.v.items()
                                                if core.CTX.atoms.get(k, {}).get('defn') is None})
                    fresh.fn_points = getattr(w, 'fn_points', None)
                    try:
                        nat = scen.run_native(fn, cfg, fresh)
                    except Exception as e:
                        nat = [dict(name='(native exception)', ok=False, canary=False, lhs=0, rhs=0,
                                    note=''.join(traceback.format_exception_only(type(e), e)))]
                    base = d['name'].split(':', 1)[1].split('@p')[0] if ':' in d['name'] else d['name']
                    rep = None
                    if nat is not None:
                        for nr in nat:
                            if nr['name'] == base or nr['name'] == '(native exception)':
                                rep = nr
                                break
                        if rep is None and any(not nr['ok'] and not nr['canary'] for nr in nat):
                            rep = next(nr for nr in nat if not nr['ok'] and not nr['canary'])
                    d['replay'] = dict(ran=nat is not None,
                                       reproduced=bool(rep is not None and not rep['ok']),
                                       native=rep, point=_point_dump(fresh))
        out['wall'] = round(time.time() - t0, 3)
        return out
    except Exception as e:
        return dict(name=f'{modname}#{idx}', crash=''.join(traceback.format_exception(type(e), e, e.__traceback__)),
                    results=[], wall=round(time.time() - t0, 3))


def load_known(prop):
    path = os.path.join(ROOT, 'known_findings.json')
    if not os.path.exists(path):
        return []
    with open(path) as f:
        data = json.load(f)
    return [k for k in data if k.get('property') == prop and k.get('status') == 'open']


def match_known(known, oblname, witness):
    for k in known:
        if re.search(k['obligation'], oblname):
            when = k.get('when')
            if when:
                vals = (witness or {}).get('values', {}) if witness else {}
                try:
                    if not eval(when, {'__builtins__': {}}, {'w': vals, 'abs': abs}):
                        continue
                except Exception:
                    continue
            return k
    return None


def run_property(prop, modname, tier, seed, replay_dir=None, jobs=None):
    _setup_paths()
    t0 = time.time()
    mod = importlib.import_module(modname)
    cfgs = mod.configs(tier)
    ncross = 3 if tier == 'quick' else 12
    args = [(modname, i, tier, seed, ncross) for i in range(len(cfgs))]
    jobs = jobs or min(16, max(1, len(args)))
    if not args:
        outs = []
    elif jobs > 1 and len(args) > 1:
        with mp.get_context('fork').Pool(jobs) as pool:
            outs = pool.map(_job, args, chunksize=1)
    else:
        outs = [_job(a) for a in args]
    extra = []
    if hasattr(mod, 'extra_checks'):
        extra = mod.extra_checks(tier, seed)
    if getattr(mod, 'LEAN_LEMMAS', None) and tier == 'thorough':
        from pvc import leancheck
        extra = list(extra) + [dict(name='ghost lemmas (Lean 4 + Mathlib)', results=leancheck.results(mod.LEAN_LEMMAS, tier),
                                    notes=['ghost lemmas ' + ', '.join(mod.LEAN_LEMMAS) + ' of /verif/lean/Ghost.lean checked by '
                                           'lean (thorough tier): the induction / composition steps of the meta-argument'])]
    return finish(prop, mod, tier, seed, outs, extra, t0)


def finish(prop, mod, tier, seed, outs, extra, t0):
    known = load_known(prop)
    replay_dir = os.path.join(ROOT, 'replays')
    os.makedirs(replay_dir, exist_ok=True)
    lines = []
    obligations = discharged = 0
    violations = []
    known_hits = []
    undecided = []
    faults = []
    backends = Counter()
    solver_s = 0.0
    names = []
    samples = []
    paths = 0
    canaries = 0
    canary_state = {}
    cross_points = 0
    notes = set()
    snaps = set()
    exits = 0
    for o in outs:
        if 'crash' in o:
            faults.append(f"crash in {o['name']}: {o['crash'][-1500:]}")
            continue
        if o.get('error'):
            undecided.append(dict(name=o['name'], detail='engine limit: ' + o['error']))
        paths += len(o.get('paths', []))
        exits += len(o.get('exits', []))
        if o.get('need_exit') and not o.get('exits') and not o.get('error'):
            faults.append(f"{o['name']}: the contract expects some inputs to be rejected (SystemExit) but no path was")
        notes.update(o.get('notes', []))
        snaps.update(tuple(x) for x in o.get('snaps', []))
        cross_points += o['cross']['points']
        by_base = {}
        for r in o['results']:
            by_base.setdefault(r['name'].split('@p')[0], []).append(r['status'])
        # an obligation counts as proved for the cross-check only when it is proved on every path
        proved_names = {b for b, sts in by_base.items() if all(x == 'proved' for x in sts)}
        # a refuted callee-contract fact explains native failures of obligations that
        # were proved modularly on top of it: those are not engine faults
        callee_broken = any(r['status'] == 'refuted' and ':callee.' in r['name'] for r in o['results'])
        for bad in ([] if callee_broken else o['cross']['bad']):
            full = f"{o['name']}:{bad['name']}"
            if full in proved_names:
                faults.append(f"engine cross-check: {full} proved symbolically but fails natively: " + str({k2: v2 for k2, v2 in bad.items() if k2 != 'point'})[:300])
        for dv in o.get('div', []):
            obligations += 1
            nm = f"{o['name']}:div.nonzero[{dv['den'][:60]}]"
            names.append(nm)
            if dv['status'] == 'proved':
                discharged += 1
                backends['z3'] += 1
            else:
                undecided.append(dict(name=nm, detail='denominator not shown non-zero: ' + dv['status']))
        for r in o['results']:
            if r['canary']:
                base = r['name'].split('@p')[0]
                canary_state.setdefault(base, []).append(r['status'])
                continue
            obligations += 1
            names.append(r['name'])
            solver_s += r['seconds']
            if r['status'] == 'proved':
                discharged += 1
                backends[r['backend']] += 1
                if len(samples) < 6:
                    samples.append(dict(obligation=r['name'], backend=r['backend'], seconds=r['seconds']))
            elif r['status'] == 'refuted':
                k = match_known(known, r['name'], r.get('witness'))
                if k is not None:
                    known_hits.append((k, r))
                    obligations -= 1      # listed separately: refuted, recorded as a known finding
                else:
                    violations.append((o, r))
            elif r['status'] == 'fault':
                faults.append(f"{r['name']}: {r['detail'][:400]}")
            else:
                undecided.append(dict(name=r['name'], detail=r['detail'][:300]))
    for base, sts in canary_state.items():
        # a canary is a deliberately false obligation: it must be refuted on at least one path
        if 'refuted' in sts:
            canaries += 1
        else:
            faults.append(f"canary {base} was not refuted on any path ({sorted(set(sts))})")
    for e in extra:
        # extra checks (static analysers, bounded run-time contracts, lean) use the same record shape
        notes.update(e.get('notes', []))
        for r in e['results']:
            obligations += 1
            names.append(r['name'])
            solver_s += r.get('seconds', 0.0)
            if r['status'] == 'proved':
                discharged += 1
                backends[r['backend']] += 1
                if len(samples) < 10 and r.get('sample'):
                    samples.append(dict(obligation=r['name'], backend=r['backend'], detail=r.get('detail', '')[:200]))
            elif r['status'] == 'refuted':
                k = match_known(known, r['name'], r.get('witness'))
                if k is not None:
                    known_hits.append((k, r))
                    obligations -= 1
                else:
                    violations.append((dict(name=e.get('name', 'extra'), cfg={}, contract=None), r))
            elif r['status'] == 'fault':
                faults.append(f"{r['name']}: {r.get('detail', '')[:500]}")
            else:
                undecided.append(dict(name=r['name'], detail=r.get('detail', '')[:300]))
    # ledger ------------------------------------------------------------------
    ledger_path = os.path.join(ROOT, 'ledger.json')
    missing = []
    if os.path.exists(ledger_path):
        with open(ledger_path) as f:
            ledger = json.load(f)
        expected = ledger.get(f'{prop}:{tier}')
        if expected is not None:
            have = set(ledger_names(names))
            missing = [n for n in expected if n not in have]
            for n in missing[:50]:
                undecided.append(dict(name=n, detail='obligation in the ledger was not generated by this run'))
    if obligations == 0:
        faults.append('zero obligations generated')
    # verdict lines -------------------------------------------------------------
    seen_known = set()
    for k, r in known_hits:
        key = (k['obligation'], k.get('when'))
        if key in seen_known:
            continue
        seen_known.add(key)
        lines.append(f"KNOWN-FINDING: property={prop} {k['what']}")
    nviol = 0
    fam_seen = set()
    for fn_ in os.listdir(replay_dir):
        if fn_.startswith(prop + '_'):
            os.unlink(os.path.join(replay_dir, fn_))
    for o, r in violations:
        fam = re.sub(r'\d+', '#', r['name'].split('@p')[0])
        if fam in fam_seen:
            continue
        fam_seen.add(fam)
        nviol += 1
        safe = re.sub(r'[^A-Za-z0-9_.-]+', '_', r['name'])[:120]
        path = os.path.join(replay_dir, f'{prop}_{safe}.json')
        rep = r.get('replay') or {}
        doc = dict(property=prop, obligation=r['name'], module=mod.__name__, contract=o.get('contract'),
                   cfg=o.get('cfg'), backend=r.get('backend'), verifier_output=r.get('detail'),
                   witness=rep.get('point') or r.get('witness'), native=rep.get('native'),
                   reproduced=bool(rep.get('reproduced')),
                   how_to_replay=f'./check {prop} --replay {path}')
        with open(path, 'w') as f:
            json.dump(doc, f, indent=1, default=str)
        tail = '' if rep.get('reproduced') else ' no-failing-input-found'
        if nviol <= 25:
            lines.append(f'VIOLATION property={prop} replay={path}{tail}')
    # evidence -----------------------------------------------------------------------
    level = 'proof'
    status = 'held'
    if violations:
        status = 'violation'       # a refuted obligation outranks a checker complaint
    elif faults:
        status = 'fault'
    elif undecided:
        status = 'undecided'
        level = 'other'
    wall = round(time.time() - t0, 2)
    assumptions = list(getattr(mod, 'ASSUMPTIONS', []))
    assumptions += sorted(notes)
    if snaps:
        assumptions.append('decimal literals read as closed forms: ' + ', '.join(f'{a}->{b}' for a, b in sorted(snaps)))
    assumptions.append('IEEE double arithmetic treated as real arithmetic')
    cov = dict(
        obligations=obligations, discharged=discharged,
        checker_cmd=f'./check {prop} --tier {tier}',
        trusted_base=['CPython', 'NumPy (indexing/broadcasting on object arrays)', 'sympy.polys (exact rational functions)',
                      'z3 5.1 / cvc5 1.0.3', '/verif/pvc engine (proxies, shim, path controller) guarded by '
                      'native cross-check + canaries'],
        functions_under_contract=list(getattr(mod, 'FUNCTIONS', [])),
        configurations=[o.get('name') for o in outs],
        paths_explored=paths, rejection_paths=exits, canaries_refuted=canaries,
        backends=dict(backends), solver_seconds=round(solver_s, 2),
        native_crosscheck_points=cross_points,
        undecided=[u['name'] for u in undecided][:40], undecided_count=len(undecided),
        known_findings=sorted({k['what'] for k, _ in known_hits})[:20],
        known_finding_obligations=[r['name'] for _, r in known_hits][:40],
        bounded_standins=list(getattr(mod, 'BOUNDED', [])),
        not_decided=list(getattr(mod, 'NOT_DECIDED', [])),
        samples=samples or [dict(note='no proved obligation')],
        explanation=(f'{discharged}/{obligations} obligations discharged; status {status}; '
                     f'{len(undecided)} undecided; {len(violations)} refuted'),
        exhaustive=False,
    )
    ev = dict(property_id=prop, tier=tier, seed=seed, level=level, coverage=cov, assumptions=assumptions,
              wall_s=wall, violations=len(violations))
    evdir = os.environ.get('VERIF_EVIDENCE_DIR') or os.path.join(ROOT, 'evidence')
    os.makedirs(evdir, exist_ok=True)
    with open(os.path.join(evdir, f'{prop}.json'), 'w') as f:
        json.dump(ev, f, indent=1, default=str)
    for ln in lines:
        print(ln)
    for u in undecided[:20]:
        print(f"UNDECIDED property={prop} obligation={u['name']} :: {u['detail'][:200]}")
    for fl in faults[:10]:
        print(f'CHECKER-FAULT property={prop} :: {fl}')
    print(f'{prop} [{tier}] {status}: {discharged}/{obligations} obligations discharged, {paths} paths, '
          f'{canaries} canaries refuted, {cross_points} native cross-check points, {wall}s')
    code = {'held': 0, 'violation': 1, 'undecided': 2, 'fault': 3}[status]
    return code, names


def ledger_names(names):
    """contract-level obligation names: side conditions (division denominators)
    and path suffixes depend on incidental code structure and are left out"""
    return sorted({n.split('@p')[0] for n in names if ':div.nonzero[' not in n and ':no_exception[' not in n})


def replay(path):
    _setup_paths()
    with open(path) as f:
        doc = json.load(f)
    from pvc import scen, core
    mod = importlib.import_module(doc['module'])
    if doc.get('contract') and hasattr(mod, doc['contract']) and doc.get('witness'):
        fn = getattr(mod, doc['contract'])
        core.new_context(0)
        w = doc['witness']
        pt = core.Point(w.get('seed', 'replay'), w.get('values', {}))
        nat = scen.run_native(fn, doc['cfg'], pt)
        if nat is None:
            print('replay: the stored point does not satisfy the preconditions on this tree')
            return 0
        bad = [r for r in nat if not r['ok'] and not r['canary']]
        for r in bad[:10]:
            print(f"replay: {r['name']} violated natively: lhs={r['lhs']!r} rhs={r['rhs']!r}")
        print(f"replay of {doc['obligation']}: {'REPRODUCED' if bad else 'not reproduced'}")
        return 1 if bad else 0
    if hasattr(mod, 'replay'):
        return mod.replay(doc)
    print('replay file carries no concrete input (no-failing-input-found); verifier output:')
    print(doc.get('verifier_output'))
    return 0
