"""Frame / ownership analyser: a small effect system over the AST of the real
dassh sources (read from /repo on every run).

readonly(f, p): no statement reachable from f stores through a reference derived
from parameter p.  References are tracked with two taint levels:
  deep  the object itself is part of the parameter's object graph
  elem  a fresh container whose elements are (deep) parts of the graph
Flows: attribute / subscript / container getters (.get .values .items), local
aliases, loop and comprehension targets, shallow copies (list(), dict(), .copy(),
sorted()), return values of dassh functions (summaries), arguments of dassh
functions / methods / constructors (callee analysed with that parameter tainted),
stores into self.<path> (an ESCAPE: the path is then tainted in every method of
the class, transitively).
Sinks: subscript / attribute assignment, augmented assignment, del, and calls of
mutator methods on a deep reference.
"""
from __future__ import annotations
import ast
import os

MUTATORS = {'append', 'extend', 'insert', 'remove', 'pop', 'clear', 'sort', 'reverse', 'update', 'setdefault',
            'popitem', 'fill', 'resize', 'put', 'itemset', '__setitem__', '__delitem__', 'add', 'discard'}
GETTERS_DEEP = {'get', 'values', 'items', '__getitem__'}
SHALLOW_COPY_FUNCS = {'list', 'dict', 'tuple', 'sorted', 'reversed', 'set', 'enumerate', 'zip', 'iter'}
CLEAN_FUNCS = {'float', 'int', 'str', 'bool', 'len', 'min', 'max', 'sum', 'abs', 'round', 'any', 'all', 'range',
               'isinstance', 'hasattr', 'print', 'repr', 'type', 'id', 'format', 'open'}
CLEAN_ATTR_CALLS = {'deepcopy', 'array', 'asarray', 'sort', 'unique', 'around', 'zeros', 'ones', 'loadtxt', 'join',
                    'exists', 'split', 'lower', 'upper', 'strip', 'keys', 'format', 'startswith', 'endswith',
                    'index', 'count', 'clone', 'log', 'abspath', 'isfile', 'isdir', 'dirname', 'basename'}
RANK = {None: 0, 'shell': 1, 'elem': 2, 'deep': 3}
SHELL_ATTRS = {'data'}


def _max(a, b):
    return a if RANK[a] >= RANK[b] else b


class Registry:
    def __init__(self, root):
        self.funcs = {}      # qualname -> (module, cls, FunctionDef)
        self.by_name = {}    # simple name -> [qualname]
        self.classes = {}    # class name -> {method name: qualname}, bases
        self.bases = {}
        for dirpath, _, files in os.walk(os.path.join(root, 'dassh')):
            for fn in files:
                if not fn.endswith('.py'):
                    continue
                path = os.path.join(dirpath, fn)
                mod = os.path.relpath(path, root)[:-3].replace(os.sep, '.')
                try:
                    tree = ast.parse(open(path).read())
                except SyntaxError:
                    continue
                for node in tree.body:
                    if isinstance(node, ast.FunctionDef):
                        self._add(mod, None, node)
                    elif isinstance(node, ast.ClassDef):
                        self.classes.setdefault(node.name, {})
                        self.bases[node.name] = [b.id if isinstance(b, ast.Name) else getattr(b, 'attr', None)
                                                 for b in node.bases]
                        for sub in node.body:
                            if isinstance(sub, ast.FunctionDef):
                                self._add(mod, node.name, sub)

    def _add(self, mod, cls, node):
        q = f'{mod}:{cls + "." if cls else ""}{node.name}'
        self.funcs[q] = (mod, cls, node)
        self.by_name.setdefault(node.name, []).append(q)
        if cls:
            self.classes[cls][node.name] = q

    def method(self, cls, name):
        seen = set()
        todo = [cls]
        while todo:
            c = todo.pop(0)
            if c in seen or c not in self.classes:
                continue
            seen.add(c)
            if name in self.classes[c]:
                return self.classes[c][name]
            todo.extend(b for b in self.bases.get(c, []) if b)
        return None

    def subclasses_and_self(self, cls):
        out = {cls}
        changed = True
        while changed:
            changed = False
            for c, bs in self.bases.items():
                if c not in out and any(b in out for b in bs):
                    out.add(c)
                    changed = True
        return out


def _is_fresh_array(node):
    return (isinstance(node, ast.Call) and isinstance(node.func, ast.Attribute)
            and node.func.attr in ('zeros', 'ones', 'empty', 'full', 'array', 'arange', 'linspace', 'zeros_like',
                                   'ones_like', 'copy', 'deepcopy')
            and isinstance(node.func.value, ast.Name) and node.func.value.id in ('np', 'numpy', 'copy'))


def path_of(e):
    """access path of Name / Attribute / Subscript-with-constant chains, else None"""
    if isinstance(e, ast.Name):
        return e.id
    if isinstance(e, ast.Attribute):
        p = path_of(e.value)
        return None if p is None else f'{p}.{e.attr}'
    if isinstance(e, ast.Subscript):
        p = path_of(e.value)
        if p is None:
            return None
        s = e.slice
        if isinstance(s, ast.Constant):
            return f'{p}[{s.value!r}]'
        return f'{p}[*]'
    return None


class Finding:
    def __init__(self, kind, func, lineno, text, via):
        self.kind, self.func, self.lineno, self.text, self.via = kind, func, lineno, text, via

    def key(self):
        return (self.kind, self.func, self.text)

    def __repr__(self):
        return f'{self.kind} in {self.func} line {self.lineno}: {self.text} [{self.via}]'


class Analyzer:
    def __init__(self, root, probe=None, samples=None):
        self.samples = samples or []
        self.reg = Registry(root)
        self.root = root
        self.findings = {}
        self.escapes = {}        # class -> {self-path: level}
        self.escape_sites = {}
        self.unresolved = set()
        self.summaries = {}      # (qualname, tainted params tuple) -> return taint
        self.stack = []
        self.analysed = set()
        self.probe = probe       # callable(path string rooted at the input) -> 'mutable' | 'immutable' | None

    # -- entry points --------------------------------------------------------------
    def readonly(self, qualname, params, level='deep'):
        self._analyse(qualname, {p: level for p in params}, via=f'{qualname}({",".join(params)})')
        # propagate escapes through all methods of the classes concerned until stable
        changed = True
        rounds = 0
        while changed and rounds < 10:
            rounds += 1
            changed = False
            for cls, paths in list(self.escapes.items()):
                for c in self.reg.subclasses_and_self(cls):
                    for mname, q in self.reg.classes.get(c, {}).items():
                        key = (q, tuple(sorted(paths)))
                        if key in self.analysed:
                            continue
                        self.analysed.add(key)
                        before = (len(self.findings), sum(len(v) for v in self.escapes.values()))
                        self._analyse(q, {}, via=f'escaped into {cls}', self_paths=dict(paths))
                        after = (len(self.findings), sum(len(v) for v in self.escapes.values()))
                        if after != before:
                            changed = True
        return list(self.findings.values())

    # -- per function ----------------------------------------------------------------
    def _analyse(self, qualname, tainted, via, self_paths=None):
        if qualname not in self.reg.funcs:
            return None
        key = (qualname, tuple(sorted(tainted.items())), tuple(sorted((self_paths or {}).items())))
        if key in self.summaries:
            return self.summaries[key]
        if key in self.stack:
            return None
        self.stack.append(key)
        mod, cls, node = self.reg.funcs[qualname]
        st = _FuncState(self, qualname, cls, dict(tainted), dict(self_paths or {}), via)
        if cls and cls in self.escapes:
            for p, v in self.escapes[cls].items():
                st.self_paths.setdefault(p, v)
        # two passes: aliases created late in a loop body are seen on the second pass
        for _ in range(2):
            st.ret = None
            for stmt in node.body:
                st.stmt(stmt)
        self.stack.pop()
        self.summaries[key] = st.ret
        return st.ret

    def copy_is_complete(self, node, st):
        """dict(X) / list(X) of an input sub-tree X whose elements are all immutable leaves in every
        sample input (run-time type probe on parsed sample inputs): nothing mutable is shared"""
        if not self.samples:
            return False
        p = path_of(node)
        if p is None or '[*]' in p:
            return False
        root = p.split('.')[0].split('[')[0]
        if st.t.get(root) not in ('shell', 'deep') or not p.startswith(root + '.data'):
            return False
        expr = 'x' + p[len(root):]
        for smp in self.samples:
            try:
                val = eval(expr, {'__builtins__': {}}, {'x': smp})
            except Exception:
                continue
            items = val.values() if isinstance(val, dict) else (val if isinstance(val, (list, tuple)) else None)
            if items is None:
                return False
            for it in items:
                if not isinstance(it, (int, float, str, bool, type(None), tuple)):
                    return False
        return True

    def report(self, kind, func, lineno, text, via):
        f = Finding(kind, func, lineno, text, via)
        self.findings.setdefault(f.key(), f)


class _FuncState:
    def __init__(self, an, qualname, cls, tainted, self_paths, via):
        self.an, self.q, self.cls, self.t, self.self_paths, self.via = an, qualname, cls, tainted, self_paths, via
        self.ret = None
        self.nd_paths = set()

    # taint of an expression ----------------------------------------------------------
    def taint(self, e):
        if e is None:
            return None
        if isinstance(e, ast.Name):
            return self.t.get(e.id)
        if isinstance(e, (ast.Attribute, ast.Subscript)):
            p = path_of(e)
            if p is not None and p.startswith('self'):
                for sp, lvl in self.self_paths.items():
                    if p == sp:
                        return 'elem' if lvl == 'elem' else 'deep'
                    if p.startswith(sp + '.') or p.startswith(sp + '['):
                        return 'deep'
            base = self.taint(e.value)
            if base is None:
                return None
            if base == 'shell':
                # the input object itself: only its .data tree is the parsed input
                if isinstance(e, ast.Attribute) and e.attr in SHELL_ATTRS:
                    return 'deep'
                return None
            if isinstance(e, ast.Attribute) and e.attr in ('shape', 'size', 'dtype', 'T', 'path', 'timepoints',
                                                               'materials', '_cccc_power', '_user_power'):
                return None
            return 'deep'
        if isinstance(e, ast.Call):
            return self.call(e)
        if isinstance(e, ast.IfExp):
            return _max(self.taint(e.body), self.taint(e.orelse))
        if isinstance(e, (ast.List, ast.Tuple, ast.Set)):
            lv = None
            for x in e.elts:
                lv = _max(lv, 'elem' if self.taint(x) in ('deep', 'elem') else None)
            return lv
        if isinstance(e, ast.Dict):
            lv = None
            for x in e.values:
                lv = _max(lv, 'elem' if self.taint(x) else None)
            return lv
        if isinstance(e, (ast.ListComp, ast.GeneratorExp, ast.SetComp)):
            saved = dict(self.t)
            for g in e.generators:
                self.bind_iter(g.target, g.iter)
            r = 'elem' if self.taint(e.elt) else None
            self.t = saved
            return r
        if isinstance(e, ast.DictComp):
            saved = dict(self.t)
            for g in e.generators:
                self.bind_iter(g.target, g.iter)
            r = 'elem' if self.taint(e.value) else None
            self.t = saved
            return r
        if isinstance(e, ast.BinOp):
            # list + list keeps element references; numbers do not matter
            if isinstance(e.op, ast.Add) and (self.taint(e.left) or self.taint(e.right)):
                return 'elem'
            return None
        if isinstance(e, ast.Starred):
            return self.taint(e.value)
        if isinstance(e, ast.NamedExpr):
            lv = self.taint(e.value)
            self.assign_target(e.target, lv, e)
            return lv
        return None

    def call(self, e):
        f = e.func
        args = list(e.args) + [k.value for k in e.keywords]
        arg_t = [self.taint(a) for a in args]
        # method call on an object
        if isinstance(f, ast.Attribute):
            obj_t = self.taint(f.value)
            if f.attr in MUTATORS and obj_t == 'deep':
                self.an.report('write', self.q, e.lineno, f'{ast.unparse(f.value)}.{f.attr}(...)', self.via)
            if obj_t == 'shell':
                obj_t = None
            if obj_t is not None:
                if f.attr in GETTERS_DEEP or f.attr in ('pop', 'setdefault'):
                    return 'deep'
                if f.attr == 'copy':
                    return 'elem' if obj_t else None
                if f.attr == 'keys':
                    return None
            if f.attr in CLEAN_ATTR_CALLS and f.attr != 'clone':
                return None
            # --- resolve the callee -----------------------------------------------------
            base = f.value
            bpath = path_of(base)
            if isinstance(base, ast.Name) and base.id == 'self' and self.cls:
                target = self.an.reg.method(self.cls, f.attr)
                if target is not None:
                    return self.invoke(target, e)
                return None
            if isinstance(base, ast.Name) and base.id in self.an.reg.classes:
                # Class.method(self, ...): explicit base-class call
                target = self.an.reg.method(base.id, f.attr)
                if target is not None:
                    return self.invoke(target, e, drop_first=True)
                return None
            if isinstance(base, ast.Call) and isinstance(base.func, ast.Name) and base.func.id == 'super' and self.cls:
                for b_ in self.an.reg.bases.get(self.cls, []):
                    target = self.an.reg.method(b_, f.attr) if b_ else None
                    if target:
                        return self.invoke(target, e)
                return None
            if bpath is not None:
                last = bpath.split('.')[-1]
                mods = {q.split(':')[0] for q in self.an.reg.funcs}
                hit = [m for m in mods if m == bpath or m.endswith('.' + last) and (bpath.count('.') == 0 or m.endswith(bpath))]
                if hit:
                    if f.attr in self.an.reg.classes:
                        init = self.an.reg.method(f.attr, '__init__')
                        if init:
                            self.invoke(init, e)
                        return None
                    q = f'{hit[0]}:{f.attr}'
                    if q in self.an.reg.funcs:
                        return self.invoke(q, e)
                    return None
            if f.attr in self.an.reg.classes and bpath is not None:
                init = self.an.reg.method(f.attr, '__init__')
                if init:
                    self.invoke(init, e)
                return None
            # unknown receiver: every class method of that name whose arity fits (over-approximation)
            if any(arg_t) and f.attr != '__init__':
                cands = [q for q in self.an.reg.by_name.get(f.attr, []) if self.an.reg.funcs[q][1] is not None]
                n_args = len(e.args)
                r = None
                found = False
                for q in cands:
                    node = self.an.reg.funcs[q][2]
                    if len(node.args.args) - 1 >= n_args:
                        found = True
                        r = _max(r, self.invoke(q, e))
                if not found and f.attr not in CLEAN_ATTR_CALLS:
                    self.an.unresolved.add(f'{self.q}: {ast.unparse(f)}(...)')
                return r
            return None
        if isinstance(f, ast.Name):
            if f.id in CLEAN_FUNCS:
                return None
            if f.id in SHALLOW_COPY_FUNCS:
                if any(arg_t) and len(e.args) == 1 and self.an.copy_is_complete(e.args[0], self):
                    return None     # every element is an immutable leaf: the shallow copy shares nothing mutable
                return 'elem' if any(arg_t) else None
            # class constructor or module function
            if f.id in self.an.reg.classes:
                init = self.an.reg.method(f.id, '__init__')
                if init:
                    self.invoke(init, e)
                return None
            cands = self.an.reg.by_name.get(f.id, [])
            cands = [c for c in cands if self.an.reg.funcs[c][1] is None]
            mymod = self.q.split(':')[0]
            same = [c for c in cands if c.split(':')[0] == mymod]
            cands = same or cands
            if len(cands) >= 1:
                r = None
                for c in cands:
                    r = _max(r, self.invoke(c, e))
                return r
            if any(arg_t):
                self.an.unresolved.add(f'{self.q}: {f.id}(...)')
        return None

    def invoke(self, target, e, drop_first=False):
        mod, cls, node = self.an.reg.funcs[target]
        params = [a.arg for a in node.args.args]
        if cls and params and params[0] in ('self', 'cls'):
            params = params[1:]
        call_args = list(e.args[1:]) if drop_first else list(e.args)
        tainted = {}
        for i, a in enumerate(call_args):
            if isinstance(a, ast.Starred):
                continue
            lv = self.taint(a)
            if lv and i < len(params):
                tainted[params[i]] = lv
        for k in e.keywords:
            lv = self.taint(k.value)
            if lv and k.arg:
                tainted[k.arg] = lv
        if not tainted:
            return None
        return self.an._analyse(target, tainted, via=f'{self.via} -> {target}')

    # binding ------------------------------------------------------------------------------
    def bind_iter(self, target, it):
        lv = self.taint(it)
        if lv == 'shell':
            lv = None
        if isinstance(it, ast.Call) and isinstance(it.func, ast.Attribute) and it.func.attr == 'keys':
            lv = None
        elem = 'deep' if lv else None
        if isinstance(it, ast.Call) and isinstance(it.func, ast.Name) and it.func.id in ('enumerate', 'zip') and lv:
            elem = 'deep'
        self.assign_target(target, elem, it, iterating=True)

    def assign_target(self, target, lv, value_node, iterating=False):
        if isinstance(target, ast.Name):
            if lv:
                self.t[target.id] = _max(self.t.get(target.id), lv)
            elif not iterating and target.id in self.t and self.t[target.id] != 'deep':
                self.t.pop(target.id, None)
            return
        if isinstance(target, (ast.Tuple, ast.List)):
            for el in target.elts:
                self.assign_target(el, lv, value_node, iterating)
            return
        if isinstance(target, (ast.Subscript, ast.Attribute)):
            base_t = self.taint(target.value)
            if base_t == 'deep':
                self.an.report('write', self.q, target.lineno, ast.unparse(target) + ' = ...', self.via)
            p = path_of(target)
            if lv == 'shell':
                if p is not None and p.startswith('self') and self.cls:
                    self.an.escapes.setdefault(self.cls, {}).setdefault(p, 'shell')
                    self.self_paths.setdefault(p, 'shell')
                lv = None
            if p is not None and value_node is not None and _is_fresh_array(value_node):
                self.nd_paths.add(p)
            into_array = p is not None and any(p.startswith(q + '[') for q in self.nd_paths)
            if lv and p is not None and p.startswith('self') and self.cls and not into_array:
                kind = None
                if self.an.probe is not None and value_node is not None:
                    kind = self.an.probe(value_node, self)
                if kind != 'immutable':
                    self.an.escapes.setdefault(self.cls, {}).setdefault(p, 'elem' if lv == 'elem' else 'deep')
                    self.an.escape_sites.setdefault((self.cls, p),
                        f'{self.q} line {target.lineno}: {ast.unparse(target)} = {ast.unparse(value_node)[:60]}')
                    self.self_paths.setdefault(p, 'elem' if lv == 'elem' else 'deep')

    # statements -----------------------------------------------------------------------------
    def stmt(self, s):
        if isinstance(s, ast.Assign):
            lv = self.taint(s.value)
            for tg in s.targets:
                self.assign_target(tg, lv, s.value)
        elif isinstance(s, ast.AnnAssign):
            if s.value is not None:
                self.assign_target(s.target, self.taint(s.value), s.value)
        elif isinstance(s, ast.AugAssign):
            tv = self.taint(s.value)
            if isinstance(s.target, (ast.Subscript, ast.Attribute)):
                if self.taint(s.target.value) == 'deep':
                    self.an.report('write', self.q, s.lineno, ast.unparse(s.target) + ' op= ...', self.via)
            elif isinstance(s.target, ast.Name) and tv:
                self.t[s.target.id] = _max(self.t.get(s.target.id), 'elem')
        elif isinstance(s, ast.Delete):
            for tg in s.targets:
                if isinstance(tg, (ast.Subscript, ast.Attribute)) and self.taint(tg.value) == 'deep':
                    self.an.report('write', self.q, s.lineno, 'del ' + ast.unparse(tg), self.via)
        elif isinstance(s, ast.Expr):
            self.taint(s.value)
        elif isinstance(s, ast.Return):
            self.ret = _max(self.ret, self.taint(s.value))
        elif isinstance(s, ast.For):
            self.bind_iter(s.target, s.iter)
            for _ in range(2):
                for b in s.body:
                    self.stmt(b)
            for b in s.orelse:
                self.stmt(b)
        elif isinstance(s, ast.While):
            self.taint(s.test)
            for _ in range(2):
                for b in s.body:
                    self.stmt(b)
        elif isinstance(s, ast.If):
            self.taint(s.test)
            for b in s.body + s.orelse:
                self.stmt(b)
        elif isinstance(s, ast.With):
            for it in s.items:
                lv = self.taint(it.context_expr)
                if it.optional_vars is not None:
                    self.assign_target(it.optional_vars, lv, it.context_expr)
            for b in s.body:
                self.stmt(b)
        elif isinstance(s, ast.Try):
            for b in s.body + s.orelse + s.finalbody:
                self.stmt(b)
            for h in s.handlers:
                for b in h.body:
                    self.stmt(b)
        elif isinstance(s, (ast.FunctionDef, ast.ClassDef, ast.Import, ast.ImportFrom, ast.Pass, ast.Break,
                            ast.Continue, ast.Global, ast.Nonlocal, ast.Assert, ast.Raise)):
            if isinstance(s, ast.Assert):
                self.taint(s.test)
        else:
            for child in ast.iter_child_nodes(s):
                if isinstance(child, ast.stmt):
                    self.stmt(child)


# =====================================================================================
# ownership: what a clone shares with its template vs what the sweep mutates in place
# =====================================================================================
FRESH_CALLS = {'deepcopy', 'clone', 'zeros', 'ones', 'array', 'empty', 'copy_tree'}


class Ownership:
    def __init__(self, root, samples=None):
        self.reg = Registry(root)
        # run-time type probe: class name -> a live object of that class (built from a generated problem); used only
        # to recognise `<receiver>.update(T)` as the refresh of a dassh Material (every property rebound from T)
        self.samples = samples or {}
        self.refresh_sites = []
        self.shallow = {}            # class -> {attribute copied shallowly by clone(): keys re-assigned afresh}
        self.deep_stores = {}        # class -> {attribute: {constant key below which the sweep stores in place}}

    def _is_material_refresh(self, cls, call):
        """`recv.update(x)` with recv reached from self and, on the sample object of cls, a dassh Material (or a
        container holding only Materials)"""
        if call.func.attr != 'update' or len(call.args) != 1 or call.keywords:
            return False
        obj = self.samples.get(cls)
        if obj is None:
            return False

        def ev(e):
            if isinstance(e, ast.Name):
                if e.id == 'self':
                    return [obj]
                raise KeyError(e.id)
            if isinstance(e, ast.Attribute):
                return [getattr(o, e.attr) for o in ev(e.value)]
            if isinstance(e, ast.Subscript):
                base = ev(e.value)
                out = []
                for b in base:
                    if isinstance(e.slice, ast.Constant):
                        out.append(b[e.slice.value])
                    elif isinstance(b, dict):
                        out.extend(b.values())
                    else:
                        out.extend(list(b))
                return out
            raise KeyError(type(e).__name__)
        try:
            vals = ev(call.func.value)
        except Exception:
            return False
        ok = bool(vals) and all(any(k.__name__ == 'Material' and k.__module__.startswith('dassh')
                                    for k in type(v).__mro__) for v in vals)
        if ok:
            self.refresh_sites.append(f'{cls}: {ast.unparse(call)[:60]}')
        return ok

    def _mro(self, cls):
        out, todo = [], [cls]
        while todo:
            c = todo.pop(0)
            if c in out or c not in self.reg.classes:
                continue
            out.append(c)
            todo.extend(b for b in self.reg.bases.get(c, []) if b)
        return out

    def _method(self, cls, name):
        q = self.reg.method(cls, name)
        return self.reg.funcs[q][2] if q else None

    def universe(self, cls):
        """attribute names assigned on self anywhere in the class hierarchy"""
        attrs = {}
        for c in self._mro(cls):
            for mname, q in self.reg.classes[c].items():
                node = self.reg.funcs[q][2]
                for n in ast.walk(node):
                    targets = []
                    if isinstance(n, ast.Assign):
                        targets = n.targets
                    elif isinstance(n, (ast.AugAssign, ast.AnnAssign)):
                        targets = [n.target]
                    for tg in targets:
                        if isinstance(tg, ast.Attribute) and isinstance(tg.value, ast.Name) and tg.value.id == 'self':
                            attrs.setdefault(tg.attr, []).append((q, getattr(n, 'value', None)))
                    # attributes only READ on self (assigned from outside the class, e.g. `rr.pin_model = PinModel(..)`
                    # in a module-level factory) exist on the instances as well
                    if isinstance(n, ast.Attribute) and isinstance(n.value, ast.Name) and n.value.id == 'self' \
                            and isinstance(n.ctx, ast.Load) and not self.reg.method(c, n.attr):
                        attrs.setdefault(n.attr, [])
                    # setattr(self, k, ...) with keys of a dict built in a module function
                    if isinstance(n, ast.Call) and isinstance(n.func, ast.Name) and n.func.id == 'setattr':
                        attrs.setdefault('<setattr>', []).append((q, None))
        return attrs

    @staticmethod
    def _is_fresh_value(v):
        if v is None:
            return False
        if isinstance(v, (ast.Constant, ast.List, ast.Dict, ast.Tuple, ast.BinOp, ast.ListComp, ast.DictComp,
                          ast.Compare, ast.BoolOp, ast.UnaryOp, ast.IfExp)):
            return True
        if isinstance(v, ast.Call):
            f = v.func
            nm = f.attr if isinstance(f, ast.Attribute) else (f.id if isinstance(f, ast.Name) else '')
            return True if nm else False     # any call builds / returns a value of its own (constructors, clone, deepcopy)
        return False

    def assigned_by(self, cls, mname, seen=None):
        """attributes (first level) assigned with a fresh value by method mname, transitively through self.m() calls"""
        seen = seen or set()
        if (cls, mname) in seen:
            return set()
        seen.add((cls, mname))
        node = self._method(cls, mname)
        if node is None:
            return set()
        out = set()
        for n in ast.walk(node):
            if isinstance(n, ast.Assign):
                for tg in n.targets:
                    tgs = tg.elts if isinstance(tg, ast.Tuple) else [tg]
                    for t in tgs:
                        if isinstance(t, ast.Attribute) and isinstance(t.value, ast.Name) and t.value.id == 'self' \
                                and (self._is_fresh_value(n.value) or isinstance(tg, ast.Tuple)):
                            out.add(t.attr)
            if isinstance(n, ast.Call) and isinstance(n.func, ast.Attribute) and isinstance(n.func.value, ast.Name) \
                    and n.func.value.id == 'self':
                out |= self.assigned_by(cls, n.func.attr, seen)
        return out

    def clone_shared(self, cls, mname='clone'):
        """(shared attribute names, fresh attribute names) of cls.clone(): attributes of the
        shallow copy that still reference the template's objects"""
        node = self._method(cls, mname)
        if node is None:
            return None, None
        var = None
        for n in ast.walk(node):
            if isinstance(n, ast.Assign) and isinstance(n.value, ast.Call) and isinstance(n.value.func, ast.Attribute) \
                    and n.value.func.attr == 'copy' and len(n.targets) == 1 and isinstance(n.targets[0], ast.Name):
                var = n.targets[0].id
        if var is None:
            return None, None
        fresh = set()
        for n in ast.walk(node):
            if isinstance(n, ast.Assign):
                for tg in n.targets:
                    if isinstance(tg, ast.Attribute) and isinstance(tg.value, ast.Name) and tg.value.id == var:
                        v = n.value
                        # `clone.x = self.x`, `self.x[:]`, `self.x[a:b]`, `self.x.T` ... : the template's object or a view of it
                        base = v
                        while isinstance(base, (ast.Attribute, ast.Subscript)):
                            base = base.value
                        aliases_self = isinstance(v, (ast.Attribute, ast.Subscript)) and isinstance(base, ast.Name) \
                            and base.id == 'self'
                        if not aliases_self:
                            fresh.add(tg.attr)
                        # a SHALLOW copy of the template's container (dict(self.x), list(self.x), copy.copy(self.x),
                        # self.x.copy()): a new outer object whose nested containers are still the template's
                        if isinstance(v, ast.Call):
                            f = v.func
                            nm = f.attr if isinstance(f, ast.Attribute) else (f.id if isinstance(f, ast.Name) else '')
                            args = list(v.args) + ([f.value] if isinstance(f, ast.Attribute) and nm == 'copy' else [])
                            src = [a for a in args if isinstance(a, ast.Attribute) and isinstance(a.value, ast.Name)
                                   and a.value.id == 'self']
                            if nm in ('dict', 'list', 'copy', 'OrderedDict') and src and 'deepcopy' not in ast.unparse(v):
                                self.shallow.setdefault(cls, {}).setdefault(tg.attr, set())
                    # clone.x['key'] = <fresh value>: that nested entry is the clone's own
                    if isinstance(tg, ast.Subscript) and isinstance(tg.value, ast.Attribute) \
                            and isinstance(tg.value.value, ast.Name) and tg.value.value.id == var \
                            and isinstance(tg.slice, ast.Constant) and self._is_fresh_value(n.value):
                        self.shallow.setdefault(cls, {}).setdefault(tg.value.attr, set()).add(tg.slice.value)
            if isinstance(n, ast.Call) and isinstance(n.func, ast.Attribute) and isinstance(n.func.value, ast.Name) \
                    and n.func.value.id == var:
                fresh |= self.assigned_by(cls, n.func.attr)
            # setattr(clone, attr, deepcopy(...)) in a loop over literal names
            if isinstance(n, ast.For) and isinstance(n.iter, (ast.List, ast.Tuple)):
                names = [e.value for e in n.iter.elts if isinstance(e, ast.Constant)]
                for sub in ast.walk(n):
                    if isinstance(sub, ast.Call) and isinstance(sub.func, ast.Name) and sub.func.id == 'setattr' \
                            and sub.args and isinstance(sub.args[0], ast.Name) and sub.args[0].id == var:
                        fresh |= set(names)
        # attributes the CALLERS of clone() assign on the clone right away (`a = tmpl.clone(..); a.power = AssemblyPower(..)`)
        fresh |= self.refreshed_by_callers(mname)
        uni = set(self.universe(cls)) - {'<setattr>'}
        return uni - fresh, fresh

    def refreshed_by_callers(self, mname='clone'):
        out = set()
        for q, (mod, cls, node) in self.reg.funcs.items():
            clones = set()
            for n in ast.walk(node):
                if isinstance(n, ast.Assign) and len(n.targets) == 1 and isinstance(n.targets[0], ast.Name) \
                        and isinstance(n.value, ast.Call) and isinstance(n.value.func, ast.Attribute) \
                        and n.value.func.attr == mname:
                    clones.add(n.targets[0].id)
            if not clones:
                continue
            for n in ast.walk(node):
                if isinstance(n, ast.Assign):
                    for tg in n.targets:
                        if isinstance(tg, ast.Attribute) and isinstance(tg.value, ast.Name) and tg.value.id in clones \
                                and self._is_fresh_value(n.value):
                            out.add(tg.attr)
        return out

    def _mutating_methods(self):
        """method names (any class) that assign attributes of their own object"""
        out = {}
        for q, (mod, cls, node) in self.reg.funcs.items():
            if cls is None:
                continue
            for n in ast.walk(node):
                tg = None
                if isinstance(n, ast.Assign):
                    tg = n.targets[0]
                elif isinstance(n, ast.AugAssign):
                    tg = n.target
                base = tg
                while isinstance(base, (ast.Attribute, ast.Subscript)):
                    base = base.value
                if tg is not None and isinstance(base, ast.Name) and base.id == 'self' and tg is not base:
                    out.setdefault(node.name, set()).add(cls)
                if isinstance(n, ast.Call) and isinstance(n.func, ast.Name) and n.func.id == 'setattr':
                    out.setdefault(node.name, set()).add(cls)
                # mutator calls on something reached from self (self.x.append(..), self.d['k'].update(..))
                if isinstance(n, ast.Call) and isinstance(n.func, ast.Attribute) and n.func.attr in MUTATORS:
                    base = n.func.value
                    depth = 0
                    while isinstance(base, (ast.Attribute, ast.Subscript)):
                        base = base.value
                        depth += 1
                    if isinstance(base, ast.Name) and base.id == 'self' and depth >= 1 \
                            and not self._is_material_refresh(cls, n):
                        out.setdefault(node.name, set()).add(cls)
        # transitive: a method that calls self.m() with m mutating (same class) mutates its object too
        calls = {}
        for q, (mod, cls, node) in self.reg.funcs.items():
            if cls is None:
                continue
            for n in ast.walk(node):
                if isinstance(n, ast.Call) and isinstance(n.func, ast.Attribute) and isinstance(n.func.value, ast.Name) \
                        and n.func.value.id == 'self':
                    calls.setdefault((cls, node.name), set()).add(n.func.attr)
        changed = True
        while changed:
            changed = False
            for (cls, name), callees in calls.items():
                if cls in out.get(name, ()):
                    continue
                if any(cls in out.get(c, ()) for c in callees):
                    out.setdefault(name, set()).add(cls)
                    changed = True
        return out

    def mutated_in_place(self, cls, entry_methods):
        """first-level attributes of self whose OBJECT is modified in place by the methods reachable
        from entry_methods (through self.m() calls)"""
        mut_methods = self._mutating_methods()
        array_like = set()
        for a, sites in self.universe(cls).items():
            for q, v in sites:
                if isinstance(v, ast.Call) and isinstance(v.func, ast.Attribute) and v.func.attr in (
                        'zeros', 'ones', 'array', 'empty', 'zeros_like', 'ones_like'):
                    array_like.add(a)
                if isinstance(v, (ast.List, ast.Dict)):
                    array_like.add(a)
        seen, todo, M = set(), list(entry_methods), {}
        while todo:
            m = todo.pop()
            if m in seen:
                continue
            seen.add(m)
            node = self._method(cls, m)
            if node is None:
                continue
            for n in ast.walk(node):
                if isinstance(n, ast.Attribute) and isinstance(n.value, ast.Name) and n.value.id == 'self' \
                        and isinstance(n.ctx, ast.Load):
                    pass
                tg = None
                if isinstance(n, ast.Assign):
                    for t in n.targets:
                        self._note_store(t, M, m, depth_min=2)
                elif isinstance(n, ast.AugAssign):
                    self._note_store(n.target, M, m, depth_min=2)
                    t = n.target
                    if isinstance(t, ast.Attribute) and isinstance(t.value, ast.Name) and t.value.id == 'self' \
                            and t.attr in array_like:
                        M.setdefault(t.attr, []).append(f'{m}: {ast.unparse(n)[:70]}')
                if isinstance(n, ast.Call) and isinstance(n.func, ast.Attribute):
                    recv = n.func.value
                    if isinstance(recv, ast.Name) and recv.id == 'self':
                        todo.append(n.func.attr)
                        continue
                    base = recv
                    chain = []
                    while isinstance(base, (ast.Attribute, ast.Subscript)):
                        chain.append(base)
                        base = base.value
                    if isinstance(base, ast.Name) and base.id == 'self' and chain:
                        first = chain[-1]
                        attr = first.attr if isinstance(first, ast.Attribute) else None
                        if attr is None:
                            continue
                        if n.func.attr in MUTATORS or n.func.attr in mut_methods:
                            M.setdefault(attr, []).append(f'{m}: {ast.unparse(n)[:70]}')
            # properties used by the sweep
        return M

    def nested_stores(self, cls, entry_methods):
        """{attribute: keys} for stores of the form self.attr[<const key>][...] = ... (or mutator calls on such a
        receiver) in the methods reachable from entry_methods: in-place changes BELOW a nested container"""
        out = {}
        seen, todo = set(), list(entry_methods)
        while todo:
            m = todo.pop()
            if m in seen:
                continue
            seen.add(m)
            node = self._method(cls, m)
            if node is None:
                continue
            for n in ast.walk(node):
                if isinstance(n, ast.Call) and isinstance(n.func, ast.Attribute) and isinstance(n.func.value, ast.Name) \
                        and n.func.value.id == 'self':
                    todo.append(n.func.attr)
                tgs = []
                if isinstance(n, ast.Assign):
                    tgs = list(n.targets)
                elif isinstance(n, ast.AugAssign):
                    tgs = [n.target]
                elif isinstance(n, ast.Call) and isinstance(n.func, ast.Attribute) and n.func.attr in MUTATORS:
                    tgs = [ast.Subscript(value=n.func.value, slice=ast.Constant(value=None), ctx=ast.Store())]
                for t in tgs:
                    chain, base = [], t
                    while isinstance(base, (ast.Attribute, ast.Subscript)):
                        chain.append(base)
                        base = base.value
                    if not (isinstance(base, ast.Name) and base.id == 'self') or len(chain) < 3:
                        continue
                    first, second = chain[-1], chain[-2]
                    if isinstance(first, ast.Attribute) and isinstance(second, ast.Subscript):
                        key = second.slice.value if isinstance(second.slice, ast.Constant) else '*'
                        out.setdefault(first.attr, set()).add(key)
        return out

    @staticmethod
    def _note_store(t, M, m, depth_min):
        base, depth = t, 0
        first = None
        while isinstance(base, (ast.Attribute, ast.Subscript)):
            first = base
            base = base.value
            depth += 1
        if isinstance(base, ast.Name) and base.id == 'self' and depth >= depth_min and isinstance(first, ast.Attribute):
            M.setdefault(first.attr, []).append(f'{m}: {ast.unparse(t)[:70]} = ...')
