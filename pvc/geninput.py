"""Generated DASSH problems (input file + user power CSV) for native replays and
bounded run-time contracts.  Everything is written under a caller-supplied
scratch directory; nothing here reads /verif state."""
from __future__ import annotations
import os

# spiral positions (ring, position) for the first 7 / 19 core positions
POS7 = [(1, 1)] + [(2, k) for k in range(1, 7)]
POS19 = POS7 + [(3, k) for k in range(1, 13)]


def n_pins(n_ring):
    return 3 * n_ring * (n_ring - 1) + 1


def n_sc(n_ring):
    return 6 * (n_ring * n_ring - n_ring + 1)


def n_duct_cells(n_ring):
    return 6 * n_ring


def asm_block(name, n_ring=2, pitch=0.0040, dpin=0.0032, wire=0.0004, clr=0.0002, wall=0.001, n_duct=1,
              byp=0.0015, pin_model=None, unrodded=None, low_fidelity=None, grid=None, wdir='counterclockwise',
              hotspot=False, length=1.0, conv_factor=None, outer=None, duct_mat='ss316'):
    inner = 3 ** 0.5 * (n_ring - 1) * pitch + dpin + 2 * wire + clr
    if outer is not None:
        # all assemblies must share the outer flat-to-flat distance: widen the clearance
        inner = outer - 2 * wall - (n_duct - 1) * (2 * wall + 2 * byp)
    ftf = []
    x = inner
    for i in range(n_duct):
        ftf += [x, x + 2 * wall]
        x += 2 * wall + 2 * byp
    s = f"""    [[{name}]]
        num_rings       = {n_ring}
        pin_pitch       = {pitch}
        pin_diameter    = {dpin}
        clad_thickness  = 0.0003
        wire_pitch      = 0.15
        wire_diameter   = {wire}
        wire_direction  = {wdir}
        duct_ftf        = {', '.join(repr(round(v, 9)) for v in ftf)}
        duct_material   = {duct_mat}
        corr_mixing     = CTD
        corr_friction   = CTD
        corr_flowsplit  = CTD
        corr_nusselt    = DB
        htc_params_duct = 0.025, 0.8, 0.8, 7.0
"""
    if n_duct > 1:
        s += "        bypass_gap_flow_fraction = 0.05\n"
    if low_fidelity:
        s += f"        use_low_fidelity_model = True\n        low_fidelity_model = {low_fidelity}\n"
        s += f"        convection_factor = {conv_factor if conv_factor is not None else 'calculate'}\n"
    if unrodded:
        s += "        [[[AxialRegion]]]\n"
        for nm, lo, hi, model in unrodded:
            s += (f"            [[[[{nm}]]]]\n                z_lo       = {lo}\n                z_hi       = {hi}\n"
                  f"                vf_coolant = 0.3\n                model = {model}\n")
            if conv_factor is not None:
                s += f"                convection_factor = {conv_factor}\n"
    if grid:
        s += ("        [[[SpacerGrid]]]\n            loss_coeff = 1.2\n            axial_positions = "
              + ', '.join(str(g) for g in grid) + (',' if len(grid) == 1 else '') + "\n")
    if pin_model == 'fuel':
        s += ("        [[[FuelModel]]]\n            gap_thickness = 0.0\n            clad_material   = ss316\n"
              "            r_frac   =  0.0, 0.33333, 0.66667\n            pu_frac  = 0.20,    0.20,    0.20\n"
              "            zr_frac  = 0.10,    0.10,    0.10\n            porosity = 0.25,    0.25,    0.25\n")
    elif pin_model == 'pin':
        s += ("        [[[PinModel]]]\n            clad_material = ss316\n            r_frac        =  0.0, 0.5\n"
              "            pin_material  = fuel_fixed, fuel_fixed\n")
    if hotspot and pin_model:
        s += ("        [[[Hotspot]]]\n            [[[[clad]]]]\n                temperature = clad_mw\n"
              "                subfactors = fftf_clad_mw\n")
    return s, ftf[-1]


def power_csv(path, asm_list, length=1.0, n_cells=2, shape=(1.0, 0.5), scale=1000.0, components=('pins', 'duct', 'cool'),
              vary=True, ids=None):
    """asm_list: [(n_ring or 0 for unrodded-only, n_duct)] per assembly (1-based ids in file).
    Linear power per item: scale * (c0 + c1 * zeta), zeta in [-1/2, 1/2] within each power cell."""
    rows = []
    for k_, (n_ring, n_duct) in enumerate(asm_list):
        a = ids[k_] if ids is not None else k_ + 1
        # n_cells may be a list: one axial power mesh per assembly (in the order of the position ids)
        nc_a = n_cells[k_ % len(n_cells)] if isinstance(n_cells, (list, tuple)) else n_cells
        edges = [round(length * k / nc_a, 9) for k in range(nc_a + 1)]
        counts = {'pins': n_pins(n_ring), 'duct': n_duct_cells(n_ring) * n_duct, 'cool': n_sc(n_ring)}
        for ci, comp in enumerate(('pins', 'duct', 'cool'), start=1):
            if comp not in components:
                continue
            for k in range(nc_a):
                for item in range(1, counts[comp] + 1):
                    w = (1.0 + 0.1 * ((item * 7 + a * 3 + k) % 5)) if vary else 1.0
                    f = {'pins': 1.0, 'duct': 0.02, 'cool': 0.01}[comp]
                    c0 = scale * f * w * shape[0] * (1.0 + 0.3 * k)
                    c1 = scale * f * w * shape[1]
                    rows.append(f'{a},{ci},{edges[k]},{edges[k + 1]},{item},{c0},{c1}')
    with open(path, 'w') as f:
        f.write('\n'.join(rows) + '\n')


def write_problem(wd, asms=None, positions=None, gap_model='flow', length=1.0, total_power=None, n_cells=2,
                  setup_extra='', units=None, timepoints=1, components=('pins', 'duct', 'cool'), flow=None,
                  scaling=1.0, assembly_pitch=None, coolant='sodium_fixed'):
    """asms: dict name -> kwargs of asm_block; positions: list of (name, ring, pos, flowrate)"""
    os.makedirs(wd, exist_ok=True)
    asms = asms or {'a1': {}}
    blocks = []
    outer = 0.0
    for nm, kw in asms.items():
        b, o = asm_block(nm, length=length, **kw)
        outer = max(outer, o)
    outer = round(outer, 9)
    for nm, kw in asms.items():
        b, o = asm_block(nm, length=length, outer=outer, **kw)
        blocks.append(b)
    if positions is None:
        nm = list(asms)[0]
        positions = [(nm, 1, 1, 0.3)]
    pitch = assembly_pitch or (outer + 0.004)
    # power file: one entry per position, in position order
    plist = []

    def dassh_id(ring, pos):
        return 0 if ring == 1 else 3 * (ring - 2) * (ring - 1) + pos
    # the power file is indexed by DASSH position id, not by the order of the assignment list
    pids = []
    for (nm, ring, pos, fr) in sorted(positions, key=lambda t: dassh_id(t[1], t[2])):
        kw = asms[nm]
        plist.append((kw.get('n_ring', 2), kw.get('n_duct', 1)))
        pids.append(dassh_id(ring, pos) + 1)
    pfiles = []
    for t in range(timepoints):
        pf = os.path.join(wd, f'power_{t}.csv')
        power_csv(pf, plist, length=length, n_cells=n_cells, scale=1000.0 * (1 + 0.25 * t), components=components,
                  ids=pids)
        pfiles.append(os.path.basename(pf))
    assign = '\n'.join(f'        {nm} = {ring}, {pos}, {pos}, FLOWRATE={fr}' for nm, ring, pos, fr in positions)
    txt = f"""[Setup]
    calc_energy_balance = True
{setup_extra}
"""
    if units:
        txt += "    [[Units]]\n" + ''.join(f'        {k} = {v}\n' for k, v in units.items())
    txt += f"""
[Materials]
    [[sodium_fixed]]
        thermal_conductivity = 75.0
        heat_capacity = 1275.0
        density = 850.0
        viscosity = 0.00025
    [[fuel_fixed]]
        thermal_conductivity = 20.0

[Power]
    user_power  = {', '.join(pfiles)}
    power_scaling_factor = {scaling}
"""
    if total_power is not None:
        txt += f"    total_power = {total_power}\n"
    txt += f"""
[Core]
    coolant_inlet_temp = 623.15
    coolant_material   = {coolant}
    length             = {length}
    assembly_pitch     = {round(pitch, 9)}
    gap_model          = {gap_model}
    bypass_fraction    = 0.05

[Assembly]
{''.join(blocks)}
[Assignment]
    [[ByPosition]]
{assign}
"""
    path = os.path.join(wd, 'input.txt')
    with open(path, 'w') as f:
        f.write(txt)
    return path


def build(path, wd=None, sweep=False, **kw):
    """DASSH_Input + Reactor (+ sweep) from a generated problem; returns (inp, reactor)"""
    import logging
    import dassh
    logging.getLogger('dassh').setLevel(logging.CRITICAL)
    inp = dassh.DASSH_Input(path)
    r = dassh.Reactor(inp, path=wd or os.path.dirname(path), write_output=False, **kw)
    if sweep:
        r.temperature_sweep()
    return inp, r
