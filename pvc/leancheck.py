"""Ghost lemmas in Lean 4 + Mathlib (/verif/lean/Ghost.lean): the induction / composition steps that
turn the per-step contracts proved on the real code into whole-sweep statements.  The file is compiled
with `lean` together with `#print axioms` for every lemma a property uses; a lemma counts as proved
iff the compilation has no error, the source has no sorry / admit / axiom, and the lemma depends
only on the standard axioms (propext, Classical.choice, Quot.sound)."""
from __future__ import annotations
import hashlib
import json
import os
import re
import shutil
import subprocess
import tempfile
import time

ROOT = os.path.dirname(os.path.dirname(os.path.abspath(__file__)))
SRC = os.path.join(ROOT, 'lean', 'Ghost.lean')
STANDARD = {'propext', 'Classical.choice', 'Quot.sound'}


def _compile(names):
    src = open(SRC).read()
    bad_words = [w for w in ('sorry', 'admit') if re.search(r'\b' + w + r'\b', re.sub(r'/-.*?-/', '', src, flags=re.S))]
    if re.search(r'^\s*axiom\b', src, flags=re.M):
        bad_words.append('axiom')
    wd = tempfile.mkdtemp(prefix='lean_')
    try:
        path = os.path.join(wd, 'GhostCheck.lean')
        with open(path, 'w') as f:
            f.write(src + '\n' + '\n'.join(f'#print axioms Ghost.{n}' for n in names) + '\n')
        t0 = time.time()
        pr = subprocess.run(['lean', path], capture_output=True, text=True, timeout=1500, cwd=wd)
        out = pr.stdout + pr.stderr
        return dict(returncode=pr.returncode, output=out, seconds=time.time() - t0, bad_words=bad_words)
    finally:
        shutil.rmtree(wd, ignore_errors=True)


def results(names, tier):
    """-> list of result records (driver 'extra' format) for the given lemma names; thorough tier only"""
    if tier != 'thorough':
        return []
    names = list(names)
    try:
        r = _compile(names)
    except Exception as e:       # lean missing / timeout: undecided, never a verdict
        return [dict(name=f'lean.{n}', status='undecided', backend='lean4+mathlib', seconds=0.0,
                     detail=f'lean could not be run: {type(e).__name__}: {e}') for n in names]
    errors = [ln for ln in r['output'].splitlines() if ': error' in ln]
    out = []
    for n in names:
        m = re.search(r"'Ghost\." + re.escape(n) + r"' depends on axioms: \[(.*?)\]", r['output'], flags=re.S)
        none = re.search(r"'Ghost\." + re.escape(n) + r"' does not depend on any axioms", r['output'])
        axioms = set(a.strip() for a in m.group(1).replace('\n', ' ').split(',')) if m else (set() if none else None)
        ok = (r['returncode'] == 0 and not errors and not r['bad_words'] and axioms is not None and axioms <= STANDARD)
        detail = f'axioms: {sorted(axioms) if axioms is not None else "?"}'
        if not ok:
            detail += ' ; ' + ('; '.join(errors[:3]) or f'returncode {r["returncode"]}') + (f' ; found {r["bad_words"]}' if r['bad_words'] else '')
        out.append(dict(name=f'lean.{n}', status='proved' if ok else 'undecided', backend='lean4+mathlib',
                        seconds=r['seconds'] / max(1, len(names)), detail=detail, sample=True))
    return out
