"""Mechanical loop cutting on the REAL source: the function's AST is read from
/repo on every run, the n-th loop is located, and its test and body are compiled
verbatim in the function's own module namespace.  Nothing of the loop is dropped
or rewritten; the caller supplies the (havocked) local state as a dict."""
from __future__ import annotations
import ast
import inspect
import textwrap


class Cut:
    def __init__(self, func, ordinal=0):
        self.func = func
        src = textwrap.dedent(inspect.getsource(func))
        tree = ast.parse(src)
        fdef = tree.body[0]
        loops = [n for n in ast.walk(fdef) if isinstance(n, (ast.While, ast.For))]
        loops.sort(key=lambda n: (n.lineno, n.col_offset))
        self.loop = loops[ordinal]
        self.kind = type(self.loop).__name__
        self.source = ast.unparse(self.loop)
        mod = ast.Module(body=self.loop.body, type_ignores=[])
        ast.fix_missing_locations(mod)
        self.body_code = compile(mod, f'<loop body of {func.__qualname__}>', 'exec')
        if isinstance(self.loop, ast.While):
            ex = ast.Expression(self.loop.test)
            ast.fix_missing_locations(ex)
            self.test_code = compile(ex, f'<loop test of {func.__qualname__}>', 'eval')
        # statements before the loop (prefix) at the top level of the function
        self.prefix = [n for n in fdef.body if n.lineno < self.loop.lineno and not isinstance(n, ast.Expr)]
        stores = {n.id for s in self.loop.body for n in ast.walk(s) if isinstance(n, ast.Name) and isinstance(n.ctx, ast.Store)}
        loads = {n.id for s in self.loop.body for n in ast.walk(s) if isinstance(n, ast.Name) and isinstance(n.ctx, ast.Load)}
        self.assigned = sorted(stores)
        self.read = sorted(loads)

    def run_body(self, env):
        g = self.func.__globals__
        exec(self.body_code, g, env)
        return env

    def run_test(self, env):
        return eval(self.test_code, self.func.__globals__, env)
