"""Mechanical loop cutting on the REAL source: the function's AST is read from
/repo on every run, the n-th loop is located, and its test and body are compiled
verbatim in the function's own module namespace.  Nothing of the loop is dropped
or rewritten; the caller supplies the (havocked) local state as a dict."""
from __future__ import annotations
import ast
import inspect
import textwrap


class Cut:
    def __init__(self, func, ordinal=0, kind=None):
        self.func = func
        src = textwrap.dedent(inspect.getsource(func))
        tree = ast.parse(src)
        fdef = tree.body[0]
        want = {'While': (ast.While,), 'For': (ast.For,), None: (ast.While, ast.For)}[kind]
        loops = [n for n in ast.walk(fdef) if isinstance(n, want)]
        loops.sort(key=lambda n: (n.lineno, n.col_offset))
        self.loop = loops[ordinal]
        self.kind = type(self.loop).__name__
        self.source = ast.unparse(self.loop)
        mod = ast.Module(body=self.loop.body, type_ignores=[])
        ast.fix_missing_locations(mod)
        try:
            self.body_code = compile(mod, f'<loop body of {func.__qualname__}>', 'exec')
        except SyntaxError:
            self.body_code = None        # body contains return / break / continue: use run_body_fn
        if isinstance(self.loop, ast.While):
            ex = ast.Expression(self.loop.test)
            ast.fix_missing_locations(ex)
            self.test_code = compile(ex, f'<loop test of {func.__qualname__}>', 'eval')
        self.fdef = fdef
        # statements before the loop (prefix) at the top level of the function
        self.prefix = [n for n in fdef.body if n.lineno < self.loop.lineno and not isinstance(n, ast.Expr)]
        stores = {n.id for s in self.loop.body for n in ast.walk(s) if isinstance(n, ast.Name) and isinstance(n.ctx, ast.Store)}
        loads = {n.id for s in self.loop.body for n in ast.walk(s) if isinstance(n, ast.Name) and isinstance(n.ctx, ast.Load)}
        self.assigned = sorted(stores)
        self.read = sorted(loads)

    def run_body(self, env):
        g = self.func.__globals__
        exec(self.body_code, g, env)
        return env

    def run_body_before(self, inner, env):
        """execute the statements of this loop's body that precede the nested loop `inner` (another Cut of the same
        function); the nested loop itself and what follows it are not executed"""
        idx = None
        for i, st in enumerate(self.loop.body):
            if st.lineno == inner.loop.lineno and type(st) is type(inner.loop):
                idx = i
        if idx is None:
            raise ValueError('inner loop is not a direct statement of this loop body')
        mod = ast.Module(body=self.loop.body[:idx], type_ignores=[])
        ast.fix_missing_locations(mod)
        exec(compile(mod, f'<loop body (head) of {self.func.__qualname__}>', 'exec'), self.func.__globals__, env)
        self.tail_after_inner = self.loop.body[idx + 1:]
        return env

    def run_test(self, env):
        return eval(self.test_code, self.func.__globals__, env)

    def _top_index(self):
        for i, n in enumerate(self.fdef.body):
            if n is self.loop:
                return i
        raise ValueError('loop is not a top-level statement of the function')

    def run_prefix(self_cut, **args):
        """execute the statements before the loop with the given arguments; returns the locals"""
        i = self_cut._top_index()
        body = [n for n in self_cut.fdef.body[:i]] + [ast.parse('return locals()').body[0].value and
                                                   ast.Return(value=ast.Call(func=ast.Name(id='locals', ctx=ast.Load()),
                                                                             args=[], keywords=[]))]
        return self_cut._call('__prefix__', body, args)

    def run_suffix(self, env):
        """execute the statements after the loop from the given local state; returns the function's result"""
        i = self._top_index()
        return self._call('__suffix__', list(self.fdef.body[i + 1:]), env)

    def _call(self, name, body, env):
        names = sorted(env)
        fd = ast.FunctionDef(name=name, args=ast.arguments(posonlyargs=[], args=[ast.arg(arg=n) for n in names],
                                                           kwonlyargs=[], kw_defaults=[], defaults=[]),
                             body=body or [ast.Pass()], decorator_list=[], type_params=[])
        mod = ast.Module(body=[fd], type_ignores=[])
        ast.fix_missing_locations(mod)
        ns = {}
        exec(compile(mod, f'<{name} of {self.func.__qualname__}>', 'exec'), self.func.__globals__, ns)
        return ns[name](**{n: env[n] for n in names})

    def run_body_fn(self, env):
        """execute the loop body as a function (so that `return`, `break`, `continue` inside it
        are meaningful): returns ('return', value) | ('break' | 'continue' | 'fallthrough', locals)"""
        import copy as _copy

        class T(ast.NodeTransformer):
            def visit_Return(self, node):
                return ast.copy_location(ast.Return(value=ast.Tuple(
                    elts=[ast.Constant('return'), node.value or ast.Constant(None)], ctx=ast.Load())), node)

            def _loc(self, tag, node):
                return ast.copy_location(ast.Return(value=ast.Tuple(
                    elts=[ast.Constant(tag), ast.Call(func=ast.Name(id='locals', ctx=ast.Load()), args=[], keywords=[])],
                    ctx=ast.Load())), node)

            def visit_Break(self, node):
                return self._loc('break', node)

            def visit_Continue(self, node):
                return self._loc('continue', node)

            def visit_For(self, node):      # nested loops keep their own break / continue
                return node

            def visit_While(self, node):
                return node
        body = [T().visit(_copy.deepcopy(s)) for s in self.loop.body]
        body.append(ast.Return(value=ast.Tuple(
            elts=[ast.Constant('fallthrough'), ast.Call(func=ast.Name(id='locals', ctx=ast.Load()), args=[], keywords=[])],
            ctx=ast.Load())))
        return self._call('__body__', body, env)
