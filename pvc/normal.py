"""Exact back end for equalities: DAG -> rational function over Q, reduced by the
recorded algebraic side relations (sqrt3^2 = 3, r^2 = radicand), compared with 0.
Also: affine decomposition of an expression in a block of variables, and sign
certificates (all-coefficients-one-sign over positive atoms).
"""
from __future__ import annotations
import time
from fractions import Fraction
from . import core
from .core import topo, is_const, EngineLimit


class NotAffine(Exception):
    pass


# ----------------------------------------------------------------------------
# affine decomposition
# ----------------------------------------------------------------------------
def depends(roots, block):
    """dict node id -> True when the node depends on an atom of `block`."""
    dep = {}
    for n in sorted(topo(roots, defs=True), key=lambda n: n.id):
        if n.op == 'v':
            d = core.CTX.atoms[n.val].get('defn')
            dep[n.id] = (n.val in block) or any(dep.get(x.id, False) for x in core.defn_nodes(d))
        else:
            dep[n.id] = any(dep[a.id] for a in n.args)
    return dep


def affine_split(root, block):
    """root == sum_k coeff[k] * k + coeff[None], coefficients block-free nodes.
    Raises NotAffine when root is not syntactically affine in the block."""
    block = set(block)
    dep = depends([root], block)
    out = {}
    ZERO = core.C(0)

    def scale(d, f):
        return {k: core.mul(f, v) for k, v in d.items()}

    for n in topo([root]):
        if not dep[n.id]:
            continue            # represented lazily as {None: n}
        op = n.op
        if op == 'v':
            if n.val in block:
                out[n.id] = {n.val: core.C(1)}
            else:
                raise NotAffine(f'defined atom {n.val} depends on the block')
        elif op == '+':
            a, b = n.args
            da = out[a.id] if dep[a.id] else {None: a}
            db = out[b.id] if dep[b.id] else {None: b}
            if len(da) < len(db):
                da, db = db, da
            r = dict(da)
            for k, v in db.items():
                r[k] = core.add(r[k], v) if k in r else v
            out[n.id] = r
        elif op == '*':
            a, b = n.args
            if dep[a.id] and dep[b.id]:
                raise NotAffine('product of two block-dependent factors')
            if dep[a.id]:
                out[n.id] = scale(out[a.id], b)
            else:
                out[n.id] = scale(out[b.id], a)
        elif op == '/':
            a, b = n.args
            if dep[b.id]:
                raise NotAffine('block-dependent denominator')
            out[n.id] = scale(out[a.id], core.div(core.C(1), b))
        else:
            raise NotAffine(f'block variable under {op}')
    if not dep[root.id]:
        return {None: root}
    r = out[root.id]
    r.setdefault(None, ZERO)
    return r


# ----------------------------------------------------------------------------
# DAG -> exact rational functions (pvc.ratfun), cached per context
# ----------------------------------------------------------------------------
from . import ratfun as rf


def _vid(key):
    tab = core.CTX.__dict__.setdefault('_vid', {'SQRT3': 0})
    v = tab.get(key)
    if v is None:
        v = len(tab)
        tab[key] = v
        core.CTX.__dict__.setdefault('_vname', {0: 'sqrt3'})[v] = key
    return v


def _fkey(fr):
    return (rf._pkey(fr.n), fr.c, frozenset(fr.m.items()),
            frozenset((rf._pkey(pp), ee) for pp, ee in fr.f.values()))


def _frac_const(q):
    return rf.fconst(q.a.numerator, q.a.denominator, q.b.numerator, q.b.denominator)


def convert(root, expand=False):
    """(N, D) integer-coefficient sparse polynomials with root == N / D.
    Opaque nodes ('fn', 'rpow') and atoms are variables; abstraction atoms are
    replaced by their definitions when expand=True."""
    cache = core.CTX.__dict__.setdefault('_rf' + ('x' if expand else ''), {})
    if root.id in cache:
        return cache[root.id]
    todo = [root]
    while todo:
        nodes = topo(todo)
        todo = []
        for n in nodes:
            if n.id in cache:
                continue
            op = n.op
            if op == 'c':
                r = _frac_const(n.val)
            elif op == 'v':
                d = core.CTX.atoms[n.val].get('defn')
                if expand and d is not None and d[0] == 'expr':
                    if d[1].id not in cache:
                        convert(d[1], expand)
                    r = cache[d[1].id]
                else:
                    r = rf.fvar(_vid('v_' + n.val))
            elif op == 'fn':
                # one atom per (function, canonical form of the arguments): f(a*b/c) and f(a*(b/c)) are one object
                try:
                    k = (n.val, expand) + tuple(_fkey(cache[a.id]) for a in n.args)
                    rep = core.CTX.__dict__.setdefault('_fn_rep', {}).setdefault(k, n.id)
                except Exception:
                    rep = n.id
                r = rf.fvar(_vid(f'o_{rep}'))
            elif op == 'rpow':
                r = _rpow_frac(n, cache[n.args[0].id])
            elif op == '+':
                r = rf.fadd(cache[n.args[0].id], cache[n.args[1].id])
            elif op == '*':
                r = rf.fmul(cache[n.args[0].id], cache[n.args[1].id])
            elif op == '/':
                r = rf.fdiv(cache[n.args[0].id], cache[n.args[1].id])
            elif op == '^':
                r = rf.fpow(cache[n.args[0].id], n.val)
            elif op in ('lt', 'le', 'gt', 'ge', 'eq', 'ne', 'and', 'or', 'not', 'true', 'false'):
                continue
            else:
                raise EngineLimit(f'normaliser: op {op}')
            cache[n.id] = r
    return cache[root.id]


def _prime_factors(q):
    """rational q > 0 -> {prime: integer exponent}"""
    out = {}
    for val, sgn in ((q.numerator, 1), (q.denominator, -1)):
        d = 2
        while val > 1 and d * d <= val:
            while val % d == 0:
                out[d] = out.get(d, 0) + sgn
                val //= d
            d += 1
        if val > 1:
            out[val] = out.get(val, 0) + sgn
    return out


def fold_prime_powers(p):
    """a prime generator k_q stands for the number q: k_q^e with e = k + f, k integer, 0 <= f < 1 is
    rewritten to q^k k_q^f (after scaling the whole polynomial by k_q^shift to avoid negative k)"""
    import math
    kp = core.CTX.__dict__.get('_kprime', {})
    if not kp or not p:
        return p
    for g in sorted({v for m in p for v, _ in m if v in kp}):
        lo = 0
        for m in p:
            for v, e in m:
                if v == g and e < lo:
                    lo = e
        shift = -math.floor(lo) if lo < 0 else 0
        out = {}
        for m, c in p.items():
            d = dict(m)
            e = d.pop(g, 0) + shift
            k = math.floor(e)
            f = e - k
            if f != 0:
                d[g] = f
            mm = tuple(sorted(d.items()))
            val = out.get(mm, 0) + c * kp[g] ** int(k)
            if val:
                out[mm] = val
            else:
                out.pop(mm, None)
        p = out
    return p


def fold_generator_powers(p):
    """a generator g stands for a polynomial P (a factor of a rational-power base): g^e with
    e = k + f, k integer, 0 <= f < 1 is rewritten to P^k g^f, after scaling the whole polynomial by
    g^shift so that no exponent is negative (a positive factor: harmless for the zero test)"""
    import math
    gp = core.CTX.__dict__.get('_gpoly', {})
    if not gp or not p:
        return p
    present = sorted({v for m in p for v, _ in m if v in gp}, reverse=True)
    for g in present:
        exps = []
        for m in p:
            e = 0
            for v, ee in m:
                if v == g:
                    e = ee
                    break
            exps.append(e)
        lo = min(exps)
        shift = -math.floor(lo) if lo < 0 else 0
        groups = {}
        for m, c in p.items():
            d = dict(m)
            e = d.pop(g, 0) + shift
            k = math.floor(e)
            f = e - k
            if f != 0:
                d[g] = f
            groups.setdefault(k, {})
            mm = tuple(sorted(d.items()))
            groups[k][mm] = groups[k].get(mm, 0) + c
        if set(groups) == {0}:
            p = {m: c for m, c in groups[0].items() if c}
            continue
        new = {}
        P = gp[g]
        cache = {0: rf.ONE}
        for k, q in groups.items():
            if k not in cache:
                cache[k] = rf.ppow(P, k)
            new = rf.padd(new, rf.pmul({m: c for m, c in q.items() if c}, cache[k]))
        p = new
    return p


def _rpow_frac(n, base):
    """base ** (p/q) for a positive base, expanded factor by factor into a generalised
    monomial: rational coefficient -> constant generator, monomial part -> rational
    exponents, every non-monomial polynomial factor (primitive part of the numerator,
    each denominator factor) -> ONE generator per distinct polynomial, raised to the
    exponent.  Power laws ((ab)^e = a^e b^e, (a^p)^e = a^(pe)) are then exact."""
    from fractions import Fraction
    e = n.val
    exps = {}
    if not base.n:
        if e > 0:
            return rf.Frac({}, 1, {}, {})        # 0 ** e = 0
        raise ZeroDivisionError('zero to a negative power')

    def gen_for(poly):
        tab = core.CTX.__dict__.setdefault('_rpow_bases', {})
        key = rf._pkey(poly)
        if key not in tab:
            tab[key] = _vid(f'g_{len(tab)}')
            core.CTX.__dict__.setdefault('_gpoly', {})[tab[key]] = poly
        return tab[key]
    sign, c0, mc, q = rf._factor_den(base.n)
    if sign < 0:
        return rf.Frac({((_vid(f'o_{n.id}'), 1),): 1})      # non-positive base: fully opaque
    coef = Fraction(c0, base.c)
    for v, ex in mc.items():
        exps[v] = exps.get(v, 0) + ex * e
    if q is not None:
        g = gen_for(q)
        exps[g] = exps.get(g, 0) + e
    for v, ex in base.m.items():
        exps[v] = exps.get(v, 0) - ex * e
    for k, (p, ex) in base.f.items():
        g = gen_for(p)
        exps[g] = exps.get(g, 0) - ex * e
    if coef != 1:
        # rational coefficient -> prime generators, so that 4^e, (1/4)^e, 2^(2e) ... are one object
        for prime, a in _prime_factors(coef).items():
            kv = _vid(f'k_{prime}')
            core.CTX.__dict__.setdefault('_kprime', {})[kv] = prime
            exps[kv] = exps.get(kv, 0) + a * e
    mono = tuple(sorted((v, ex) for v, ex in exps.items() if ex != 0))
    return rf.Frac({mono: 1})


def _sqrt_atoms_in(p):
    """sqrt atoms (name, vid) whose variable occurs with exponent >= 2 in p"""
    tab = core.CTX.__dict__.get('_vname', {})
    vids = set()
    for m in p:
        for v, e in m:
            if e >= 2:
                vids.add(v)
    out = []
    for v in vids:
        key = tab.get(v, '')
        if key.startswith('v_sqrt@'):
            out.append((key[2:], v))
    return out


def reduce_numer(p, expand=False):
    """reduce modulo r^2 = radicand for every sqrt atom r (sqrt3 is reduced on the fly)"""
    p = fold_prime_powers(p)
    p = fold_generator_powers(p)
    p = fold_prime_powers(p)
    for _ in range(50):
        sq = _sqrt_atoms_in(p)
        if not sq:
            return p
        # later-created atoms first (their radicand may mention earlier ones)
        name, vid = max(sq, key=lambda t: int(t[0].split('@')[1]))
        rad = convert(core.CTX.atoms[name]['defn'][1], expand)
        A, B = rad.n, rad.den_poly()
        parts = rf.split_by_var(p, vid)
        maxj = max(parts)
        new = {}
        for j, q in parts.items():
            term = rf.pmul(q, rf.pmul(rf.ppow(A, j), rf.ppow(B, maxj - j)))
            new = rf.padd(new, term)
        p = new
    raise EngineLimit('sqrt reduction did not terminate')


def residual_string(p):
    return rf.pstr(p, core.CTX.__dict__.get('_vname', {}))


def prove_zero(node, expand=False, budget_s=30.0):
    """(proved: bool | None, residual_string_or_None, seconds); None = budget exceeded"""
    t0 = time.time()
    rf.set_budget(budget_s)
    try:
        n = convert(node, expand).n
        if n:
            n = reduce_numer(n, expand)
    except rf.BudgetExceeded as e:
        return None, f'undecided: {e}', time.time() - t0
    finally:
        rf.set_budget(None)
    if not n:
        return True, None, time.time() - t0
    return False, residual_string(n), time.time() - t0


def has_abstractions(node):
    return any(n.op == 'v' and (core.CTX.atoms[n.val].get('defn') or (None,))[0] == 'expr'
               for n in topo([node], defs=True))


def prove_eq(lhs, rhs, block=None):
    """Prove lhs == rhs.  With `block`, both sides are decomposed affinely in the
    block variables and the identity is proved coefficient by coefficient
    (sound: an affine form vanishes identically iff every coefficient does).
    Abstraction atoms are first kept opaque (modular proof); when that fails
    their definitions are expanded.
    Returns dict(proved (True/False/None=budget), parts, failed, seconds, method)."""
    t0 = time.time()
    diff = core.sub(lhs, rhs)
    modes = [False, True] if has_abstractions(diff) else [False]
    res = None
    for expand in modes:
        tag = '/expanded' if expand else ''
        if block:
            try:
                parts = affine_split(diff, block)
                failed = []
                und = False
                for k, cnode in parts.items():
                    ok, r, _ = prove_zero(cnode, expand)
                    if ok is None:
                        und = True
                        failed.append((k, r))
                    elif not ok:
                        failed.append((k, r))
                res = dict(proved=(None if und else not failed), parts=len(parts), failed=failed,
                           seconds=time.time() - t0, method='normaliser/affine' + tag)
                if res['proved']:
                    return res
                continue
            except NotAffine:
                pass
        ok, r, _ = prove_zero(diff, expand)
        res = dict(proved=ok, parts=1, failed=[] if ok else [(None, r)],
                   seconds=time.time() - t0, method='normaliser' + tag)
        if ok:
            return res
    return res


# ----------------------------------------------------------------------------
# sign certificates
# ----------------------------------------------------------------------------
def _poly_sign(p, strict_vids, nonneg_vids):
    """sign of a polynomial all of whose variables are >= 0:
    ('+', strict) / ('-', strict) / ('0', True) / None (mixed or unknown variables)"""
    if not p:
        return ('0', True)
    pos = neg = strict = False
    for m, c in p.items():
        if c > 0:
            pos = True
        else:
            neg = True
        ok = True
        for v, e in m:
            if v in strict_vids:
                continue
            if v in nonneg_vids:
                ok = False
                continue
            if e % 2 == 1:
                return None          # variable of unknown sign to an odd power
            ok = False
        if ok:
            strict = True
    if pos and neg:
        return None
    return ('+' if pos else '-', strict)


def _var_kinds():
    strict, nonneg = {0}, set()
    tab = core.CTX.__dict__.get('_vid', {})
    for key, vid in tab.items():
        if key.startswith('v_'):
            info = core.CTX.atoms.get(key[2:])
            if info is None:
                continue
            k = info['kind']
            if k == 'pos':
                strict.add(vid)
            elif k == 'nonneg':
                nonneg.add(vid)
            elif k == 'int' and info.get('lo') is not None and info['lo'] >= 0:
                (strict if info['lo'] > 0 else nonneg).add(vid)
        elif key.startswith('k_'):
            strict.add(vid)
        elif key.startswith('o_'):
            n = core.CTX.nodes[int(key[2:])]
            if n.op == 'rpow':
                strict.add(vid)
            elif n.op == 'fn':
                sg = core.CTX.__dict__.get('fn_sign', {}).get(n.val) or quick_sign(n)
                if sg == '>0':
                    strict.add(vid)
                elif sg == '>=0':
                    nonneg.add(vid)
    # generators standing for polynomial factors of rational-power bases: positive only when
    # the polynomial itself is certified positive
    for vid, poly in core.CTX.__dict__.get('_gpoly', {}).items():
        sg = _poly_sign(poly, strict, nonneg)
        if sg is not None and sg[0] == '+' and sg[1]:
            strict.add(vid)
    return strict, nonneg


def sign_certificate(node, expand=False, factor=True):
    """Try to certify the sign of node from the coefficient signs of its normal
    form over the declared-nonnegative atoms (variables of unknown sign may occur
    to even powers).  Returns '>0', '>=0', '<0', '<=0', '==0' or None."""
    try:
        fr = convert(node, expand)
    except ZeroDivisionError:
        return None
    n = fr.n
    if n:
        n = reduce_numer(n, expand)
    if not n:
        return '==0'
    strict, nonneg = _var_kinds()
    sn = _poly_sign(n, strict, nonneg)
    if sn is None and factor:
        sn = _factored_sign(n, strict, nonneg)
    if sn is None:
        return None
    # denominator: c > 0, monomial and factors signed one by one
    dpos, dstrict = True, True
    parts = [(_mono_poly(fr.m), 1)] if fr.m else []
    parts += [(p, e) for p, e in fr.f.values()]
    for p, e in parts:
        p = reduce_numer(p, expand)
        sd = _poly_sign(p, strict, nonneg)
        if sd is None and factor:
            sd = _factored_sign(p, strict, nonneg)
        if sd is None:
            if e % 2 == 0:
                dstrict = False
                continue
            return None
        if sd[0] == '0' or not sd[1]:
            return None
        if sd[0] == '-' and e % 2 == 1:
            dpos = not dpos
    if not dstrict:
        return None
    positive = ((sn[0] == '+') == dpos)
    if sn[1]:
        return '>0' if positive else '<0'
    return '>=0' if positive else '<=0'


def _mono_poly(md):
    return {tuple(sorted((v, e) for v, e in md.items() if e)): 1}


def _factored_sign(p, strict, nonneg):
    """sign through sympy factorisation: even powers of anything are >= 0"""
    if len(p) > 80:
        return None
    try:
        import sympy
        names = core.CTX.__dict__.get('_vname', {})
        vids = sorted({v for m in p for v, _ in m})
        syms = {v: sympy.Symbol(f'x{v}') for v in vids}
        expr = sympy.Add(*[c * sympy.Mul(*[syms[v] ** e for v, e in m]) for m, c in p.items()])
        if 0 in syms:
            return None                        # sqrt3 relation not known to sympy here
        c, factors = sympy.factor_list(expr)
    except Exception:
        return None
    sign = 1 if c > 0 else -1
    strict_all = True
    inv = {f'x{v}': v for v in vids}
    for f, e in factors:
        poly = sympy.Poly(f, *[syms[v] for v in vids])
        q = {}
        for mon, cf in poly.terms():
            m = tuple((vids[i], ex) for i, ex in enumerate(mon) if ex)
            q[m] = int(cf)
        sg = _poly_sign(q, strict, nonneg)
        if sg is None:
            if e % 2 == 0:
                strict_all = False
                continue
            return None
        if sg[0] == '-' and e % 2 == 1:
            sign = -sign
        if not sg[1]:
            strict_all = False
    return ('+' if sign > 0 else '-', strict_all)


def certify_cmp(b, factor=True):
    """truth of a comparison node by sign certificate: True / False / None."""
    if b.op not in ('lt', 'le', 'gt', 'ge', 'eq', 'ne'):
        return None
    s = sign_certificate(core.sub(b.args[0], b.args[1]), factor=factor)
    if s is None:
        return None
    table = {
        '>0': dict(lt=False, le=False, gt=True, ge=True, eq=False, ne=True),
        '<0': dict(lt=True, le=True, gt=False, ge=False, eq=False, ne=True),
        '==0': dict(lt=False, le=True, gt=False, ge=True, eq=True, ne=False),
        '>=0': dict(lt=False, ge=True),
        '<=0': dict(gt=False, le=True),
    }
    return table[s].get(b.op)


# ----------------------------------------------------------------------------
# quick structural sign analysis (memoised per context)
# ----------------------------------------------------------------------------
_NEG = {'>0': '<0', '>=0': '<=0', '<0': '>0', '<=0': '>=0', '==0': '==0', None: None}


def quick_sign(node):
    ctx = core.CTX
    memo = ctx.__dict__.setdefault('_qs', {})
    if node.id in memo:
        return memo[node.id]
    for n in topo([node]):
        if n.id in memo:
            continue
        op = n.op
        r = None
        if op == 'c':
            s = n.val.sign()
            r = '>0' if s > 0 else ('<0' if s < 0 else '==0')
        elif op == 'v':
            info = ctx.atoms[n.val]
            k = info['kind']
            if k == 'pos':
                r = '>0'
            elif k == 'nonneg':
                r = '>=0'
            elif k == 'int' and info.get('lo') is not None:
                r = '>0' if info['lo'] > 0 else ('>=0' if info['lo'] == 0 else None)
        elif op == '+':
            a, b = memo[n.args[0].id], memo[n.args[1].id]
            if a == '==0':
                r = b
            elif b == '==0':
                r = a
            elif a in ('>0', '>=0') and b in ('>0', '>=0'):
                r = '>0' if '>0' in (a, b) else '>=0'
            elif a in ('<0', '<=0') and b in ('<0', '<=0'):
                r = '<0' if '<0' in (a, b) else '<=0'
        elif op in ('*', '/'):
            a, b = memo[n.args[0].id], memo[n.args[1].id]
            if a == '==0' or (b == '==0' and op == '*'):
                r = '==0'
            elif a is not None and b is not None and not (op == '/' and b in ('>=0', '<=0', '==0')):
                positive = (a in ('>0', '>=0')) == (b in ('>0', '>=0'))
                strict = a in ('>0', '<0') and b in ('>0', '<0')
                r = ('>' if positive else '<') + ('0' if strict else '=0')
        elif op == '^':
            a = memo[n.args[0].id]
            if n.val % 2 == 0:
                r = '>0' if a in ('>0', '<0') else ('==0' if a == '==0' else '>=0')
            else:
                r = a
        elif op == 'rpow':
            a = memo[n.args[0].id]
            r = '>0' if a == '>0' else None
        elif op == 'fn':
            r = ctx.__dict__.get('fn_sign', {}).get(n.val)
            if r is None and n.val in ('log', 'log10') and len(n.args) == 1:
                # log x > 0 for x > 1 (x - 1 certified positive)
                memo[n.id] = None        # guard against re-entry through sign_certificate
                try:
                    s1 = sign_certificate(core.sub(n.args[0], core.C(1)), factor=False)
                except Exception:
                    s1 = None
                if s1 == '>0':
                    r = '>0'
                elif s1 == '>=0':
                    r = '>=0'
        memo[n.id] = r
    return memo[node.id]


# ----------------------------------------------------------------------------
# monotonicity of the square root:  X_b >= X_a >= 0  =>  sqrt(X_b) = sqrt(X_a) + delta, delta >= 0
# ----------------------------------------------------------------------------
def _subst_var(p, vid, repl_terms):
    """substitute variable vid by the polynomial repl (dict) in p"""
    from math import comb
    out = {}
    cache = {0: rf.ONE}
    for m, c in p.items():
        e = 0
        rest = []
        for v, ee in m:
            if v == vid:
                e = ee
            else:
                rest.append((v, ee))
        if e == 0:
            out[m] = out.get(m, 0) + c
            continue
        if e not in cache:
            cache[e] = rf.ppow(repl_terms, e)
        term = rf.pmul({tuple(rest): c}, cache[e])
        for mm, cc in term.items():
            v2 = out.get(mm, 0) + cc
            if v2:
                out[mm] = v2
            else:
                out.pop(mm, None)
    return out


MONOTONE_FNS = ('log', 'log10', 'exp', 'arctan')


def sqrt_monotone_sign(node):
    """sign certificate for `node` using monotonicity of sqrt / log / exp:
    X_b - X_a certified >= 0  =>  f(X_b) = f(X_a) + delta with delta >= 0"""
    try:
        fr = convert(node)
    except Exception:
        return None
    n = reduce_numer(fr.n) if fr.n else fr.n
    names = core.CTX.__dict__.get('_vname', {})
    args = {}
    for v in sorted({v for m in n for v, _ in m}):
        nm = names.get(v, '')
        if nm.startswith('v_sqrt@'):
            args[v] = ('sqrt', core.CTX.atoms[nm[2:]]['defn'][1])
        elif nm.startswith('o_'):
            nd = core.CTX.nodes[int(nm[2:])]
            if nd.op == 'fn' and nd.val in MONOTONE_FNS and len(nd.args) == 1:
                args[v] = (nd.val, nd.args[0])
    sq = sorted(args)
    if len(sq) < 2 or len(sq) > 6:
        return None
    strict, nonneg = _var_kinds()
    # denominator must be certified positive
    for p, e in ([(_mono_poly(fr.m), 1)] if fr.m else []) + [(pp, ee) for pp, ee in fr.f.values()]:
        sd = _poly_sign(reduce_numer(p), strict, nonneg)
        if sd is None or sd[0] != '+' or not sd[1]:
            return None
    order = []
    for a in sq:
        for b in sq:
            if a != b and args[a][0] == args[b][0]:
                s_ = sign_certificate(core.sub(args[b][1], args[a][1]), factor=False)
                if s_ in ('>=0', '>0', '==0'):
                    order.append((a, b))
    cur = n
    used = set()
    for a, b in order:
        if b in used or a in used:
            continue
        d = core.CTX.var(f'monogap@{a}_{b}', kind='nonneg')
        dv = _vid('v_' + d.val)
        nonneg.add(dv)
        cur = _subst_var(cur, b, {((a, 1),): 1, ((dv, 1),): 1})
        cur = reduce_numer(cur)
        used.add(b)
        sg = _poly_sign(cur, strict, nonneg)
        if sg is not None:
            return {'+': '>=0' if not sg[1] else '>0', '-': '<=0' if not sg[1] else '<0', '0': '==0'}[sg[0]]
    return None
