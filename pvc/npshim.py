"""NumPy shim: the module under verification keeps its source; only its global
`np` is rebound to an instance of NpShim.  Everything not listed here is NumPy's
own code acting on object arrays of Sym."""
from __future__ import annotations
import contextlib
import importlib
import math
from fractions import Fraction
import numpy as _np
from . import core
from .core import Sym, SymBool, EngineLimit


def _is_floatlike_dtype(dt):
    if dt is None:
        return True
    try:
        dt = _np.dtype(dt)
    except TypeError:
        return False
    return dt.kind == 'f'


def _has_sym(x):
    if isinstance(x, (Sym, SymBool)):
        return True
    if isinstance(x, _np.ndarray):
        return x.dtype == object
    if isinstance(x, (list, tuple)):
        return any(_has_sym(e) for e in x)
    return False


def _objectify(a):
    """float ndarray -> object ndarray of exact python numbers (ints where exact)."""
    if isinstance(a, _np.ndarray) and a.dtype.kind == 'f':
        out = _np.empty(a.shape, dtype=object)
        flat_in = a.ravel()
        flat = out.ravel() if out.flags['C_CONTIGUOUS'] else None
        vals = [(int(v) if float(v).is_integer() else float(v)) for v in flat_in]
        if flat is not None:
            for i, v in enumerate(vals):
                flat[i] = v
            return flat.reshape(a.shape)
        out.ravel()[:] = vals
        return out
    return a


def _elementwise(fname):
    def f(self, x, *a, **k):
        if isinstance(x, Sym):
            return getattr(x, fname)()
        if isinstance(x, _np.ndarray) and x.dtype == object:
            return getattr(_np, fname)(x, *a, **k)
        if isinstance(x, (int, float)) and not isinstance(x, bool):
            return getattr(Sym(core.lift(x)), fname)()
        return getattr(_np, fname)(x, *a, **k)
    return f


_COS6 = {0: (1, 0), 1: (0, Fraction(1, 2)), 2: (Fraction(1, 2), 0), 3: (0, 0),
         4: (Fraction(-1, 2), 0), 5: (0, Fraction(-1, 2)), 6: (-1, 0)}


def _pi_multiple(n):
    """node == q*PI for a rational q -> q, else None"""
    if n.op == 'v' and n.val == 'PI':
        return Fraction(1)
    if n.op == '*' and core.is_const(n.args[0]) and n.args[1].op == 'v' and n.args[1].val == 'PI':
        q = n.args[0].val
        if q.is_rational():
            return q.a
    if core.is_const(n) and n.val.is_zero():
        return Fraction(0)
    return None


def _cos_q(q):
    k = q * 6
    if k.denominator != 1:
        return None
    k = int(k) % 12
    if k > 6:
        k = 12 - k
    a, b = _COS6[k]
    return Sym(core.C(core.Q3(a, b)))


class NpShim:
    def __init__(self):
        self.__dict__['_np'] = _np

    def __getattr__(self, name):
        return getattr(_np, name)

    # constants
    @property
    def pi(self):
        return Sym(core.CTX.var('PI', kind='pos', lo=math.pi, hi=math.pi))

    # constructors ---------------------------------------------------------
    def zeros(self, shape, dtype=None, **k):
        if _is_floatlike_dtype(dtype):
            a = _np.empty(shape, dtype=object)
            a.fill(0)
            return a
        return _np.zeros(shape, dtype=dtype, **k)

    def ones(self, shape, dtype=None, **k):
        if _is_floatlike_dtype(dtype):
            a = _np.empty(shape, dtype=object)
            a.fill(1)
            return a
        return _np.ones(shape, dtype=dtype, **k)

    def empty(self, shape, dtype=None, **k):
        return self.zeros(shape, dtype=dtype)

    def full(self, shape, fill_value, dtype=None, **k):
        if _is_floatlike_dtype(dtype) and not isinstance(fill_value, (bool, _np.bool_)):
            a = _np.empty(shape, dtype=object)
            a.fill(fill_value)
            return a
        return _np.full(shape, fill_value, dtype=dtype, **k)

    def zeros_like(self, a, dtype=None, **k):
        a = _np.asarray(a) if not isinstance(a, _np.ndarray) else a
        if dtype is None and a.dtype.kind in 'iub':
            return _np.zeros_like(a)
        return self.zeros(a.shape, dtype=dtype)

    def ones_like(self, a, dtype=None, **k):
        a = _np.asarray(a) if not isinstance(a, _np.ndarray) else a
        if dtype is None and a.dtype.kind in 'iub':
            return _np.ones_like(a)
        return self.ones(a.shape, dtype=dtype)

    def identity(self, n, dtype=None):
        a = self.zeros((n, n), dtype=dtype)
        for i in range(n):
            a[i, i] = 1
        return a

    def eye(self, n, *a, **k):
        return self.identity(n)

    def array(self, obj, dtype=None, **k):
        if dtype is not None and not _is_floatlike_dtype(dtype):
            return _np.array(obj, dtype=dtype, **k)
        if _has_sym(obj):
            return _np.array(obj, dtype=object)
        a = _np.array(obj, **k) if dtype is None else _np.array(obj, dtype=dtype, **k)
        return _objectify(a)

    def asarray(self, obj, dtype=None, **k):
        if isinstance(obj, _np.ndarray) and obj.dtype == object and _is_floatlike_dtype(dtype):
            return obj
        return self.array(obj, dtype=dtype)

    def arange(self, *a, **k):
        r = _np.arange(*a, **k)
        return _objectify(r) if r.dtype.kind == 'f' else r

    def linspace(self, *a, **k):
        if _has_sym(list(a[:2])):
            raise EngineLimit('linspace with symbolic end points')
        return _objectify(_np.linspace(*a, **k))

    def copy(self, a, **k):
        return _np.copy(a, **k)

    # elementwise ----------------------------------------------------------
    sqrt = _elementwise('sqrt')
    log10 = _elementwise('log10')
    log = _elementwise('log')
    exp = _elementwise('exp')
    arccos = _elementwise('arccos')
    arcsin = _elementwise('arcsin')
    arctan = _elementwise('arctan')
    tan = _elementwise('tan')

    def cos(self, x):
        if isinstance(x, Sym):
            q = _pi_multiple(x.n)
            if q is not None:
                r = _cos_q(q)
                if r is not None:
                    return r
            return x.cos()
        if isinstance(x, _np.ndarray) and x.dtype == object:
            return _np.array([self.cos(e) for e in x.ravel()], dtype=object).reshape(x.shape)
        if isinstance(x, (int, float)) and not isinstance(x, bool):
            k = x / (math.pi / 6)
            if abs(k - round(k)) < 1e-9:
                return _cos_q(Fraction(round(k), 6))
        return _np.cos(x)

    def sin(self, x):
        if isinstance(x, Sym):
            q = _pi_multiple(x.n)
            if q is not None:
                r = _cos_q(Fraction(1, 2) - q)
                if r is not None:
                    return r
            return x.sin()
        if isinstance(x, _np.ndarray) and x.dtype == object:
            return _np.array([self.sin(e) for e in x.ravel()], dtype=object).reshape(x.shape)
        if isinstance(x, (int, float)) and not isinstance(x, bool):
            k = x / (math.pi / 6)
            if abs(k - round(k)) < 1e-9:
                return _cos_q(Fraction(1, 2) - Fraction(round(k), 6))
        return _np.sin(x)

    def abs(self, x):
        if isinstance(x, SymBool):      # np.abs(a == b): numpy maps True/False to 1/0, truthiness unchanged
            return x
        if isinstance(x, Sym):
            return abs(x)
        if isinstance(x, _np.ndarray) and x.dtype == object:
            return _np.array([abs(e) for e in x.ravel()], dtype=object).reshape(x.shape)
        return _np.abs(x)
    absolute = abs

    def isnan(self, x):
        if isinstance(x, Sym):
            return False
        if isinstance(x, _np.ndarray) and x.dtype == object:
            return _np.zeros(x.shape, dtype=bool)
        return _np.isnan(x)

    def isclose(self, a, b, rtol=1e-05, atol=1e-08, **k):
        if _has_sym(a) or _has_sym(b):
            a_, b_ = _np.asarray(a, dtype=object), _np.asarray(b, dtype=object)
            d = a_ - b_
            lim = atol + rtol * self.abs(b_)
            return _np.asarray(self.abs(d) <= lim, dtype=bool)
        return _np.isclose(a, b, rtol=rtol, atol=atol, **k)

    def allclose(self, a, b, rtol=1e-05, atol=1e-08, **k):
        if _has_sym(a) or _has_sym(b):
            return bool(_np.all(self.isclose(a, b, rtol, atol)))
        return _np.allclose(a, b, rtol=rtol, atol=atol, **k)

    def divide(self, a, b, out=None, where=True, **k):
        if _has_sym(a) or _has_sym(b) or _has_sym(out) or _has_sym(where):
            a_, b_ = _np.broadcast_arrays(_np.asarray(a, dtype=object), _np.asarray(b, dtype=object))
            res = _np.empty(a_.shape, dtype=object)
            wh = _np.broadcast_to(_np.asarray(where, dtype=object), a_.shape)
            for idx in _np.ndindex(a_.shape):
                if bool(wh[idx]):
                    res[idx] = a_[idx] / b_[idx]
                elif out is not None:
                    res[idx] = out[idx]
                else:
                    raise core.EngineLimit('np.divide(where=...) without out= leaves entries uninitialised')
            return res
        return _np.divide(a, b, out=out, where=where, **k)

    def searchsorted(self, a, v, side='left', **k):
        if hasattr(a, '_pvc_searchsorted'):
            return a._pvc_searchsorted(v, side)
        return _np.searchsorted(a, v, side=side, **k)

    def around(self, x, decimals=0, **k):
        """nearest multiple of 10^-decimals; on symbolic data the result is K / 10^d with an
        integer atom K, |x 10^d - K| <= 1/2 (ties unspecified)"""
        if isinstance(x, Sym):
            scale = 10 ** int(decimals)
            return Sym(core.round_node(core.mul(core.C(scale), x.n))) / scale
        if _has_sym(x):
            a = _np.asarray(x, dtype=object)
            out = _np.empty(a.shape, dtype=object)
            for idx in _np.ndindex(a.shape):
                out[idx] = self.around(a[idx], decimals)
            return out
        return _np.around(x, decimals, **k)
    round = around

    def floor(self, x, **k):
        if isinstance(x, Sym):
            return Sym(core.floor_node(x.n))
        if _has_sym(x):
            a = _np.asarray(x, dtype=object)
            out = _np.empty(a.shape, dtype=object)
            for idx in _np.ndindex(a.shape):
                out[idx] = self.floor(a[idx])
            return out
        return _np.floor(x, **k)

    def ceil(self, x, **k):
        if isinstance(x, Sym):
            # a closed numeric expression (constants and square roots of constants): evaluate it
            free = [v for v in core.variables([x.n]) if core.CTX.atoms[v].get('defn') is None]
            if not free:
                val = core.Point('closed', {}).eval(x.n)
                return float(math.ceil(val - 1e-12))
        if _has_sym(x):
            raise EngineLimit('np.ceil of symbolic value')
        return _np.ceil(x, **k)

    def average(self, a, axis=None, weights=None, **k):
        if isinstance(a, _np.ndarray) and a.dtype == object and weights is None:
            s = _np.sum(a, axis=axis)
            n = a.size if axis is None else a.shape[axis]
            return s / n
        return _np.average(a, axis=axis, weights=weights, **k)

    def mean(self, a, axis=None, **k):
        return self.average(a, axis=axis)

    def interp(self, x, xp, fp, **k):
        if _has_sym(x) or _has_sym(xp) or _has_sym(fp):
            raise EngineLimit('np.interp on symbolic data')
        return _np.interp(x, xp, fp, **k)


SHIM = NpShim()


@contextlib.contextmanager
def shimmed(module_names):
    """rebind the global `np` of the named modules to the shim for the duration."""
    saved = []
    for name in module_names:
        m = importlib.import_module(name)
        if hasattr(m, 'np'):
            saved.append((m, m.np))
            m.np = SHIM
    try:
        yield
    finally:
        for m, old in saved:
            m.np = old


@contextlib.contextmanager
def unshimmed(module_names):
    """inside a shimmed region: give the named modules the real NumPy back"""
    saved = []
    for name in module_names:
        m = importlib.import_module(name)
        if getattr(m, 'np', None) is SHIM:
            saved.append(m)
            m.np = _np
    try:
        yield
    finally:
        for m in saved:
            m.np = SHIM
