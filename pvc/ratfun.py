"""Exact sparse rational-function arithmetic over Z (pure python, no gcd).

A polynomial is a dict  monomial -> int  where a monomial is a tuple of
(variable id, exponent) pairs sorted by variable id.  A fraction is a pair
(N, D).  No polynomial gcd is ever taken: N/D == 0  iff  N == 0 (D != 0 is a
separate side condition), which is all the equality back end needs.  Integer
content and monomial content are cancelled to keep numbers small.

Variable id 0 is reserved for sqrt(3): s^2 is rewritten to 3 on the fly.
"""
from __future__ import annotations
from math import gcd

import time as _time

S3 = 0
ONE = {(): 1}
ZERO = {}
BUDGET = {'deadline': None, 'max_terms': 400000}


class BudgetExceeded(Exception):
    pass


def set_budget(seconds):
    BUDGET['deadline'] = None if seconds is None else _time.process_time() + seconds   # CPU time, load independent



def padd(a, b):
    if len(a) < len(b):
        a, b = b, a
    r = dict(a)
    for m, c in b.items():
        v = r.get(m, 0) + c
        if v:
            r[m] = v
        else:
            del r[m]
    return r


def pneg(a):
    return {m: -c for m, c in a.items()}


def pscale(a, k):
    if k == 0:
        return {}
    if k == 1:
        return a
    return {m: c * k for m, c in a.items()}


def mmul(m1, m2):
    """product of two monomials -> (monomial, integer factor from s^2 = 3)"""
    if not m1:
        return m2, 1
    if not m2:
        return m1, 1
    out = []
    i = j = 0
    f = 1
    n1, n2 = len(m1), len(m2)
    while i < n1 and j < n2:
        v1, e1 = m1[i]
        v2, e2 = m2[j]
        if v1 == v2:
            e = e1 + e2
            if v1 == S3 and e >= 2:
                f *= 3 ** int(e // 2)
                e = e % 2
            if e:
                out.append((v1, e))
            i += 1
            j += 1
        elif v1 < v2:
            out.append(m1[i])
            i += 1
        else:
            out.append(m2[j])
            j += 1
    if i < n1:
        out.extend(m1[i:])
    if j < n2:
        out.extend(m2[j:])
    return tuple(out), f


def pmul(a, b):
    if not a or not b:
        return {}
    if len(a) > len(b):
        a, b = b, a
    if len(a) == 1:
        (m1, c1), = a.items()
        if not m1:
            return pscale(b, c1)
    r = {}
    if len(a) * len(b) > 20000:
        if len(a) * len(b) > 50 * BUDGET['max_terms']:
            raise BudgetExceeded(f'polynomial product {len(a)} x {len(b)} terms')
    dl = BUDGET['deadline']
    for m1, c1 in a.items():
        if dl is not None and _time.process_time() > dl:
            raise BudgetExceeded('normaliser time budget exceeded')
        for m2, c2 in b.items():
            m, f = mmul(m1, m2)
            v = r.get(m, 0) + c1 * c2 * f
            if v:
                r[m] = v
            else:
                r.pop(m, None)
    return r


def ppow(a, n):
    r = ONE
    base = a
    while n:
        if n & 1:
            r = pmul(r, base)
        n >>= 1
        if n:
            base = pmul(base, base)
    return r


def content(a):
    g = 0
    for c in a.values():
        g = gcd(g, c)
        if g == 1:
            break
    return g


def mono_content(a):
    """greatest monomial dividing every term (dict var -> exp); exponents may be negative or
    fractional (generalised monomials): the minimum exponent over all terms, 0 where absent"""
    terms = list(a)
    if not terms:
        return {}
    vars_ = set()
    for m in terms:
        for v, _ in m:
            vars_.add(v)
    common = {}
    for v in vars_:
        lo = None
        for m in terms:
            e = 0
            for vv, ee in m:
                if vv == v:
                    e = ee
                    break
            lo = e if lo is None or e < lo else lo
        if lo != 0:
            common[v] = lo
    return common


def mono_div(a, md):
    """divide every term of a by the monomial given as dict var -> exp (exponents of md may
    be negative / fractional: variables absent from a term then appear with -md[v])"""
    if not md:
        return a
    r = {}
    for m, c in a.items():
        d = dict(m)
        for v, e in md.items():
            ne = d.get(v, 0) - e
            if ne != 0:
                d[v] = ne
            else:
                d.pop(v, None)
        r[tuple(sorted(d.items()))] = c
    return r


# ----------------------------------------------------------------------------
# fractions with a FACTORED denominator:  N / (c * monomial(M) * prod f^e)
#   N : polynomial, c : positive int, M : dict var -> exp,
#   F : dict key -> (primitive polynomial with positive leading sign, exponent)
# Denominators are never expanded, equal factors are shared, sums use the lcm.
# ----------------------------------------------------------------------------
class Frac:
    __slots__ = ('n', 'c', 'm', 'f')

    def __init__(self, n, c=1, m=None, f=None):
        self.n, self.c, self.m, self.f = n, c, (m or {}), (f or {})

    def den_poly(self):
        d = {tuple(sorted(self.m.items())): self.c}
        for p, e in self.f.values():
            d = pmul(d, ppow(p, e))
        return d


def _lead_positive(p):
    m0 = min(p)
    return p[m0] > 0


def _pkey(p):
    return frozenset(p.items())


def _mono_poly(md):
    return {tuple(sorted((v, e) for v, e in md.items() if e)): 1}


def _clean(fr):
    """cancel integer content and monomial content between numerator and denominator"""
    n = fr.n
    if not n:
        return Frac({}, 1, {}, {})
    g = gcd(content(n), fr.c)
    if g > 1:
        n = {m: c // g for m, c in n.items()}
        fr.c //= g
    if fr.m:
        mc = mono_content(n)
        common = {v: min(e, mc[v]) for v, e in fr.m.items() if v in mc and v != S3}
        if common:
            n = mono_div(n, common)
            fr.m = {v: e - common.get(v, 0) for v, e in fr.m.items() if e - common.get(v, 0) > 0}
    fr.n = n
    return fr


def _cofactor(target_c, target_m, target_f, fr):
    """polynomial  target_den / den(fr)"""
    q = {(): target_c // fr.c}
    md = {v: e - fr.m.get(v, 0) for v, e in target_m.items() if e - fr.m.get(v, 0) > 0}
    if md:
        q = pmul(q, _mono_poly(md))
    for k, (p, e) in target_f.items():
        e0 = fr.f[k][1] if k in fr.f else 0
        if e > e0:
            q = pmul(q, ppow(p, e - e0))
    return q


def fadd(x, y):
    if not x.n:
        return y
    if not y.n:
        return x
    c = x.c * y.c // gcd(x.c, y.c)
    m = dict(x.m)
    for v, e in y.m.items():
        if e > m.get(v, 0):
            m[v] = e
    f = dict(x.f)
    for k, (p, e) in y.f.items():
        if k not in f or f[k][1] < e:
            f[k] = (p, e)
    n = padd(pmul(x.n, _cofactor(c, m, f, x)), pmul(y.n, _cofactor(c, m, f, y)))
    return _clean(Frac(n, c, m, f))


def fmul(x, y):
    if not x.n or not y.n:
        return Frac({}, 1, {}, {})
    m = dict(x.m)
    for v, e in y.m.items():
        m[v] = m.get(v, 0) + e
    f = dict(x.f)
    for k, (p, e) in y.f.items():
        f[k] = (p, f[k][1] + e) if k in f else (p, e)
    # cancel numerator factors that are literally denominator factors
    n1, n2 = x.n, y.n
    for nn_i, other in ((0, y), (1, x)):
        pass
    return _clean(Frac(pmul(n1, n2), x.c * y.c, m, f))


def _factor_den(p):
    """polynomial -> (sign, int content, monomial dict, primitive poly or None)"""
    c = content(p)
    mc = mono_content(p)
    mc.pop(S3, None)
    q = mono_div(p, mc) if mc else p
    if c > 1:
        q = {m: v // c for m, v in q.items()}
    sign = 1
    if not _lead_positive(q):
        q = pneg(q)
        sign = -1
    if len(q) == 1 and () in q and q[()] == 1:
        q = None
    return sign, c, mc, q


def finv(y):
    if not y.n:
        raise ZeroDivisionError('identically zero denominator')
    sign, c, mc, q = _factor_den(y.n)
    n = {tuple(sorted(y.m.items())): y.c * sign}
    for p, e in y.f.values():
        n = pmul(n, ppow(p, e))
    f = {}
    if q is not None:
        f[_pkey(q)] = (q, 1)
    # generalised monomials: only positive exponents stay in the denominator monomial
    pos = {v: e for v, e in mc.items() if e > 0}
    neg = {v: -e for v, e in mc.items() if e < 0}
    if neg:
        n = pmul(n, _mono_poly(neg))
    return _clean(Frac(n, c, pos, f))


def fdiv(x, y):
    if not x.n:
        if not y.n:
            raise ZeroDivisionError('identically zero denominator')
        return Frac({}, 1, {}, {})
    inv = finv(y)
    # cancel a denominator factor of x*inv against an identical numerator (common: a / a-like sums)
    r = fmul(x, inv)
    k = _pkey(r.n) if len(r.n) > 1 else None
    if k is not None and k in r.f:
        p, e = r.f[k]
        r.n = {(): 1}
        if e > 1:
            r.f[k] = (p, e - 1)
        else:
            del r.f[k]
    return r


def fpow(x, k):
    return _clean(Frac(ppow(x.n, k), x.c ** k, {v: e * k for v, e in x.m.items()},
                       {kk: (p, e * k) for kk, (p, e) in x.f.items()}))


def fconst(a_num, a_den, b_num=0, b_den=1):
    """(a_num/a_den) + (b_num/b_den) * sqrt3"""
    if b_num == 0:
        return Frac(({(): a_num} if a_num else {}), a_den if a_num else 1)
    den = a_den * b_den // gcd(a_den, b_den)
    n = {}
    if a_num:
        n[()] = a_num * (den // a_den)
    n[((S3, 1),)] = b_num * (den // b_den)
    return _clean(Frac(n, den))


def fvar(vid):
    return Frac({((vid, 1),): 1})


def split_by_var(p, vid):
    """p = sum_j  q_j * var^(2j) with q_j of var-degree <= 1  ->  {j: q_j}"""
    parts = {}
    for m, c in p.items():
        e = 0
        for v, ee in m:
            if v == vid:
                e = ee
                break
        j = e // 2
        if e >= 2:
            mm = tuple((v, (ee % 2 if v == vid else ee)) for v, ee in m if not (v == vid and ee % 2 == 0))
        else:
            mm = m
        q = parts.setdefault(j, {})
        v2 = q.get(mm, 0) + c
        if v2:
            q[mm] = v2
        else:
            del q[mm]
    return parts


def max_deg(p, vid):
    d = 0
    for m in p:
        for v, e in m:
            if v == vid and e > d:
                d = e
    return d


def pstr(p, names, limit=12):
    if not p:
        return '0'
    out = []
    for i, (m, c) in enumerate(sorted(p.items(), key=lambda t: (len(t[0]), t[0]))):
        if i >= limit:
            out.append(f'… ({len(p)} terms)')
            break
        mon = '*'.join(f'{names.get(v, "x%d" % v)}' + (f'^({e})' if e != 1 else '') for v, e in m)
        out.append(f'{c}' + (f'*{mon}' if mon else ''))
    return ' + '.join(out)
