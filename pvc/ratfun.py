"""Exact sparse rational-function arithmetic over Z (pure python, no gcd).

A polynomial is a dict  monomial -> int  where a monomial is a tuple of
(variable id, exponent) pairs sorted by variable id.  A fraction is a pair
(N, D).  No polynomial gcd is ever taken: N/D == 0  iff  N == 0 (D != 0 is a
separate side condition), which is all the equality back end needs.  Integer
content and monomial content are cancelled to keep numbers small.

Variable id 0 is reserved for sqrt(3): s^2 is rewritten to 3 on the fly.
"""
from __future__ import annotations
from math import gcd

import time as _time

S3 = 0
ONE = {(): 1}
ZERO = {}
BUDGET = {'deadline': None, 'max_terms': 400000}


class BudgetExceeded(Exception):
    pass


def set_budget(seconds):
    BUDGET['deadline'] = None if seconds is None else _time.time() + seconds



def padd(a, b):
    if len(a) < len(b):
        a, b = b, a
    r = dict(a)
    for m, c in b.items():
        v = r.get(m, 0) + c
        if v:
            r[m] = v
        else:
            del r[m]
    return r


def pneg(a):
    return {m: -c for m, c in a.items()}


def pscale(a, k):
    if k == 0:
        return {}
    if k == 1:
        return a
    return {m: c * k for m, c in a.items()}


def mmul(m1, m2):
    """product of two monomials -> (monomial, integer factor from s^2 = 3)"""
    if not m1:
        return m2, 1
    if not m2:
        return m1, 1
    out = []
    i = j = 0
    f = 1
    n1, n2 = len(m1), len(m2)
    while i < n1 and j < n2:
        v1, e1 = m1[i]
        v2, e2 = m2[j]
        if v1 == v2:
            e = e1 + e2
            if v1 == S3 and e >= 2:
                f *= 3 ** (e // 2)
                e = e % 2
            if e:
                out.append((v1, e))
            i += 1
            j += 1
        elif v1 < v2:
            out.append(m1[i])
            i += 1
        else:
            out.append(m2[j])
            j += 1
    if i < n1:
        out.extend(m1[i:])
    if j < n2:
        out.extend(m2[j:])
    return tuple(out), f


def pmul(a, b):
    if not a or not b:
        return {}
    if len(a) > len(b):
        a, b = b, a
    if len(a) == 1:
        (m1, c1), = a.items()
        if not m1:
            return pscale(b, c1)
    r = {}
    if len(a) * len(b) > 20000:
        if len(a) * len(b) > 50 * BUDGET['max_terms']:
            raise BudgetExceeded(f'polynomial product {len(a)} x {len(b)} terms')
    dl = BUDGET['deadline']
    for m1, c1 in a.items():
        if dl is not None and _time.time() > dl:
            raise BudgetExceeded('normaliser time budget exceeded')
        for m2, c2 in b.items():
            m, f = mmul(m1, m2)
            v = r.get(m, 0) + c1 * c2 * f
            if v:
                r[m] = v
            else:
                r.pop(m, None)
    return r


def ppow(a, n):
    r = ONE
    base = a
    while n:
        if n & 1:
            r = pmul(r, base)
        n >>= 1
        if n:
            base = pmul(base, base)
    return r


def content(a):
    g = 0
    for c in a.values():
        g = gcd(g, c)
        if g == 1:
            break
    return g


def mono_content(a):
    """greatest monomial dividing every term (as dict var -> exp)"""
    it = iter(a)
    try:
        first = next(it)
    except StopIteration:
        return {}
    common = dict(first)
    for m in it:
        if not common:
            break
        d = dict(m)
        for v in list(common):
            e = d.get(v, 0)
            if e == 0:
                del common[v]
            elif e < common[v]:
                common[v] = e
    return common


def mono_div(a, md):
    """divide every term of a by the monomial given as dict var -> exp"""
    if not md:
        return a
    r = {}
    for m, c in a.items():
        r[tuple((v, e - md.get(v, 0)) for v, e in m if e - md.get(v, 0) > 0)] = c
    return r


def normalise(n, d):
    """cancel integer and monomial content; make the leading sign of d positive"""
    if not n:
        return {}, ONE
    g = gcd(content(n), content(d))
    if g > 1:
        n = {m: c // g for m, c in n.items()}
        d = {m: c // g for m, c in d.items()}
    if len(d) == 1:
        (md, cd), = d.items()
        if cd < 0:
            n, d = pneg(n), {md: -cd}
        if md:
            mc = mono_content(n)
            common = {v: min(e, mc.get(v, 0)) for v, e in md if mc.get(v, 0) > 0 and v != S3}
            if common:
                n = mono_div(n, common)
                d = mono_div(d, common)
    return n, d


def fadd(x, y):
    (n1, d1), (n2, d2) = x, y
    if not n1:
        return y
    if not n2:
        return x
    if d1 == d2:
        return normalise(padd(n1, n2), d1)
    return normalise(padd(pmul(n1, d2), pmul(n2, d1)), pmul(d1, d2))


def fmul(x, y):
    (n1, d1), (n2, d2) = x, y
    if not n1 or not n2:
        return {}, ONE
    return normalise(pmul(n1, n2), pmul(d1, d2))


def fdiv(x, y):
    (n1, d1), (n2, d2) = x, y
    if not n2:
        raise ZeroDivisionError('identically zero denominator')
    if not n1:
        return {}, ONE
    return normalise(pmul(n1, d2), pmul(d1, n2))


def fpow(x, k):
    n, d = x
    return normalise(ppow(n, k), ppow(d, k))


def fconst(a_num, a_den, b_num=0, b_den=1):
    """(a_num/a_den) + (b_num/b_den) * sqrt3"""
    if b_num == 0:
        return ({(): a_num} if a_num else {}), {(): a_den}
    den = a_den * b_den // gcd(a_den, b_den)
    n = {}
    if a_num:
        n[()] = a_num * (den // a_den)
    n[((S3, 1),)] = b_num * (den // b_den)
    return n, {(): den}


def fvar(vid):
    return {((vid, 1),): 1}, ONE


def split_by_var(p, vid):
    """p = sum_j  q_j * var^(2j) with q_j of var-degree <= 1  ->  {j: q_j}"""
    parts = {}
    for m, c in p.items():
        e = 0
        for v, ee in m:
            if v == vid:
                e = ee
                break
        j = e // 2
        if e >= 2:
            mm = tuple((v, (ee % 2 if v == vid else ee)) for v, ee in m if not (v == vid and ee % 2 == 0))
        else:
            mm = m
        q = parts.setdefault(j, {})
        v2 = q.get(mm, 0) + c
        if v2:
            q[mm] = v2
        else:
            del q[mm]
    return parts


def max_deg(p, vid):
    d = 0
    for m in p:
        for v, e in m:
            if v == vid and e > d:
                d = e
    return d


def pstr(p, names, limit=12):
    if not p:
        return '0'
    out = []
    for i, (m, c) in enumerate(sorted(p.items(), key=lambda t: (len(t[0]), t[0]))):
        if i >= limit:
            out.append(f'… ({len(p)} terms)')
            break
        mon = '*'.join(f'{names.get(v, "x%d" % v)}' + (f'^{e}' if e > 1 else '') for v, e in m)
        out.append(f'{c}' + (f'*{mon}' if mon else ''))
    return ' + '.join(out)
