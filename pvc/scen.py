"""Scenarios, obligations and the discharge loop.

A contract is a python function  contract(S, cfg)  that
  * builds the pre-state through the value factory S (atoms + preconditions),
  * calls the REAL dassh function,
  * states post-conditions with S.eq / S.le / S.lt / S.holds.
The same function runs in two modes:
  sym     real code on Sym proxies under the path controller -> obligations are
          proved (normaliser / sign certificates / SMT) for all reals
  native  real code on floats with real NumPy at one sample point -> obligations
          are evaluated numerically (engine cross-check, replay of witnesses)
"""
from __future__ import annotations
import math
import time
import traceback
import numpy as np
from . import core, normal, smt
from .core import Sym, SymBool, Point, Reject, EngineLimit
from .npshim import shimmed


class Obl:
    __slots__ = ('name', 'kind', 'lhs', 'rhs', 'block', 'canary', 'scale', 'path', 'exact_uf')

    def __init__(self, name, kind, lhs, rhs, block=None, canary=False, scale=None):
        self.name, self.kind, self.lhs, self.rhs = name, kind, lhs, rhs
        self.block, self.canary, self.scale = block, canary, scale
        self.path = None
        self.exact_uf = False


def _flatten(name, a, b):
    """pair up (possibly array) sides -> [(name[idx], x, y)]"""
    a_arr = isinstance(a, np.ndarray) or isinstance(a, (list, tuple))
    b_arr = isinstance(b, np.ndarray) or isinstance(b, (list, tuple))
    if not a_arr and not b_arr:
        return [(name, a, b)]
    A = np.asarray(a, dtype=object)
    B = np.asarray(b, dtype=object)
    A, B = np.broadcast_arrays(A, B)
    out = []
    for idx in np.ndindex(A.shape):
        tag = ','.join(str(i) for i in idx)
        out.append((f'{name}[{tag}]', A[idx], B[idx]))
    return out


class Scenario:
    def __init__(self, mode, point=None, expect_stubs=True):
        self.mode = mode
        self.point = point
        self.obls = []
        self.native_results = []
        self.use_stubs = expect_stubs and mode == 'sym'
        self.notes = []
        # uninterpreted functions that stand for ARBITRARY data (array contents): a solver counter-model is then a
        # genuine counter-example of the verification condition, not an artefact of abstraction
        self.exact_uf = False

    # -- atoms ---------------------------------------------------------------
    def _atom(self, name, kind, lo, hi):
        n = core.CTX.var(name, kind=kind, lo=lo, hi=hi)
        if self.mode == 'sym':
            return Sym(n)
        v = self.point.atom(name)
        return int(v) if kind == 'int' else v

    def pos(self, name, lo=0.5, hi=2.5):
        return self._atom(name, 'pos', lo, hi)

    def nonneg(self, name, lo=0.0, hi=2.0):
        return self._atom(name, 'nonneg', lo, hi)

    def real(self, name, lo=-2.0, hi=2.0):
        return self._atom(name, 'real', lo, hi)

    def int(self, name, lo, hi):
        return self._atom(name, 'int', lo, hi)

    def vec(self, prefix, shape, kind='real', lo=None, hi=None):
        mk = {'real': self.real, 'pos': self.pos, 'nonneg': self.nonneg}[kind]
        kw = {}
        if lo is not None:
            kw['lo'] = lo
        if hi is not None:
            kw['hi'] = hi
        if isinstance(shape, int):
            shape = (shape,)
        out = np.empty(shape, dtype=object if self.mode == 'sym' else float)
        for idx in np.ndindex(*shape):
            out[idx] = mk(f'{prefix}[{",".join(map(str, idx))}]', **kw)
        return out

    def names(self, prefix, shape):
        if isinstance(shape, int):
            shape = (shape,)
        return [f'{prefix}[{",".join(map(str, idx))}]' for idx in np.ndindex(*shape)]

    def assume(self, cond, what=''):
        if self.mode == 'sym':
            if isinstance(cond, SymBool):
                t = core.const_truth(cond.n)
                if t is True:
                    return
                if core.CTRL is not None and core.CTRL.pc:
                    # stated after decisions were taken: it may depend on the path, so it belongs to the path condition
                    # (a global assumption would leak into the other paths)
                    core.CTRL.assume_local(cond.n)
                else:
                    core.CTX.assume.append(cond.n)
            elif not cond:
                raise Reject(f'precondition false: {what}')
        else:
            if not cond:
                raise Reject(f'precondition false at sample: {what}')

    def function(self, name, impl, sign=None):
        """uninterpreted function symbol (a dependency with an assumed contract);
        impl gives its value at sample points / in native mode."""
        core.CTX.fn_impl[name] = impl
        if sign:
            core.CTX.__dict__.setdefault('fn_sign', {})[name] = sign
        if self.mode != 'sym':
            return impl

        def f(*args):
            if any(isinstance(a, np.ndarray) for a in args):
                arrs = np.broadcast_arrays(*[np.asarray(a, dtype=object) for a in args])
                out = np.empty(arrs[0].shape, dtype=object)
                for idx in np.ndindex(arrs[0].shape):
                    out[idx] = Sym(core.fn(name, *[core.lift(a[idx]) for a in arrs]))
                return out
            return Sym(core.fn(name, *[core.lift(a) for a in args]))
        return f

    def abstract(self, name, value, kind=None):
        """replace a (callee-computed) value by an opaque atom carrying its
        definition: callers are verified against the atom, the definition is
        expanded only when the modular proof fails.  kind='pos' additionally
        ASSUMES value > 0 (a validity precondition, recorded and sampled)."""
        if self.mode != 'sym':
            if kind == 'pos' and not value > 0:
                raise Reject(f'validity precondition {name} > 0 false at sample')
            return value
        if not isinstance(value, Sym):
            return value
        n = value.n
        if n.op in ('c', 'v'):
            return value
        if kind is None:
            sg = normal.quick_sign(n)
            if sg is None:
                try:
                    sg = normal.sign_certificate(n)
                except Exception:
                    sg = None
            kind = {'>0': 'pos', '>=0': 'nonneg'}.get(sg, 'real')
        elif kind == 'pos':
            sg = normal.quick_sign(n)
            if sg != '>0':
                try:
                    sg = normal.sign_certificate(n)
                except Exception:
                    sg = None
            if sg != '>0':
                pre = core.cmp('gt', n, core.C(0))
                if core.CTRL is not None and core.CTRL.pc:
                    core.CTRL.assume_local(pre)      # stated after decisions: path-local (see assume)
                else:
                    core.CTX.assume.append(pre)
                self.note(f'validity precondition assumed: {name} > 0')
        tab = core.CTX.__dict__.setdefault('_abs', {})
        a = tab.get(n.id)
        if a is None:
            a = core.CTX.var(f'{name}@{n.id}', kind=kind, defn=('expr', n))
            tab[n.id] = a
        return Sym(a)

    def abstract_tree(self, name, obj, kind=None):
        """abstract every Sym leaf of a nested dict/list/ndarray structure in place"""
        if isinstance(obj, dict):
            for k in obj:
                obj[k] = self.abstract_tree(f'{name}.{k}', obj[k], kind)
            return obj
        if isinstance(obj, list):
            for i in range(len(obj)):
                obj[i] = self.abstract_tree(f'{name}.{i}', obj[i], kind)
            return obj
        if isinstance(obj, np.ndarray) and obj.dtype == object:
            for idx in np.ndindex(obj.shape):
                obj[idx] = self.abstract_tree(f'{name}.{",".join(map(str, idx))}', obj[idx], kind)
            return obj
        if isinstance(obj, np.ndarray) and self.mode != 'sym' and kind == 'pos':
            if not np.all(obj > 0):
                raise Reject(f'validity precondition {name} > 0 false at sample')
            return obj
        return self.abstract(name, obj, kind)

    # -- obligations -----------------------------------------------------------
    def _record(self, name, kind, lhs, rhs, **kw):
        if lhs is None or rhs is None:
            # a value the code was expected to hand over is missing: the obligation is plainly false (or plainly
            # true when both sides are absent) - not a fault of the checker
            return self.holds(name, lhs is rhs, canary=kw.get('canary', False))
        for nm, x, y in _flatten(name, lhs, rhs):
            if self.mode == 'sym':
                self.obls.append(Obl(nm, kind, core.lift(x), core.lift(y), **kw))
                self.obls[-1].exact_uf = self.exact_uf
            else:
                self.native_results.append(_native_eval(nm, kind, x, y, kw.get('canary', False),
                                                        kw.get('scale')))

    def eq(self, name, lhs, rhs, block=None, canary=False, scale=None):
        self._record(name, 'eq', lhs, rhs, block=block, canary=canary, scale=scale)

    def le(self, name, lhs, rhs, canary=False, scale=None):
        self._record(name, 'le', lhs, rhs, canary=canary, scale=scale)

    def lt(self, name, lhs, rhs, canary=False, scale=None):
        self._record(name, 'lt', lhs, rhs, canary=canary, scale=scale)

    def holds(self, name, cond, canary=False):
        if self.mode == 'sym':
            n = cond.n if isinstance(cond, SymBool) else core.CTX.mk('true' if cond else 'false')
            o = Obl(name, 'holds', n, None, canary=canary)
            o.exact_uf = self.exact_uf
            self.obls.append(o)
        else:
            self.native_results.append(dict(name=name, kind='holds', ok=bool(cond),
                                            lhs=bool(cond), rhs=True, canary=canary))

    def note(self, text):
        if text not in self.notes:
            self.notes.append(text)


def _native_eval(name, kind, x, y, canary, scale):
    x, y = float(x), float(y)
    sc = max(abs(x), abs(y), scale or 0.0, 1e-300)
    tol = 1e-9 * sc
    if kind == 'eq':
        ok = abs(x - y) <= tol
    elif kind == 'le':
        ok = x <= y + tol
    else:
        ok = x < y + tol
    return dict(name=name, kind=kind, ok=ok, lhs=x, rhs=y, canary=canary)


# ----------------------------------------------------------------------------
# oracle for path feasibility
# ----------------------------------------------------------------------------
class Oracle:
    def __init__(self, pool, smt_timeout_ms=800):
        self.pool = pool
        self.smt_timeout_ms = smt_timeout_ms
        self.stats = dict(cert=0, sample=0, smt=0, smt_unknown=0)
        self.cache = {}

    def __call__(self, conds):
        q = conds[-1]
        key = tuple(c.id for c in conds)
        if key in self.cache:
            return self.cache[key]
        r = self._ask(conds, q)
        self.cache[key] = r
        return r

    def _ask(self, conds, q):
        if q.op in ('lt', 'le', 'gt', 'ge', 'eq', 'ne'):
            d = core.sub(q.args[0], q.args[1])
            t = _cmp_from_sign(q.op, normal.quick_sign(d))
            if t is None:
                try:
                    t = normal.certify_cmp(q, factor=False)
                except Exception:
                    t = None
            if t is not None:
                self.stats['cert'] += 1
                return 'sat' if t else 'unsat'
        for pt in self.pool:
            try:
                if all(pt.eval(c) is True for c in conds):
                    self.stats['sample'] += 1
                    return 'sat'
            except Reject:
                continue
        if q.id in core.CTX.__dict__.get('_cheap', ()):
            return 'unknown'
        self.stats['smt'] += 1
        rel = smt.relevant(conds[:-1], [q]) + [q]
        st, model, _ = smt.check(rel, self.smt_timeout_ms, want_model=True)
        if st == 'sat' and len(rel) < len(conds):
            model = None        # a model of the relevant part only: not a full witness
        if st == 'unknown':
            self.stats['smt_unknown'] += 1
        if st == 'sat' and model and all(v is not None for v in model.values()):
            base = {k: v for k, v in model.items() if core.CTX.atoms[k].get('defn') is None}
            self.pool.append(Point(f'model{len(self.pool)}', base))
        return st


_SIGN_TABLE = {
    '>0': dict(lt=False, le=False, gt=True, ge=True, eq=False, ne=True),
    '<0': dict(lt=True, le=True, gt=False, ge=False, eq=False, ne=True),
    '==0': dict(lt=False, le=True, gt=False, ge=True, eq=True, ne=False),
    '>=0': dict(lt=False, ge=True),
    '<=0': dict(gt=False, le=True),
}


def _cmp_from_sign(op, s):
    if s is None:
        return None
    return _SIGN_TABLE[s].get(op)


# ----------------------------------------------------------------------------
# discharge
# ----------------------------------------------------------------------------
def _valid_points(pool, conds):
    out = []
    for pt in pool:
        try:
            if all(pt.eval(c) is True for c in conds):
                out.append(pt)
        except (Reject, ZeroDivisionError, OverflowError):
            continue
    return out


_MODEL_CACHE = {}
FREE = {}
LOCAL = {}


def _model_points(hyps, pool):
    """no pool point lies on this path: ask z3 for a model of the path condition
    (exact rational model -> sample point), cached per path"""
    key = tuple(h.id for h in hyps)
    if key in _MODEL_CACHE:
        return _MODEL_CACHE[key]
    out = []
    try:
        # the path condition proper is the tail of hyps; solve it with the hypotheses relevant to it
        aset = set(a.id for a in core.CTX.assume)
        pc = [h for h in hyps if h.id not in aset]
        # only the decisions that were genuinely open identify the path; forced ones are implied
        full = tuple(c.id for c in pc)
        pc = FREE.get(full, pc)
        # preconditions stated in the middle of a path are hypotheses like the global ones (not implied by anything)
        side = [h for h in hyps if h.id in aset] + LOCAL.get(full, [])
        goal, base = list(pc), {}
        # counter-example guided: solve for the open decisions (and what shares atoms with them), complete the point at
        # random, and if a hypothesis is false there, add it to the goal and solve again
        for attempt in range(5):
            if goal:
                gids = set(g.id for g in goal)
                rel = [h for h in smt.relevant(side, goal) if h.id not in gids] + goal
                st, model, _ = smt.check(rel, 2000, want_model=True)
                if st != 'sat' or not model or any(v is None for v in model.values()):
                    break
                base = {k: v for k, v in model.items() if core.CTX.atoms[k].get('defn') is None}
            pt = Point(f'pathmodel{len(pool)}.{attempt}', base)
            # equalities of the path condition hold exactly in the rational model; in floats they
            # may come out "too close to call" (None), which is accepted here
            failing = []
            for c in hyps:
                try:
                    if pt.eval(c) is False:
                        failing.append(c)
                except (Reject, ZeroDivisionError, OverflowError):
                    failing.append(c)
            if not failing:
                out = [pt]
                break
            known = set(g.id for g in goal)
            fresh = [c for c in failing if c.id not in known]
            if not fresh:
                break
            goal = goal + fresh
    except Exception:
        out = []
    _MODEL_CACHE[key] = out
    return out


def _numeric_check(o, pts):
    """evaluate the obligation at sample points; returns a violating point or None"""
    for pt in pts:
        try:
            if o.kind == 'holds':
                v = pt.eval(o.lhs)
                if v is False:
                    return pt, None, None
                continue
            x, y = pt.eval(o.lhs), pt.eval(o.rhs)
        except (Reject, ZeroDivisionError, OverflowError):
            continue
        sc = max(pt.mag(o.lhs), pt.mag(o.rhs), o.scale or 0.0, 1e-300)
        tol = 1e-7 * sc
        bad = (abs(x - y) > tol) if o.kind == 'eq' else (x > y + tol if o.kind == 'le' else x >= y + tol)
        if bad:
            return pt, x, y
    return None


DEADLINE = {'t': None}


def discharge(o, hyps, pool, budget_ms=20000, pts=None):
    """-> dict(status, backend, seconds, witness, detail); `pts`: the pool points that satisfy `hyps`, when the caller
    has them already (they are the same for every obligation of a path)"""
    t0 = time.time()
    pts = list(pts) if pts is not None else _valid_points(pool, hyps)
    if not pts:
        pts = _model_points(hyps, pool)
    bad = _numeric_check(o, pts)
    if bad is not None:
        pt, x, y = bad
        return dict(status='refuted', backend='sample', seconds=time.time() - t0,
                    witness=pt, detail=f'lhs={x!r} rhs={y!r} at a sample point')
    if o.kind == 'eq':
        r = normal.prove_eq(o.lhs, o.rhs, o.block)
        if r['proved']:
            return dict(status='proved', backend=r['method'], seconds=time.time() - t0,
                        witness=None, detail=f"{r['parts']} coefficient identities")
        if r['proved'] is not True and _has_int_atoms(o):
            # integer / rounding atoms: the equality may follow from their defining constraints (linear)
            rr = smt.prove(core.cmp('eq', o.lhs, o.rhs), hyps, timeout_ms=budget_ms, external=False)
            if rr['status'] == 'proved':
                return dict(status='proved', backend=rr['backend'], seconds=time.time() - t0, witness=None, detail='')
        if r['proved'] is None:
            return dict(status='undecided', backend=r['method'], seconds=time.time() - t0, witness=None,
                        detail='; '.join(f'{k}: {res}' for k, res in r['failed'][:3]))
        # the residual may vanish on this path only (tie conditions among the hypotheses): ask the SMT back end
        if DEADLINE['t'] is None or time.process_time() < DEADLINE['t']:
            rr = smt.prove(core.cmp('eq', o.lhs, o.rhs), hyps, timeout_ms=min(budget_ms, 4000), external=False)
            if rr['status'] == 'proved':
                return dict(status='proved', backend=rr['backend'], seconds=time.time() - t0, witness=None,
                            detail='equality follows from the path condition')
            if rr['status'] == 'refuted' and o.exact_uf and _has_uninterpreted(o, hyps):
                # array contents are arbitrary (uninterpreted): the solver's model IS a concrete array
                w = None
                if rr['model'] and all(v is not None for v in rr['model'].values()):
                    w = Point('smtmodel', {k: v for k, v in rr['model'].items()
                                           if core.CTX.atoms[k].get('defn') is None})
                    w.fn_points = rr.get('fn_points') or []
                fp = '; '.join(f"{nm}({', '.join(f'{a:g}' for a in args)}) = {val:g}" for nm, args, val in
                               sorted((rr.get('fn_points') or []), key=lambda t: (t[0], t[1])) if val is not None)
                return dict(status='refuted', backend=rr['backend'], seconds=time.time() - t0, witness=w,
                            detail='SMT counter-model (array contents are arbitrary: the model is a concrete array): '
                                   + fp[:900])
        # non-zero residual although every sample agreed in double precision: look
        # for a point where the two sides differ in 60-digit arithmetic
        detail = 'non-zero residual: ' + '; '.join(f'{k}: {res}' for k, res in r['failed'][:3])
        for pt in pts:
            try:
                dlt = abs(pt.eval_mp(core.sub(o.lhs, o.rhs)))
                # (points built from solver models satisfy tie conditions of the path only to double precision)
                if dlt > 1e-13 * max(pt.mag(o.lhs), pt.mag(o.rhs), 1e-300):
                    return dict(status='refuted', backend=r['method'], seconds=time.time() - t0, witness=pt,
                                detail=detail + f' ; |lhs-rhs| = {float(dlt):.3e} at a sample point (60 digits)')
            except Exception:
                continue
        # (with no sample point on the path the normaliser's verdict stands alone: it is a decision procedure for
        # rational functions only - a residual with uninterpreted function atoms in it decides nothing)
        # no sample point on this path: nothing shows the path itself to be feasible (an oracle time-out keeps
        # infeasible paths alive), so a non-zero residual alone refutes nothing
        return dict(status='undecided', backend=r['method'],
                    seconds=time.time() - t0, witness=None, detail=detail)
    if o.kind == 'holds':
        goal = o.lhs
    else:
        goal = core.cmp('le' if o.kind == 'le' else 'lt', o.lhs, o.rhs)
    hyp_ids = set()
    stack = list(hyps)
    while stack:
        h = stack.pop()
        hyp_ids.add(h.id)
        if h.op == 'and':
            stack.extend(h.args)
    if goal.id in hyp_ids:
        return dict(status='proved', backend='hypothesis', seconds=time.time() - t0, witness=None, detail='')
    if goal.op in ('le', 'ge') and _order_closure(hyp_ids, goal):
        return dict(status='proved', backend='hypothesis/transitivity', seconds=time.time() - t0, witness=None,
                    detail='')
    if goal.op in ('lt', 'le', 'gt', 'ge', 'eq', 'ne'):
        d = core.sub(goal.args[0], goal.args[1])
        t = _cmp_from_sign(goal.op, normal.quick_sign(d))
        backend = 'sign/structural'
        if t is None:
            try:
                t = normal.certify_cmp(goal)
                backend = 'sign/coefficients'
            except Exception:
                t = None
        if t is None and goal.op in ('le', 'lt', 'ge', 'gt'):
            try:
                sg = normal.sqrt_monotone_sign(d)
            except Exception:
                sg = None
            t2 = _cmp_from_sign(goal.op, sg)
            if t2 is True:
                t, backend = True, 'sign/sqrt-monotone'
        if t is True:
            return dict(status='proved', backend=backend, seconds=time.time() - t0, witness=None, detail='')
        if t is False and pts:
            return dict(status='refuted', backend=backend, seconds=time.time() - t0,
                        witness=pts[0], detail='certified false')
    if DEADLINE.get('unknowns', 0) >= 8:
        return dict(status='undecided', backend='budget', seconds=time.time() - t0, witness=None,
                    detail='SMT back end skipped: 8 earlier obligations of this contract run already came back unknown')
    if DEADLINE['t'] is not None and time.process_time() > DEADLINE['t']:
        return dict(status='undecided', backend='budget', seconds=time.time() - t0, witness=None,
                    detail='contract time budget exhausted before this obligation reached the SMT back end')
    r = smt.prove(goal, hyps, timeout_ms=budget_ms, external=budget_ms >= 15000)
    if r['status'] == 'proved':
        return dict(status='proved', backend=r['backend'], seconds=time.time() - t0, witness=None, detail='')
    if r['status'] == 'refuted':
        w = None
        if r['model'] and all(v is not None for v in r['model'].values()):
            base = {k: v for k, v in r['model'].items() if core.CTX.atoms[k].get('defn') is None}
            w = Point('smtmodel', base)
            w.fn_points = r.get('fn_points') or []
        if o.exact_uf and _has_uninterpreted(o, hyps):
            fp = '; '.join(f"{nm}({', '.join(f'{a:g}' for a in args)}) = {val:g}" for nm, args, val in
                           sorted((r.get('fn_points') or []), key=lambda t: (t[0], t[1])) if val is not None)
            return dict(status='refuted', backend=r['backend'], seconds=time.time() - t0, witness=w,
                        detail='SMT counter-model (array contents are arbitrary: the model is a concrete array): ' + fp[:900])
        if _has_uninterpreted(o, hyps):
            # the solver treats log / powers / material functions as arbitrary functions: its counter-model is
            # only a refutation if it is one for the real functions too
            confirmed = False
            if w is not None:
                try:
                    confirmed = _numeric_check(o, [w]) is not None and all(w.eval(h) is not False for h in hyps)
                except Exception:
                    confirmed = False
            if not confirmed:
                DEADLINE['unknowns'] = DEADLINE.get('unknowns', 0) + 1
                return dict(status='undecided', backend=r['backend'], seconds=time.time() - t0, witness=None,
                            detail='SMT counter-model uses uninterpreted functions and is not confirmed with the '
                                   'real functions')
        return dict(status='refuted', backend=r['backend'], seconds=time.time() - t0, witness=w,
                    detail='SMT counter-model')
    DEADLINE['unknowns'] = DEADLINE.get('unknowns', 0) + 1
    return dict(status='undecided', backend=r['backend'], seconds=time.time() - t0, witness=None,
                detail='solver returned unknown')


def _has_uninterpreted(o, hyps):
    roots = [x for x in (o.lhs, o.rhs) if x is not None] + list(hyps)
    return any(n.op in ('fn', 'rpow') for n in core.topo(roots, defs=True))


def _has_fn_nodes(o):
    seen, stack = set(), [x for x in (o.lhs, o.rhs) if x is not None]
    while stack:
        n = stack.pop()
        if n.id in seen:
            continue
        seen.add(n.id)
        if n.op == 'fn':
            return True
        stack.extend(a for a in n.args if hasattr(a, 'id'))
    return False


def _has_int_atoms(o):
    for side in (o.lhs, o.rhs):
        if side is None:
            continue
        for nm in core.variables([side]):
            if core.CTX.atoms[nm]['kind'] == 'int':
                return True
    return False


def _order_closure(hyp_ids, goal):
    """goal a <= b by transitivity over the <= / < / == facts among the hypotheses"""
    a, b = goal.args if goal.op == 'le' else (goal.args[1], goal.args[0])
    succ = {}
    for hid in hyp_ids:
        h = core.CTX.nodes[hid]
        if h.op in ('le', 'lt', 'eq'):
            succ.setdefault(h.args[0].id, set()).add(h.args[1].id)
            if h.op == 'eq':
                succ.setdefault(h.args[1].id, set()).add(h.args[0].id)
        elif h.op in ('ge', 'gt'):
            succ.setdefault(h.args[1].id, set()).add(h.args[0].id)
    seen, stack = {a.id}, [a.id]
    while stack:
        x = stack.pop()
        if x == b.id:
            return True
        for y in succ.get(x, ()):
            if y not in seen:
                seen.add(y)
                stack.append(y)
    return False


def check_divisions(div_seen, assume, pool):
    """side conditions: every denominator met on a feasible path is non-zero"""
    out = []
    seen = set()
    for den, pc in div_seen:
        if den.id in seen:
            continue
        seen.add(den.id)
        s = normal.quick_sign(den)
        if s in ('>0', '<0'):
            continue
        try:
            s2 = normal.sign_certificate(den)
        except Exception:
            s2 = None
        if s2 in ('>0', '<0'):
            continue
        hyps = list(assume) + list(pc)
        r = smt.prove(core.cmp('ne', den, core.C(0)), hyps, timeout_ms=5000, external=False)
        out.append(dict(den=core.show(den, 4), status=r['status'],
                        model=r.get('model') if r['status'] == 'refuted' else None))
    return out


# ----------------------------------------------------------------------------
# running a contract
# ----------------------------------------------------------------------------
class ContractRun:
    def __init__(self, name):
        self.name = name
        self.paths = []
        self.results = []       # per obligation dicts
        self.div = []
        self.crosscheck = dict(points=0, mismatches=[])
        self.stats = {}
        self.error = None
        self.notes = []
        self.atoms = 0
        self.exits = []


def run_symbolic(contract, cfg, modules, seed=0, pool_size=6, max_paths=64, budget_ms=4000, time_cap_s=900,
                 check_div=True):
    """returns ContractRun"""
    name = getattr(contract, 'cname', contract.__name__) + _cfgtag(cfg)
    run = ContractRun(name)
    t0 = time.time()
    core.new_context(seed)
    pool = [Point(f'{seed}:{i}') for i in range(pool_size)]
    oracle = Oracle(pool)
    ctrl = core.Controller(oracle, max_paths=max_paths)
    S = Scenario('sym')
    per_path = []

    def once():
        S.obls = []
        contract(S, cfg)
        return list(S.obls)

    try:
        with shimmed(modules):
            for pc, out in ctrl.run(once):
                per_path.append((pc, out))
                FREE[tuple(c.id for c in pc)] = list(ctrl.last_free)
                LOCAL[tuple(c.id for c in pc)] = list(ctrl.last_local)
    except EngineLimit as e:
        run.error = f'{type(e).__name__}: {e}'
        run.stats = dict(ctrl.stats, seconds=time.time() - t0)
        return run, S, pool
    except core.PathLimit as e:
        # the exploration is incomplete, so nothing can be reported as held (run.error makes the contract
        # undecided); the obligations of the paths that were completed are still discharged - a refutation
        # there, replayed on the real code, stands whatever the unexplored paths would have said
        run.error = f'{type(e).__name__}: {e}'
    run.notes = list(S.notes)
    assume = list(core.CTX.assume)
    DEADLINE['t'] = time.process_time() + time_cap_s        # CPU time: verdicts must not depend on machine load
    DEADLINE['unknowns'] = 0
    _MODEL_CACHE.clear()
    for pi, (pc, out) in enumerate(per_path):
        run.paths.append(dict(index=pi, decisions=len(pc), outcome=out[0],
                              pc=[core.show(c, 3) for c in pc[:12]]))
        if out[0] == 'raise':
            e = out[1]
            tb = ''.join(traceback.format_exception(type(e), e, e.__traceback__)[-3:])
            frames = traceback.extract_tb(e.__traceback__)
            inner = frames[-1].filename if frames else ''
            verif_root = __file__.rsplit('/pvc/', 1)[0]
            if inner.startswith(verif_root) and not isinstance(e, (AssertionError,)):
                # the exception was raised by the contract / engine code itself, not by the code under contract
                run.results.append(dict(name=f'{name}:contract_code_error[path{pi}]', status='fault',
                                        backend='path-execution', seconds=0.0, canary=False, witness=None,
                                        detail=f'{type(e).__name__}: {e}\n{tb}', path=pi))
                continue
            pts = _valid_points(pool, assume + pc)
            run.results.append(dict(name=f'{name}:no_exception[path{pi}]', status='refuted' if pts else 'undecided',
                                    backend='path-execution', seconds=0.0, canary=False,
                                    witness=pts[0] if pts else None,
                                    detail=f'{type(e).__name__}: {e}\n{tb}', path=pi))
            continue
        if out[0] == 'exit':
            run.exits.append(dict(path=pi, pc=[core.show(c, 3) for c in pc[-4:]]))
            continue
        hyps = assume + pc
        path_pts = _valid_points(pool, hyps) if out[1] else []
        for o in out[1]:
            r = discharge(o, hyps, pool, budget_ms, pts=path_pts)
            r.update(name=f'{name}:{o.name}' + (f'@p{pi}' if len(per_path) > 1 else ''),
                     canary=o.canary, path=pi, kind=o.kind)
            run.results.append(r)
    run.div = check_divisions(ctrl.div_seen, assume, pool) if check_div else []
    run.stats = dict(ctrl.stats, oracle=oracle.stats, seconds=round(time.time() - t0, 3),
                     nodes=len(core.CTX.nodes), atoms=len(core.CTX.atoms))
    return run, S, pool


def run_native(contract, cfg, point):
    """one native execution at a sample point -> list of obligation results,
    or None when the sample does not satisfy the preconditions"""
    S = Scenario('native', point)
    import signal

    def _alarm(*a):
        raise TimeoutError('native execution exceeded 120 s of CPU time (possible non-termination)')
    # CPU-time timer (user + system time of this process), so that a busy machine cannot fake a hang
    old = signal.signal(signal.SIGPROF, _alarm)
    signal.setitimer(signal.ITIMER_PROF, 120)
    try:
        with np.errstate(all='ignore'):
            contract(S, cfg)
    except Reject:
        return None
    except TimeoutError as e:
        return [dict(name='(native timeout)', kind='safety', ok=False, lhs=0, rhs=0, canary=False, note=str(e))]
    except SystemExit as e:
        return [dict(name='(exit)', kind='exit', ok=True, lhs=0, rhs=0, canary=False, note=str(e))]
    finally:
        signal.setitimer(signal.ITIMER_PROF, 0)
        signal.signal(signal.SIGPROF, old)
    return S.native_results


def _cfgtag(cfg):
    if not cfg:
        return ''
    return '[' + ','.join(f'{k}={v}' for k, v in cfg.items()) + ']'
