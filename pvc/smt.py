"""SMT back end: DAG -> z3 (python API) with cvc5 / z3-CLI second opinions on the
same SMT-LIB text.  Used for inequalities, mixed integer/real obligations and
path feasibility.  `unknown` is never turned into a verdict."""
from __future__ import annotations
import os
import subprocess
import tempfile
import time
import z3
from . import core
from .core import topo


class Z3Conv:
    def __init__(self):
        self.cache = {}
        self.side = []          # defining constraints (sqrt atoms, kinds, sqrt3, pi)
        self.vars = {}
        self.s3 = None
        self.ufs = {}

    def sqrt3(self):
        if self.s3 is None:
            self.s3 = z3.Real('SQRT3')
            self.side += [self.s3 > 0, self.s3 * self.s3 == 3,
                          self.s3 > z3.RealVal('1.7320508'), self.s3 < z3.RealVal('1.7320509')]
        return self.s3

    def const(self, q):
        r = z3.RealVal(str(q.a))
        if q.b != 0:
            r = r + z3.RealVal(str(q.b)) * self.sqrt3()
        return r

    def var(self, name):
        v = self.vars.get(name)
        if v is not None:
            return v
        info = core.CTX.atoms[name]
        kind = info['kind']
        if kind == 'int':
            v = z3.Int(name)
            if info.get('lo') is not None:
                self.side.append(v >= int(info['lo']))
            self.vars[name] = v
            d = info.get('defn')
            if d is not None and d[0] in ('round', 'floor'):
                x = self.conv(d[1])
                if d[0] == 'round':
                    self.side += [2 * (x - v) <= 1, 2 * (x - v) >= -1]
                else:
                    self.side += [v <= x, x < v + 1]
            return v
        v = z3.Real(name)
        self.vars[name] = v
        if name == 'PI':
            self.side += [v > z3.RealVal('3.14159265'), v < z3.RealVal('3.14159266')]
        elif kind == 'pos':
            self.side.append(v > 0)
        elif kind == 'nonneg':
            self.side.append(v >= 0)
        d = info.get('defn')
        if d is not None and d[0] == 'min':
            xs = [self.conv(x) for x in d[1]]
            self.side.append(z3.Or(*[v == x for x in xs]))
            self.side += [v <= x for x in xs]
        elif d is not None:
            x = self.conv(d[1])
            if d[0] == 'sqrt':
                self.side += [v >= 0, v * v == x]
            elif d[0] == 'expr':
                self.side.append(v == x)
        return v

    def scaled_difference(self, n):
        """lhs - rhs of a comparison as an integer-coefficient polynomial with the common
        content removed, when its normal form has a constant positive denominator
        (keeps 1e12-type scale factors away from the solver)"""
        from . import normal
        try:
            fr = normal.convert(core.sub(n.args[0], n.args[1]))
        except Exception:
            return None
        if fr.m or fr.f or len(fr.n) > 400:
            return None
        names = core.CTX.__dict__.get('_vname', {})
        g = 0
        from math import gcd
        for c in fr.n.values():
            g = gcd(g, c)
        g = g or 1
        total = None
        for m, c in fr.n.items():
            term = None
            for v, e in m:
                key = names.get(v)
                if key is None:
                    return None
                if key in ('SQRT3', 'sqrt3'):
                    x = self.sqrt3()
                elif key.startswith('v_'):
                    x = self.var(key[2:])
                elif key.startswith('o_'):
                    x = self.conv(core.CTX.nodes[int(key[2:])])
                else:
                    return None
                for _ in range(e):
                    term = x if term is None else term * x
            coef = c // g
            if term is None:
                term = z3.IntVal(coef)
            elif coef != 1:
                term = coef * term
            total = term if total is None else total + term
        if total is None:
            total = z3.IntVal(0)
        return total

    def uf(self, name, arity):
        f = self.ufs.get((name, arity))
        if f is None:
            f = z3.Function(name, *([z3.RealSort()] * (arity + 1)))
            self.ufs[(name, arity)] = f
        return f

    def conv(self, root):
        c = self.cache
        if root.id in c:
            return c[root.id]
        for n in topo([root]):
            if n.id in c:
                continue
            op = n.op
            a = [c[x.id] for x in n.args]
            if op == 'c':
                r = self.const(n.val)
            elif op == 'v':
                r = self.var(n.val)
            elif op == '+':
                r = a[0] + a[1]
            elif op == '*':
                r = a[0] * a[1]
            elif op == '/':
                r = _real(a[0]) / _real(a[1])
            elif op == '^':
                r = a[0]
                for _ in range(n.val - 1):
                    r = r * a[0]
            elif op == 'rpow':
                f = self.uf(f'rpow_{n.val.numerator}_{n.val.denominator}', 1)
                r = f(_real(a[0]))
                self.side.append(r > 0)
            elif op == 'fn':
                f = self.uf('fn_' + n.val, len(a))
                r = f(*[_real(x) for x in a])
            elif op in ('lt', 'le', 'gt', 'ge', 'eq', 'ne'):
                d = self.scaled_difference(n)
                if d is not None:
                    a = [d, z3.IntVal(0) if z3.is_int(d) else z3.RealVal(0)]
                r = {'lt': lambda: a[0] < a[1], 'le': lambda: a[0] <= a[1], 'gt': lambda: a[0] > a[1],
                     'ge': lambda: a[0] >= a[1], 'eq': lambda: a[0] == a[1], 'ne': lambda: a[0] != a[1]}[op]()
            elif op == 'not':
                r = z3.Not(a[0])
            elif op == 'and':
                r = z3.And(*a) if a else z3.BoolVal(True)
            elif op == 'or':
                r = z3.Or(*a) if a else z3.BoolVal(False)
            elif op == 'true':
                r = z3.BoolVal(True)
            elif op == 'false':
                r = z3.BoolVal(False)
            else:
                raise core.EngineLimit(f'z3 conversion: op {op}')
            c[n.id] = r
        return c[root.id]


def _real(x):
    return z3.ToReal(x) if z3.is_int(x) else x


def relevant(conds, goal_conds):
    """cone of influence: the hypotheses that share variables (transitively) with
    the goal.  Dropping hypotheses is sound for proofs (unsat of a subset implies
    unsat of the whole)."""
    vs = [set(core.variables([c])) for c in conds]
    want = set()
    for g in goal_conds:
        want |= set(core.variables([g]))
    keep = [False] * len(conds)
    changed = True
    while changed:
        changed = False
        for i, c in enumerate(conds):
            if not keep[i] and (vs[i] & want or not vs[i]):
                keep[i] = True
                if not vs[i] <= want:
                    want |= vs[i]
                    changed = True
    return [c for i, c in enumerate(conds) if keep[i]]


def check(conds, timeout_ms=3000, want_model=False, external=False):
    """satisfiability of the conjunction of boolean nodes.
    returns (status, model_dict_or_None, info)"""
    t0 = time.time()
    cv = Z3Conv()
    fs = [cv.conv(b) for b in conds]
    s = z3.Solver()
    # deterministic resource limit (verdicts must not flip with machine load); the
    # wall-clock timeout is only a safety net
    s.set('rlimit', int(timeout_ms) * 400)
    s.set('timeout', int(timeout_ms) * 15)
    for f in cv.side + fs:
        s.add(f)
    import threading
    # z3 does not always honour its own limits (integer cuts with large coefficients):
    # interrupt it from a watchdog thread
    wd = threading.Timer(max(6.0, timeout_ms * 18 / 1000.0), s.ctx.interrupt)
    wd.daemon = True
    wd.start()
    try:
        r = s.check()
    except z3.Z3Exception:
        r = z3.unknown
    finally:
        wd.cancel()
    status = 'sat' if r == z3.sat else ('unsat' if r == z3.unsat else 'unknown')
    info = dict(backend=f'z3-{z3.get_version_string()}', seconds=round(time.time() - t0, 3))
    model = None
    if status == 'sat' and want_model:
        m = s.model()
        model = {}
        for name, v in cv.vars.items():
            val = m.eval(v, model_completion=True)
            model[name] = _z3num(val)
        fnp = []
        for nid, ze in cv.cache.items():
            nd = core.CTX.nodes[nid]
            if nd.op == 'fn':
                try:
                    args = [_z3num(m.eval(cv.cache[x.id], model_completion=True)) for x in nd.args]
                    fnp.append((nd.val, args, _z3num(m.eval(ze, model_completion=True))))
                except Exception:
                    pass
        info['fn_points'] = fnp
    if status == 'unknown' and external:
        smt2 = s.to_smt2()
        for tool, args in (('cvc5', ['/usr/bin/cvc5', '--nl-cov', f'--tlimit={timeout_ms * 4}']),
                           ('z3-4.8.12', ['/usr/bin/z3', f'-T:{max(1, timeout_ms * 4 // 1000)}'])):
            st = _external(args, smt2)
            if st in ('sat', 'unsat'):
                status = st
                info = dict(backend=tool, seconds=round(time.time() - t0, 3))
                break
    return status, model, info


def _z3num(val):
    try:
        if z3.is_int_value(val):
            return float(val.as_long())
        if z3.is_rational_value(val):
            return float(val.numerator_as_long()) / float(val.denominator_as_long())
        if z3.is_algebraic_value(val):
            return float(val.approx(20).as_fraction())
    except Exception:
        pass
    return None


def _external(args, smt2):
    with tempfile.NamedTemporaryFile('w', suffix='.smt2', delete=False,
                                     dir=os.environ.get('TMPDIR', '/tmp')) as f:
        f.write(smt2)
        path = f.name
    try:
        out = subprocess.run(args + [path], capture_output=True, text=True, timeout=600)
        first = (out.stdout.strip().splitlines() or [''])[0].strip()
        return first
    except Exception:
        return 'error'
    finally:
        os.unlink(path)


def prove(goal, hyps, timeout_ms=20000, external=True):
    """prove hyps => goal.  returns dict(status in proved/refuted/unknown, model, ...)"""
    hyps = relevant(list(hyps), [goal])
    st, model, info = check(list(hyps) + [core.bnot(goal)], timeout_ms, want_model=True,
                            external=external)
    return dict(status={'unsat': 'proved', 'sat': 'refuted'}.get(st, 'unknown'),
                model=model, **info)
