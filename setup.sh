#!/bin/sh
# offline build of the framework's overlay venv (python 3.12 of /venv + solver wheels)
set -e
cd "$(dirname "$0")"
if [ ! -x .venv/bin/python ] || ! .venv/bin/python -c "import z3, sympy, jsonschema" 2>/dev/null; then
  rm -rf .venv
  /venv/bin/python -m venv .venv
  .venv/bin/python -m pip install -q --no-index --find-links /opt/veriftools/wheels \
      z3-solver sympy cvc5 icontract deal crosshair-tool jsonschema
  echo "import site; site.addsitedir('/venv/lib/python3.12/site-packages')" \
      > .venv/lib/python3.12/site-packages/_overlay.pth
fi
.venv/bin/python -c "import z3, sympy, numpy, jsonschema; print('venv ok', z3.get_version_string(), sympy.__version__, numpy.__version__)"
