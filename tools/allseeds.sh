#!/bin/sh
# tools/allseeds.sh  (env P=n parallel runs, ONLY=regex restricts the ids) : run every stored seeded change against the quick check of its property (scratch copy of
# /repo HEAD + patch, outside /repo and /verif, removed afterwards); writes seeded/<id>/recheck.json and prints a table
cd /verif
ls seeded | grep -E "${ONLY:-.}" | xargs -P ${P:-6} -I{} sh -c '
  ID={}; D=/verif/seeded/$ID
  PROP=$(python3 -c "import json;m=json.load(open(\"$D/meta.json\"));print(m.get(\"detected_by_property\",m[\"property\"]))" 2>/dev/null)
  [ -z "$PROP" ] && { echo "$ID no-meta"; exit 0; }
  SCR=$(mktemp -d /tmp/seed.XXXXXX)
  git -C /repo archive HEAD | tar -x -C $SCR
  (cd $SCR && git init -q . 2>/dev/null; git apply $D/patch.diff) || { echo "$ID PATCH-DOES-NOT-APPLY"; rm -rf $SCR; exit 0; }
  VERIF_EVIDENCE_DIR=$SCR/evidence VERIF_REPLAY_DIR=$SCR/replays DASSH_REPO=$SCR ./check $PROP --tier quick > $SCR/out.txt 2>&1; K=$?
  V=$(grep -c "^VIOLATION" $SCR/out.txt)
  echo "{\"property\": \"$PROP\", \"check_exit\": $K, \"violation_lines\": $V}" > $D/recheck.json
  echo "$ID $PROP exit=$K violations=$V"
  rm -rf $SCR'
