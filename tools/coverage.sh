#!/bin/sh
# tools/coverage.sh [tier] : run every check with VERIF_COVER on and list the functions of /repo/dassh that no check
# entered (neither on proxies nor natively). Evidence is written to a scratch directory.
cd /verif
OUT=$(mktemp -d /tmp/cover.XXXXXX)
for p in C01 C02 C03 C04 C05 C06 C07 C08 C09 C10 C11 C12 C13 C14 C15 C16 C17 C18 C19 C20; do echo $p; done | \
  xargs -P 4 -I{} sh -c "VERIF_COVER=$OUT/{} VERIF_EVIDENCE_DIR=$OUT/ev ./check {} --tier ${1:-quick} > $OUT/{}.out 2>&1; echo {} \$?"
/verif/.venv/bin/python - "$OUT" <<'PY'
import ast, glob, os, sys, json
out = sys.argv[1]
repo = os.path.realpath(os.environ.get('DASSH_REPO', '/repo'))
seen = {}
for d in glob.glob(os.path.join(out, 'C??')):
    prop = os.path.basename(d)
    for f in glob.glob(os.path.join(d, '*.txt')):
        for line in open(f):
            fn, ln, name = line.rstrip('\n').split('\t')
            if fn.startswith('<'):
                q = fn.split(' of ')[-1].rstrip('>')
                seen.setdefault(('cut', q), set()).add(prop)
            else:
                seen.setdefault((os.path.relpath(fn, repo), int(ln)), set()).add(prop)
cut_names = {k[1] for k in seen if k[0] == 'cut'}
rows = []
for f in sorted(glob.glob(os.path.join(repo, 'dassh', '**', '*.py'), recursive=True)):
    rel = os.path.relpath(f, repo)
    tree = ast.parse(open(f).read())
    def visit(node, prefix):
        for n in node.body:
            if isinstance(n, (ast.FunctionDef, ast.AsyncFunctionDef)):
                q = prefix + n.name
                ln = n.lineno
                # decorators shift co_firstlineno to the first decorator line
                lns = {ln} | {d.lineno for d in n.decorator_list}
                props = set()
                for l in lns:
                    props |= seen.get((rel, l), set())
                if q in cut_names or q.split('.')[-1] in {c.split('.')[-1] for c in cut_names if c.split('.')[:-1] == q.split('.')[:-1]}:
                    props |= seen.get(('cut', q), set())
                rows.append((rel, q, sorted(props)))
                visit(n, q + '.')
            elif isinstance(n, ast.ClassDef):
                visit(n, prefix + n.name + '.')
    visit(tree, '')
json.dump([dict(file=r, function=q, checks=p) for r, q, p in rows], open('/verif/coverage.json', 'w'), indent=0)
tot = len(rows); hit = sum(1 for r in rows if r[2])
print(f'{hit} of {tot} functions of dassh entered by at least one check')
by = {}
for r, q, p in rows:
    by.setdefault(r, [0, 0, []])
    by[r][0] += 1
    if p: by[r][1] += 1
    else: by[r][2].append(q)
for r, (n, h, miss) in sorted(by.items()):
    print(f'{r}: {h}/{n}' + ('' if not miss else '  never entered: ' + ', '.join(miss)))
PY
rm -rf "$OUT"
