#!/bin/sh
# tools/mut.sh <prop> <file-relative-to-repo> <sed-expression> [tier]
# apply a sed mutation to a scratch copy of /repo/dassh, run a check against it, clean up
set -e
SCR=$(mktemp -d /tmp/mut.XXXXXX)
cp -r /repo/dassh "$SCR/dassh"
sed -i "$3" "$SCR/$2"
if diff -q /repo/$2 "$SCR/$2" >/dev/null; then echo "MUTATION DID NOT APPLY"; rm -rf "$SCR"; exit 9; fi
diff /repo/$2 "$SCR/$2" | head -6
cd /verif
set +e
VERIF_EVIDENCE_DIR="$SCR/evidence" DASSH_REPO="$SCR" ./check "$1" --tier "${4:-quick}" 2>&1 | cut -c1-260 | tail -6
rm -rf "$SCR"
