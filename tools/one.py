"""debug: run one (module, config index) in-process with timing:  tools/one.py c01 0 [tier]"""
import sys, time, os
sys.path.insert(0, '/verif'); sys.path.insert(0, os.environ.get('DASSH_REPO', '/repo'))
sys.setrecursionlimit(200000)
import importlib
from collections import Counter
from pvc import scen, core
mod = importlib.import_module('contracts.' + sys.argv[1])
tier = sys.argv[3] if len(sys.argv) > 3 else 'quick'
fn, cfg = mod.configs(tier)[int(sys.argv[2])]
print(fn.__name__, cfg)
t0 = time.time()
run, S, pool = scen.run_symbolic(fn, cfg, mod.MODULES, **getattr(fn, 'run_kw', {}))
print('error', run.error); print(run.stats)
print(Counter((r['status'], r['backend']) for r in run.results))
for r in run.results:
    if r['status'] != 'proved' and not r['canary']:
        print(r['name'], r['status'], r['backend'], r['detail'][:1500])
slow = sorted(run.results, key=lambda r: -r['seconds'])[:5]
for r in slow:
    print('slow', r['name'], round(r['seconds'], 2), r['backend'])
print('div', [d for d in run.div if d['status'] != 'proved'][:5], len(run.div))
print('notes', run.notes[:5])
print('total', round(time.time() - t0, 2))
