#!/bin/sh
# tools/reseed.sh <id> <prop> : re-run a check against an already stored seeded change (/verif/seeded/<id>/patch.diff)
ID=$1; PROP=$2
D=/verif/seeded/$ID
SCR=$(mktemp -d /tmp/seed.XXXXXX)
git -C /repo archive HEAD | tar -x -C $SCR
cd $SCR && git init -q . 2>/dev/null; git apply $D/patch.diff || echo "PATCH DOES NOT APPLY to HEAD"
cd /verif
VERIF_EVIDENCE_DIR=$SCR/evidence DASSH_REPO=$SCR ./check $PROP --tier ${3:-quick} 2>&1 | grep "VIOLATION\|^$PROP" | cut -c1-230 | tail -6
rm -rf $SCR
