#!/bin/sh
# run every claimed check (quick tier) on /repo and summarise; evidence files are rewritten
cd /verif
for p in $(python3 -c "import json; print(' '.join(c['property_id'] for c in json.load(open('MANIFEST.json'))['checks']))"); do
  for seed in ${SEEDS:-0}; do
    out=$(VERIF_SEED=$seed ./check $p --tier ${TIER:-quick} 2>&1); code=$?
    echo "$p seed=$seed exit=$code :: $(echo "$out" | tail -1 | cut -c1-160)"
  done
done
