#!/bin/sh
# tools/seed.sh <id> <prop> <worktree> <demo-file> : confirm a seeded change and run the property check against it
# - copies patch + demo into /verif/seeded/<id>/
# - demo must PASS on /repo HEAD and FAIL with the patch
# - runs ./check <prop> against a scratch copy with the patch applied
set -e
ID=$1; PROP=$2; WT=$3; DEMO=$4
D=/verif/seeded/$ID
mkdir -p $D
git -C $WT diff -- dassh > $D/patch.diff
cp $WT/$DEMO $D/
SCR=$(mktemp -d /tmp/seed.XXXXXX)
git -C /repo archive HEAD | tar -x -C $SCR
cd $SCR
cp $D/$DEMO $SCR/
set +e
PYTHONPATH=$SCR /venv/bin/python $SCR/$DEMO > $D/demo_clean.out 2>&1; C=$?
git init -q . 2>/dev/null; git apply $D/patch.diff || { echo "PATCH DOES NOT APPLY to HEAD"; }
PYTHONPATH=$SCR /venv/bin/python $SCR/$DEMO > $D/demo_patched.out 2>&1; P=$?
echo "demo exit: clean=$C patched=$P"
cd /verif
VERIF_EVIDENCE_DIR=$SCR/evidence DASSH_REPO=$SCR ./check $PROP --tier quick > $D/check.out 2>&1; K=$?
echo "check exit=$K"; grep -c VIOLATION $D/check.out; tail -2 $D/check.out | cut -c1-250
rm -rf $SCR
echo "{\"demo_clean_exit\": $C, \"demo_patched_exit\": $P, \"check_exit\": $K}" > $D/result.json
