#!/bin/sh
# run the thorough tier of the given properties (default: all) and record their obligation names in the ledger
cd /verif
for p in ${*:-C01 C02 C03 C04 C05 C06 C07 C08 C09 C10 C11 C12 C13 C14 C15 C16 C17 C18 C19 C20}; do
  out=$(./check $p --tier thorough --update-ledger 2>&1); code=$?
  echo "$p exit=$code :: $(echo "$out" | grep -v '^ledger' | tail -1 | cut -c1-170)"
done
