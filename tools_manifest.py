"""regenerate MANIFEST.json from the per-property table below (kept valid at all times)"""
import json, os
ROOT = os.path.dirname(os.path.abspath(__file__))
props = [json.loads(l) for l in open(os.path.join(ROOT, 'properties.jsonl'))]
ids = [p['id'] for p in props]
from manifest_table import CLAIMED, NOT_APPLICABLE
checks = []
for pid in ids:
    if pid in CLAIMED:
        c = CLAIMED[pid]
        checks.append(dict(
            property_id=pid,
            quick_cmd=f'./check {pid} --tier quick',
            thorough_cmd=f'./check {pid} --tier thorough',
            evidence_file=f'evidence/{pid}.json',
            replay_cmd_template=f'./check {pid} --replay {{path}}',
            engine='pvc',
            level_claimed=dict(category=c['category'], text=c['text'], design_ref=c.get('design_ref', 'DESIGN.md section 8')),
            level_note=c['note'],
            technique=c['technique']))
na = [dict(property_id=pid, reason=NOT_APPLICABLE[pid]) for pid in ids if pid not in CLAIMED]
man = dict(
    version=1,
    setup_cmd='sh ./setup.sh',
    hooks=dict(guard='DASSH_VERIF', enable='no source hooks are needed: contracts are sidecars under /verif/contracts, '
               'proxies enter through the module global np (unused guard)',
               baseline_off_cmd='cd /repo && /venv/bin/python -m pytest -ra -q -p no:cacheprovider --timeout=900 '
               '--continue-on-collection-errors', source_commits=[], add_only=True),
    engines=[dict(name='pvc', path='pvc/', serves_properties=sorted(CLAIMED),
                  kind_free_text='contract-based deductive verification: real dassh functions executed on symbolic '
                  'proxies under a path controller; obligations discharged by an exact rational-function normaliser, '
                  'sign certificates and z3/cvc5; native replay of counterexamples')],
    checks=checks,
    notes='See DESIGN.md. Exit codes: 0 held, 1 violation, 2 undecided, 3 checker fault.',
    not_applicable=na)
json.dump(man, open(os.path.join(ROOT, 'MANIFEST.json'), 'w'), indent=1)
print('claimed', sorted(CLAIMED), 'n/a', len(na))
